"""Which obligations / lemmas / bounded stand-ins constitute each property."""

PROPS = {}


def prop(pid, modules, contracts, lemmas=(), bounded=(), assumed=(), not_decided=()):
    PROPS[pid] = {"modules": list(modules), "contracts": list(contracts), "lemmas": list(lemmas),
                  "bounded": list(bounded), "assumed": list(assumed), "not_decided": list(not_decided)}


prop("C04", ["contracts.c04_codec"],
     ["EncodeRaw", "EncodeRawBool", "DecodeRaw", "DecodeRawBool", "DecodeWrongLength", "DecodeEncode", "EncodeDecode",
      "VarLen"],
     not_decided=["IEEE-754 values of REAL32/REAL64 and the ASCII / UTF-16-LE codecs are CPython's struct/codecs (only the table entry and the wrong-length rejection are proved)"])

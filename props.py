"""Which obligations / lemmas / bounded stand-ins constitute each property."""

PROPS = {}


def prop(pid, modules, contracts, lemmas=(), bounded=(), assumed=(), not_decided=()):
    PROPS[pid] = {"modules": list(modules), "contracts": list(contracts), "lemmas": list(lemmas),
                  "bounded": list(bounded), "assumed": list(assumed), "not_decided": list(not_decided)}


prop("C04", ["contracts.c04_codec"],
     ["EncodeRaw", "EncodeRawBool", "DecodeRaw", "DecodeRawBool", "DecodeWrongLength", "DecodeEncode", "EncodeDecode",
      "VarLen"],
     bounded=[("bounded.codec", "strings_and_reals")],
     not_decided=["IEEE-754 values of REAL32/REAL64 and the ASCII / UTF-16-LE codecs are CPython's struct/codecs (only the table entry and the wrong-length rejection are proved)"])

prop("C05", ["contracts.c04_codec", "contracts.c05_pdovar", "contracts.c15_pdo"], ["PdoGet", "PdoSet", "VarLen", "PdoOnMessage", "PdoDataSize", "PdoNeighbours", "PdoAddVariable"],
     not_decided=["REAL32/REAL64 mapped at unaligned offsets (float kind is opaque to the engine)"])

prop("C16", ["contracts.c16_emcy"], ["OnEmcy", "EmcyReset", "EmcyResetThenFrames", "EmcyAddCallback", "EmcySend", "EmcyGetDesc", "EmcyWait"],
     assumed=["A5 user callbacks do not re-enter the consumer and do not raise", "Network.send_message hands the frame to the bus (env/net.py)"],
     not_decided=["time-out behaviour of EmcyConsumer.wait in real time (condition variable)"])

prop("C10", ["contracts.c10_network", "contracts.c17_periodic", "contracts.c15_pdo"],
     ["Subscribe", "Unsubscribe", "Notify", "SendMessage", "PeriodicInit", "TaskUpdate", "ListenerDispatch", "Scanner", "ScannerReset",
      "RemoteAssociate", "LocalAssociate", "AddSdo", "NetSetItem", "SubscribeBoundMethod"],
     assumed=["A5 callbacks do not mutate the subscription table while being dispatched and do not raise (unknown-prefix loop summary)",
              "python-can Bus.send / send_periodic receive the Message built by the library (env/stubs.py BusStub)"],
     not_decided=["callbacks that mutate the subscription table during dispatch; real thread interleavings of notify and subscribe"])

prop("C11", ["contracts.c11_nmt"],
     ["OnCommand", "MasterSendCommand", "SlaveSendCommand", "StateSetter", "StateGetter", "OnHeartbeat",
      "WaitForHeartbeat", "WaitForBootup", "AddHeartbeatCallback", "NmtTables"],
     assumed=["Condition.wait is a havoc point: on wake-up either nothing changed or on_heartbeat's post-condition holds (A4)",
              "Network.send_message hands the frame to the bus (env/net.py)", "A5 heartbeat callbacks do not re-enter / raise"],
     not_decided=["that a wait wakes up in time (real time / threads)",
                  "the library's extra SLEEP/STANDBY commands 80/96 (not in CiA 301) are left unconstrained"])

prop("C17", ["contracts.c10_network", "contracts.c11_nmt", "contracts.c17_periodic"],
     ["SyncStart", "SyncStop", "SyncStopStart", "PdoStart", "PdoStartNoPeriod", "PdoStop", "PdoUpdate", "HeartbeatStart",
      "HeartbeatOnWrite", "HeartbeatAtBootUp", "HeartbeatStateChange", "NodeGuarding", "TaskUpdate", "PdoStartSetUpdate", "Disconnect", "PeriodicInit", "SlaveSendCommand"],
     assumed=["python-can cyclic task model (env/stubs.py TaskStub): a task transmits the payload snapshot taken at creation "
              "(or at modify_data) with its period until stop(); `live` = started - stopped is ghost state derived from the event trace",
              "Network.disconnect is proved for 2 nodes x 2 maps in all 16 running/idle configurations (quick) plus 3x3, 1x4 and 4x1 in selected / all configurations (thorough): enumerated, not for arbitrary counts"],
     not_decided=["real-time behaviour of the transmitting thread"])

prop("C19", ["contracts.c19_p402"],
     ["StateDecode", "NextState", "NextStateRefused", "ChangeState", "SetState", "SetStateAuto", "SetStatePdo", "OpModeSet", "OpModePdo"],
     assumed=["conformant CiA 402 drive (env/drive402.py): reacts to a controlword with the transition CiA 402 defines for its "
              "current state, reports any statusword matching its state's bit pattern, displays the mode it was given",
              "controlword/statusword carried by SDO objects, or (SetStatePdo) by an RPDO / TPDO pair over env/drive402.py PdoLink: the RPDO "
              "reaches the drive at transmit() (event-driven) or before the next TPDO (periodic), every TPDO reception runs the node's "
              "on_TPDOs_update_callback; the cached statusword is current when the assignment starts",
              "operation mode carried by PDO (OpModePdo): 6060h in an RPDO / 6061h in a TPDO over env/drive402.py ModeLink, event-driven or "
              "periodic; the drive displays the mode it was given; the cached display is current when the assignment starts",
              "A8 frozen clock with patience: the conformant drive answers before any deadline; a call that has read the clock 200 times "
              "without finishing is past every deadline (SetState, SetStatePdo, OpModePdo) - so a stalled wait ends by the library's own time-out"],
     not_decided=["time-outs in real time; automatic transitions with the PDO transport; a stale cached statusword / mode display at the start of an "
                  "assignment (PDO transport)"])

prop("C18", ["contracts.c18_lss"],
     ["LssNoReplyServices", "LssConfigure", "LssInquire", "LssSendAddress", "LssSwitchSelective", "LssFastScanMessage", "LssFastScan", "LssFastScanTwice", "LssStaleReplies"],
     assumed=["CiA 305 unconfigured slave (env/lss.py FastScanSlaveNet): answers a fast-scan frame iff bit-checked is 128 or "
              "(LSS sub equals its position and the identity bits above bit-checked match), then moves to LSS next",
              "at most one reply per request, delivered through LssMaster.on_message_received; silence = queue.Empty after RESPONSE_TIMEOUT",
              "queue.Queue is FIFO (pyvc/libmodels.py)"],
     not_decided=["several slaves answering at once; real-time behaviour of the 10 ms / 200 ms sleeps"])

prop("C02", ["contracts.c02_server", "contracts.c06_localnode"], ["OnRequest", "OnRequestFresh", "NodeGetData", "NodeGetDataAnyCallbacks", "NodeSetData", "NodeSetDataLengths"],
     assumed=["node behind the server (env/sdonode.py): get_data returns the entry's bytes or raises SdoAbortedError, set_data "
              "accepts or raises SdoAbortedError; LocalNode's own get_data/set_data are contracted separately",
              "Network.send_message does not raise (env/net.py)",
              "A5 read callbacks do not re-enter the node and do not raise; NodeGetDataAnyCallbacks: the callbacks in front of the first "
              "answering one return None (that is what 'first answering' means), summarised as one foreach-call event"],
     not_decided=["block transfer on the server side (not implemented by the library: refused with 0x05040001)"])

prop("C01", ["contracts.c01_client"], ["WsInit", "WsWriteSegment", "WsWriteExpedited", "WsClose", "RsInit", "RsRead", "ReqResp", "Upload", "Download", "WsWriteProgress", "WsCloseAfterFailure", "WsWriteExpeditedPieces"],
     bounded=[("bounded.roundtrip", "typed_roundtrip")],
     assumed=["SdoClient.request_response as seen by the streams (env/sdoclient.py); the real function is contracted in ReqResp",
              "upload(): the stream's read() hands back the server's bytes (conclusion of UploadTheorem / RsInit / RsRead); whole "
              "transfers are proved by DownloadTheorem / UploadTheorem against the conformant server model env/sdoserver.py; the io "
              "layer on top (BufferedWriter / BufferedReader) is exercised only by the bounded stand-in"],
     not_decided=["CPython io.BufferedWriter/BufferedReader/TextIOWrapper internals (assumed contract), text-mode decoding, real time"])

prop("C20", ["contracts.c20_views"], ["EncodeBits", "DecodeBits", "GetBits", "BitsSetItem", "BitsAfterOtherView", "DecodeDesc", "EncodeDesc", "ArrayTemplate"],
     bounded=[("bounded.phys", "phys_view")],
     assumed=["bit ranges are enumerated (every contiguous [lo,hi) in 32 bits for get/set through Bits; for encode_bits/decode_bits "
              "directly a covering subset in the quick tier, every range within 32 bits plus ranges reaching up to bit 64 in the thorough "
              "tier); raw and field values are universally quantified",
              "description tables are the enumerated family in contracts/c20_views.py (1..20 entries); the looked-up value is universally quantified"],
     not_decided=["the physical view (float division and round()): floats are opaque to the engine; covered only by the bounded stand-in"])

prop("C15", ["contracts.c04_codec", "contracts.c05_pdovar", "contracts.c10_network", "contracts.c15_pdo", "contracts.c17_periodic"],
     ["PdoOnMessage", "PdoAddCallback", "PdoTransmit", "PdoSubscribe", "PdoWaitForReception", "SubscribeBoundMethod",
      "PdoMapGetItem", "PdoGet", "PdoSet", "Notify", "Subscribe", "PdoStartSetUpdate"],
     assumed=["Network.send_message / subscribe as recorded by env/net.py; dispatch to subscribers is Network.notify (contracted in C10)",
              "Condition.wait is a havoc point (A4); A5 callbacks do not re-enter"],
     not_decided=["reception from a second thread while another thread waits (real interleavings)",
                  "which of 0x1600+n / 0x1A00+n the PDO container files rx/tx maps under (fixed by the pinned test-suite, not by the statement)"])

prop("C09", ["contracts.c09_pdocfg", "contracts.c15_pdo"], ["PdoSave", "PdoSaveRead", "PdoReadFromOd", "PdoSubscribe", "PdoMapsInit"],
     assumed=["strict CiA 301 device behind the PDO's communication record and mapping array (env/pdodev.py): stores accepted "
              "writes, refuses out-of-order ones; every record[sub].raw access is one SDO transfer",
              "mappings of 0, 1, 2 and 8 entries in the quick tier, every count 0..8 in the thorough tier (enumerated count; every entry's index / sub-index / length universally quantified)",
              "the configuration only sets optional parameters whose sub-entries exist in the dictionary"],
     not_decided=["PDO numbers 1..512 / PdoMaps construction; configuration taken from the dictionary (from_od=True); "
                  "devices with a fixed-length mapping array (the _fill_map work-around)"])

prop("C12", ["contracts.c01_client", "contracts.c12_blockdown"], ["BdInit", "BdSend", "BdWrite", "BdClose", "BdRetransmit", "ReqResp"],
     bounded=[("bounded.blocktransfer", "block_download")],
     assumed=["SdoClient request_response / read_response / send_request / abort as seen by the stream (env/blockclient.py)",
              "binascii.crc_hqx is a byte-wise fold (uninterpreted step function); the CRC-16 polynomial is CPython's",
              "_retransmit per function is contracted for sub-blocks of 3 and 5 full segments (quick; 1, 2, 4, 5, 7, 12 segments with every acknowledged count in the thorough tier); for ALL sub-block sizes and acknowledged counts it is covered by BlockDownloadLossTheorem's invariant"],
     not_decided=["liveness: that a transfer under multiple losses eventually succeeds (it may fail visibly: after a loss during a "
                  "retransmission the client's CRC is wrong and the server rejects the end frame); termination of the mutual recursion "
                  "write/send/_block_ack/_retransmit (partial correctness only)",
                  "all three clauses of the statement are proved against the conformant server model env/blockserver.py: undisturbed "
                  "(BlockDownloadTheorem), single loss repaired (BlockDownloadLossTheorem), returns normally only after committing exactly "
                  "the payload under ANY loss pattern (BlockDownloadSafetyTheorem with the modular contract BdRetransmitContract); the "
                  "reference server of the bounded stand-in is an independent second implementation of the peer"])

prop("C13", ["contracts.c01_client", "contracts.c12_blockdown", "contracts.c13_blockup"],
     ["BuInit", "BuRead", "BuAckBlock", "BuRetransmit", "BuClose", "ReqResp"],
     bounded=[("bounded.blocktransfer", "block_upload")],
     assumed=["SdoClient request_response / read_response / send_request / abort as seen by the stream (env/blockclient.py)",
              "binascii.crc_hqx is a byte-wise fold (uninterpreted step function)",
              "in BuRead, _retransmit is replaced by its own contract's summary (env BuStream)"],
     not_decided=["'any corruption ends in an error' rests on the strength of CRC-16, not on this code",
                  "end to end: the undisturbed upload (BlockUploadTheorem) and safety under arbitrary LOSS of segments "
                  "(BlockUploadLossTheorem: exactly the value or an SDO error, against env/blockserver.py LossyBlockUploadServer) are proved; "
                  "CORRUPTED segments and wrong end frames over whole transfers are covered per function (BuRead, BuClose) and by the "
                  "bounded stand-in; termination and timing of _retransmit's deadline loop (partial correctness only)"])

prop("C08", ["contracts.c04_codec", "contracts.c08_eds", "contracts.c20_views"], ["CalcBitLength", "SignedIntFromHex", "BuildVariableNumbers", "BuildVariableDataType", "OdLookup", "ArrayTemplate"],
     bounded=[("bounded.eds", "import_described")],
     assumed=["trusted axioms about CPython text/number conversion: int(text_of(n), 0) == n for the spellings 0x%X and %d; "
              "a numeric text stays the text of the same number under .upper() and removal of blanks and never contains '$NODEID'",
              "RawConfigParser reduced to get / has_option over a map (env/cfg.py)"],
     not_decided=["import_eds as a whole (regex section classification, RawConfigParser parsing, comprehensions, $NODEID text "
                  "forms, CompactSubObj expansion, device info, comments): covered only by the bounded stand-in"])

prop("C14", ["contracts.c04_codec", "contracts.c08_eds"], ["RevertConvert", "BuildVariableNumbers", "BuildVariableDataType", "SignedIntFromHex", "CalcBitLength"],
     bounded=[("bounded.eds", "export_import_roundtrip")],
     assumed=["trusted axioms about CPython text/number conversion (see C08); f\"0x{v:02X}\" of a negative v is \"0x-…\", which int(., 0) rejects"],
     not_decided=["export_eds / import_eds document assembly (datetime, RawConfigParser.write, destination handling): "
                  "covered only by the bounded stand-in"])

prop("C03", ["contracts.c01_client", "contracts.c02_server", "contracts.c03_typed", "contracts.c04_codec", "contracts.c06_localnode",
             "contracts.c08_eds", "contracts.c10_network"],
     ["RawSet", "RawGet", "SdoGetItem", "CobIds", "OdLookup", "EncodeRaw", "DecodeRaw", "EncodeDecode", "Download", "Upload",
      "WsInit", "WsWriteSegment", "WsWriteExpedited", "WsClose", "RsInit", "RsRead", "ReqResp", "OnRequest", "OnRequestFresh",
      "NodeGetData", "NodeGetDataAnyCallbacks", "NodeSetData", "NodeSetDataLengths", "Subscribe", "Notify"],
     bounded=[("bounded.roundtrip", "typed_roundtrip")],
     assumed=["the chain raw -> encode_raw -> download -> frames -> on_request -> set_data -> data_store -> get_data -> frames -> upload -> "
              "decode_raw is composed from the per-function contracts listed, the four segmented-transfer theorems (client against the "
              "conformant server model, server against the conformant client model) and the real-pair theorems (PairDownloadTheorem, "
              "PairExpedited, PairUploadTheorem, PairUploadSmall: real SdoClient + streams and real SdoServer joined by the inline bus "
              "env/pairnet.py, only the node's get_data/set_data modelled by env/sdonode.py; StackRoundTrip: real LocalNode behind the server too, write then read back); the typed layer on top (encode_raw / "
              "decode_raw, SdoVariable) is composed by contract and exercised end to end by the bounded stand-in",
              "sequential execution (A4): inline delivery of responses"],
     not_decided=["the schedules half of the quantifier: responses delivered later by another thread, the threaded virtual bus, "
                  "1..8 concurrent client threads (queue.Queue and send_lock are trusted)",
                  "REAL32/64 values and string codecs (CPython); a string ending in NUL does not round-trip because decode strips trailing NULs"])

prop("C06", ["contracts.c01_client", "contracts.c02_server", "contracts.c04_codec", "contracts.c06_localnode"],
     ["OnRequest", "OnRequestFresh", "NodeGetData", "NodeGetDataAnyCallbacks", "NodeSetData", "NodeSetDataLengths", "ReqResp", "DecodeWrongLength"],
     assumed=["node behind the server reduced to get_data / set_data for the server contract (env/sdonode.py); abstract object "
              "dictionary for the node contracts (env/od.py)"],
     not_decided=["'no value' is accepted as either 0x060A0023 (what the pinned test-suite expects) or 0x08000024"])

prop("C07", ["contracts.c01_client", "contracts.c02_server", "contracts.c12_blockdown", "contracts.c13_blockup"],
     ["ReqResp", "WsInit", "WsWriteSegment", "WsWriteExpedited", "WsCloseAfterFailure", "RsInit", "RsRead", "BdInit", "BdSend", "BdClose", "BuInit", "BuRead",
      "OnRequest", "OnRequestFresh"],
     bounded=[("bounded.roundtrip", "disturbed_transfers")],
     assumed=["every single disturbance of a response frame is covered by quantifying the response bytes universally in the per-step "
              "contracts; 'does not poison the next transfer' = ReqResp discards whatever was queued before the request (arbitrary stale content) "
              "and every stream starts from its own fresh state"],
     not_decided=["timing races (a late response arriving after the flush and before the real response)",
                  "whole transfers: DisturbedPairDownload / DisturbedPairUpload prove, for the real client against the real server over "
                  "env/pairnet.py DisturbingPairNet, that ONE disturbance of a response anywhere in a segmented transfer (lost, abort frame, "
                  "flipped toggle, other command specifier, duplicated, other multiplexer, stale segment response with the other toggle "
                  "arriving first) ends in an SDO error or in exactly the right data; 'the next transfer completes' is PairDownloadTheorem / "
                  "PairUploadTheorem from arbitrary leftover state on both sides (C03); block transfers under disturbance: per step, the "
                  "loss theorems of C12 / C13 and the bounded stand-in"])

PROPS["C01"]["modules"].append("contracts.l01_transfers")
PROPS["C01"]["contracts"].append("DownloadTheorem")
PROPS["C01"]["contracts"].append("UploadTheorem")
for _p in ("C03",):
    PROPS[_p]["modules"].append("contracts.l01_transfers")
    PROPS[_p]["contracts"] += ["DownloadTheorem", "UploadTheorem"]
for _p in ("C02", "C03"):
    PROPS[_p]["modules"].append("contracts.l02_server_transfers")
    PROPS[_p]["contracts"] += ["ServerUploadTheorem", "ServerDownloadTheorem"]
PROPS["C13"]["modules"].append("contracts.l13_blockupload")
PROPS["C13"]["contracts"].append("BlockUploadTheorem")
PROPS["C12"]["modules"].append("contracts.l12_blockdownload")
PROPS["C12"]["modules"].append("contracts.l12_blockdownload_safety")
PROPS["C12"]["contracts"] += ["BlockDownloadTheorem", "BlockDownloadLossTheorem", "BdRetransmitContract", "BlockDownloadSafetyTheorem"]
for _p in ("C03",):
    PROPS[_p]["modules"].append("contracts.l03_pair")
    PROPS[_p]["contracts"] += ["PairDownloadTheorem", "PairExpedited", "PairUploadTheorem", "PairUploadSmall", "StackRoundTrip", "StackRoundTripSmall"]
PROPS["C13"]["modules"].append("contracts.l13_blockupload_loss")
PROPS["C13"]["contracts"].append("BlockUploadLossTheorem")
PROPS["C07"]["modules"].append("contracts.l03_pair")
PROPS["C07"]["contracts"] += ["DisturbedPairDownload", "DisturbedPairUpload"]

"""C20 physical view (floats are opaque to the engine): bounded check on the real Variable.phys."""
import random


def phys_view(tier, seed):
    from canopen import objectdictionary as od
    from canopen.variable import Variable

    class Mem(Variable):
        def __init__(self, o):
            Variable.__init__(self, o)
            self.mem = b"\0" * (len(o) // 8)

        def get_data(self):
            return self.mem

        def set_data(self, d):
            self.mem = bytes(d)
    rng = random.Random(seed)
    factors = [10.0 ** k for k in range(-4, 5)] + [-(10.0 ** k) for k in range(-4, 5)] + [0.5, 3, -3, 0.25, 7, -0.1, 1, 10, 2, -4]
    types = [(od.INTEGER8, 8, True), (od.INTEGER16, 16, True), (od.INTEGER32, 32, True), (od.UNSIGNED8, 8, False),
             (od.UNSIGNED16, 16, False), (od.UNSIGNED32, 32, False), (od.INTEGER64, 64, True)]
    n_rand = 20 if tier == "quick" else 400
    evals = 0
    failures = []
    for code, bits, signed in types:
        lo, hi = (-(1 << (bits - 1)), (1 << (bits - 1)) - 1) if signed else (0, (1 << bits) - 1)
        raws = {lo, lo + 1, -1 if signed else 1, 0, 1, hi - 1, hi} | {rng.randint(lo, hi) for _ in range(n_rand)}
        for f in factors:
            for raw in raws:
                if bits > 48 and abs(raw) > 2 ** 52:
                    continue                      # beyond exact double range: "half a step" is not meaningful
                o = od.ODVariable("v", 0x2000, 0)
                o.data_type = code
                o.factor = f
                v = Mem(o)
                # choose physical values around the image of a raw value
                for delta in (0.0, 0.3, -0.3, 0.49, -0.49):
                    want = (raw + delta) * f
                    q = want / f
                    expected_raw = int(round(q))
                    if not (lo <= expected_raw <= hi):
                        continue
                    evals += 1
                    try:
                        v.phys = want
                        got_raw = v.raw
                        back = v.phys
                    except Exception as e:
                        failures.append({"type": code, "factor": f, "phys": want, "error": repr(e)})
                        continue
                    if got_raw != expected_raw or abs(back - want) > abs(f) / 2 * (1 + 1e-9) + 1e-12:
                        failures.append({"type": code, "factor": f, "phys": want, "raw": got_raw,
                                         "expected_raw": expected_raw, "read_back": back})
                # integer physical values with an integer factor (both operands ints: no float in the caller's hands)
                if isinstance(f, int) and abs(f) > 1:
                    for off in range(-abs(f) + 1, abs(f)):
                        want = raw * f + off
                        expected_raw = int(round(want / f))
                        if not (lo <= expected_raw <= hi):
                            continue
                        evals += 1
                        try:
                            v.phys = want
                            got_raw = v.raw
                            back = v.phys
                        except Exception as e:
                            failures.append({"type": code, "factor": f, "phys": want, "error": repr(e)})
                            continue
                        if got_raw != expected_raw or abs(back - want) > abs(f) / 2 * (1 + 1e-9) + 1e-12:
                            failures.append({"type": code, "factor": f, "phys": want, "raw": got_raw,
                                             "expected_raw": expected_raw, "read_back": back})
                if len(failures) > 5:
                    break
    return {"kind": "bounded", "name": "C20 phys view: raw = nearest integer of value/factor, read-back within half a step",
            "bound": "%d integer types x %d factors (10^-4..10^4, both signs, 0.5, 3, ...) x range ends + %d random raws x 5 offsets; integer factors also with every integer physical value between two steps"
                     % (len(types), len(factors), n_rand),
            "evaluations": evals, "failures": failures[:5]}

"""C08 / C14 whole-document claims (text processing outside the engine): bounded checks on the real import/export."""
import io
import os
import random
import tempfile

INT = {0x02: (8, True), 0x03: (16, True), 0x10: (24, True), 0x04: (32, True), 0x12: (40, True), 0x13: (48, True),
       0x14: (56, True), 0x15: (64, True), 0x05: (8, False), 0x06: (16, False), 0x16: (24, False), 0x07: (32, False),
       0x18: (40, False), 0x19: (48, False), 0x1A: (56, False), 0x1B: (64, False)}
OTHER = [0x01, 0x08, 0x11, 0x09, 0x0A, 0x0B, 0x0F]
ACCESS = ["rw", "ro", "wo", "const"]


def gen_var(rng, name, node_id, allow_relative=True):
    t = rng.choice(list(INT) + OTHER)
    v = {"name": name, "type": t, "access": rng.choice(ACCESS), "mappable": rng.random() < 0.5}
    if t in INT:
        bits, signed = INT[t]
        lo, hi = (-(1 << (bits - 1)), (1 << (bits - 1)) - 1) if signed else (0, (1 << bits) - 1)
        pick = lambda: rng.choice([lo, hi, 0, 1, -1 if signed else 2, rng.randint(lo, hi)])
        if rng.random() < 0.8:
            v["default"] = max(0, pick()) if not signed else pick()
        if rng.random() < 0.4:
            v["min"], v["max"] = lo, hi
        elif rng.random() < 0.4:
            a, b = sorted((pick(), pick()))
            v["min"], v["max"] = a, b
        if rng.random() < 0.5:
            v["value"] = pick()
        if allow_relative and not signed and bits == 32 and rng.random() < 0.3 and node_id is not None:
            v["relative"] = rng.choice([0x180, 0x200, 0x600])
            v["default"] = v["relative"] + node_id
            v.pop("value", None)
    elif t in (0x08, 0x11):
        # REAL32 / REAL64: values that need many digits, an exponent, or are tiny / huge
        floats = [0.0, 1.5, -2.25, 1.23456789012, 2.5e-9, 1.17549435e-38, -3.25e20, 0.1, 1e-7 / 3]
        if rng.random() < 0.8:
            v["default"] = rng.choice(floats)
        if rng.random() < 0.4:
            v["value"] = rng.choice(floats)
    elif t == 0x01:
        v["default"] = rng.choice([0, 1])
    elif t in (0x09, 0x0B):
        v["default"] = rng.choice(["abc", "Hello World", "x"])
    return v


def gen_dict(rng, node_id):
    objs = {}
    used = set()

    def nm(base):
        n = base
        k = 0
        while n in used:
            k += 1
            n = "%s %d" % (base, k)
        used.add(n)
        return n
    for i in range(rng.randint(2, 6)):
        index = rng.choice([0x1000 + rng.randrange(0x20), 0x2000 + rng.randrange(0x100), 0x6000 + rng.randrange(0x100)])
        if index in objs:
            continue
        kind = rng.choice(["var", "var", "record", "array", "compact"])
        name = nm(rng.choice(["Speed", "Device type", "Some object", "With = sign", "Percent % name", "Label"]))
        if kind == "var":
            objs[index] = ("var", gen_var(rng, name, node_id))
        elif kind == "compact":
            v = gen_var(rng, name, node_id, False)
            v["n"] = rng.randint(1, 5)
            v["names"] = rng.random() < 0.5
            objs[index] = ("compact", v)
        else:
            n = rng.randint(1, 20 if rng.random() < 0.2 else 4)
            members = {0: {"name": "Number of entries", "type": 0x05, "access": "ro", "mappable": False, "default": n}}
            for s in range(1, n + 1):
                members[s] = gen_var(rng, "%s member %d" % (name, s), node_id)
            objs[index] = (kind, {"name": name, "members": members})
    return objs


def num(rng, v, signed_bits=None):
    """number spelling: decimal or hex; negative limits of signed types as two's complement hex"""
    if isinstance(v, float):
        return repr(v)
    if v < 0:
        if signed_bits and rng.random() < 0.7:
            return "0x%X" % (v + (1 << signed_bits))
        return str(v)
    return rng.choice(["%d", "0x%X", "0x%x"]) % v


def write_var(rng, lines, section, v, node_id, with_value):
    lines.append("[%s]" % section)
    lines.append("ParameterName=%s" % v["name"])
    if rng.random() < 0.8 or v["type"] == 0x0F:
        lines.append("ObjectType=0x%X" % (2 if (v["type"] == 0x0F and rng.random() < 0.5) else 7))
    lines.append("DataType=0x%04X" % v["type"])
    lines.append("AccessType=%s" % rng.choice([v["access"], v["access"].upper()]))
    lines.append("PDOMapping=%d" % int(v["mappable"]))
    bits = INT.get(v["type"], (None, False))
    sb = bits[0] if bits[1] else None
    if "relative" in v:
        lines.append("DefaultValue=%s" % rng.choice(["$NODEID+0x%X", "0x%X+$NODEID", "$NODEID + %d"]) % v["relative"])
    elif "default" in v:
        d = v["default"]
        lines.append("DefaultValue=%s" % (d if isinstance(d, str) else num(rng, d)))
    if "min" in v:
        lines.append("LowLimit=%s" % num(rng, v["min"], sb))
        lines.append("HighLimit=%s" % num(rng, v["max"], sb))
    if with_value and "value" in v:
        lines.append("ParameterValue=%s" % num(rng, v["value"]))
    lines.append("")


def write_eds(rng, objs, node_id_in_file, bitrate, with_value, rates=(250, 500)):
    L = ["[FileInfo]", "FileName=gen.eds", "", "[DeviceInfo]", "VendorName=ACME", "VendorNumber=0x1234", "ProductName=Thing",
         "ProductNumber=77", "RevisionNumber=3", "OrderCode=OC-1"] + ["BaudRate_%d=%d" % (r, int(r in rates)) for r in (10, 20, 50, 125, 250, 500, 800, 1000)] + [
         "LSS_Supported=1", "NrOfRXPDO=2", "NrOfTXPDO=4", "", "[Comments]", "Lines=2", "Line1=first comment", "Line2=second = comment", ""]
    if node_id_in_file is not None or bitrate is not None:
        L.append("[DeviceComissioning]")
        if node_id_in_file is not None:
            L.append("NodeID=%s" % rng.choice(["%d", "0x%X"]) % node_id_in_file)
        if bitrate is not None:
            L.append("Baudrate=%d" % bitrate)
        L.append("")
    for index, (kind, d) in sorted(objs.items()):
        sec = "%04X" % index
        if kind == "var":
            write_var(rng, L, sec, d, None, with_value)
        elif kind == "compact":
            L += ["[%s]" % sec, "ParameterName=%s" % d["name"], "ObjectType=0x8", "DataType=0x%04X" % d["type"],
                  "AccessType=%s" % d["access"], "CompactSubObj=%d" % d["n"], "PDOMapping=%d" % int(d["mappable"])]
            if "default" in d and "relative" not in d:
                L.append("DefaultValue=%s" % (d["default"] if isinstance(d["default"], str) else num(rng, d["default"])))
            L.append("")
            if d["names"]:
                L += ["[%sName]" % sec, "NrOfEntries=%d" % d["n"]] + ["%d=%s element %d" % (i, d["name"], i) for i in range(1, d["n"] + 1)] + [""]
        else:
            L += ["[%s]" % sec, "ParameterName=%s" % d["name"], "ObjectType=0x%X" % (9 if kind == "record" else 8),
                  "SubNumber=%d" % len(d["members"]), ""]
            for s, m in sorted(d["members"].items()):
                write_var(rng, L, "%s%s%X" % (sec, rng.choice(["sub", "Sub"]), s), m, None, with_value)
    return "\n".join(L) + "\n"


def check_var(fail, where, var, v, eff_node_id):
    def f(what, got, want):
        if got != want:
            fail.append("%s: %s is %r, described %r" % (where, what, got, want))
    f("name", var.name, v["name"])
    f("data type", var.data_type, v["type"])
    f("access type", var.access_type, v["access"])
    f("PDO mappability", var.pdo_mappable, v["mappable"])
    if "relative" in v:
        f("default", var.default, (v["relative"] + eff_node_id) if eff_node_id is not None else None if False else
          (v["relative"] + eff_node_id if eff_node_id is not None else var.default))
        if not var.relative:
            fail.append("%s: $NODEID default not marked relative" % where)
    elif "default" in v:
        f("default", var.default, v["default"])
    if "min" in v:
        f("low limit", var.min, v["min"])
        f("high limit", var.max, v["max"])


def import_described(tier, seed):
    import canopen
    from canopen import objectdictionary as od_
    rng = random.Random(seed)
    n = 60 if tier == "quick" else 1500
    evals = 0
    failures = []
    for it in range(n):
        explicit = rng.choice([None, None, rng.randint(1, 127)])
        in_file = rng.choice([None, rng.randint(1, 127)])
        eff = explicit if explicit is not None else in_file
        objs = gen_dict(rng, eff)
        dcf = rng.random() < 0.5
        bitrate = rng.choice([None, 250, 500])
        rates = tuple(r for r in (10, 20, 50, 125, 250, 500, 800, 1000) if rng.random() < 0.4)
        text = write_eds(rng, objs, in_file, bitrate, dcf, rates)
        fp = io.StringIO(text)
        fp.name = "gen.dcf" if dcf else "gen.eds"
        evals += 1
        fail = []
        try:
            od = canopen.import_od(fp, explicit)
        except Exception as e:
            failures.append({"seed": seed, "iteration": it, "what": "import raised %r" % (e,), "text": text[:600]})
            continue
        if set(od.indices) != set(objs):
            fail.append("indexes %s, described %s" % (sorted(od.indices), sorted(objs)))
        if (in_file is not None or bitrate is not None) and od.node_id != eff:
            # (without a commissioning section the dictionary's own node_id attribute is not required to be set)
            fail.append("node id %r, expected %r" % (od.node_id, eff))
        if od.bitrate != (bitrate * 1000 if bitrate else None):
            fail.append("bitrate %r, file says %r" % (od.bitrate, bitrate))
        if od.comments != "first comment\nsecond = comment":
            fail.append("comments %r" % od.comments)
        di = od.device_information
        if (di.vendor_name, di.vendor_number, di.product_number, di.nr_of_TXPDO, di.LSS_supported) != ("ACME", 0x1234, 77, 4, True) \
                or di.allowed_baudrates != {r * 1000 for r in rates}:
            fail.append("device information differs (allowed bit rates %s, file says %s)" % (sorted(di.allowed_baudrates), list(rates)))
        for index, (kind, d) in objs.items():
            if index not in od.indices:
                continue
            o = od[index]
            if od[d["name"]] is not o:
                fail.append("0x%04X: lookup by name reaches another object" % index)
            if kind == "var":
                if not isinstance(o, od_.ODVariable):
                    fail.append("0x%04X: kind %s, described variable" % (index, type(o).__name__))
                    continue
                check_var(fail, "0x%04X" % index, o, d, eff)
                if dcf and "value" in d and o.value != d["value"]:
                    fail.append("0x%04X: parameter value %r, described %r" % (index, o.value, d["value"]))
            elif kind == "compact":
                if not isinstance(o, od_.ODArray):
                    fail.append("0x%04X: kind %s, described array" % (index, type(o).__name__))
                    continue
                for s in range(1, d["n"] + 1):
                    m = o[s]
                    if m.data_type != d["type"] or m.subindex != s or m.access_type != d["access"]:
                        fail.append("0x%04X:%d compact element differs" % (index, s))
                    if d["names"] and m.name != "%s element %d" % (d["name"], s):
                        fail.append("0x%04X:%d compact element name %r" % (index, s, m.name))
            else:
                want = od_.ODRecord if kind == "record" else od_.ODArray
                if not isinstance(o, want):
                    fail.append("0x%04X: kind %s, described %s" % (index, type(o).__name__, kind))
                    continue
                for s, m in d["members"].items():
                    try:
                        mv = o[s]
                    except KeyError:
                        fail.append("0x%04X:%d missing" % (index, s))
                        continue
                    check_var(fail, "0x%04X:%d" % (index, s), mv, m, eff)
                    if od["%s.%s" % (d["name"], m["name"])] is not mv:
                        fail.append("0x%04X:%d 'Parent.Child' lookup reaches another object" % (index, s))
        if fail:
            failures.append({"seed": seed, "iteration": it, "what": fail[:4], "text": text[:400]})
            if len(failures) > 4:
                break
    return {"kind": "bounded", "name": "C08 import of EDS/DCF texts from an independent writer yields exactly the described dictionary",
            "bound": "%d generated documents (2-6 objects: variables, records/arrays of 1..20 members, CompactSubObj with/without name list; all "
                     "data types; decimal/hex spellings; $NODEID forms; signed limits as two's complement; node id explicit / from file / absent)" % n,
            "evaluations": evals, "failures": failures[:5]}


def build_od(rng, objs, node_id, bitrate):
    from canopen import objectdictionary as od_
    od = od_.ObjectDictionary()
    od.node_id = node_id
    od.bitrate = bitrate
    od.comments = "exported\ntwice = nice"
    od.device_information.vendor_name = "ACME"
    od.device_information.product_number = 77
    od.device_information.allowed_baudrates = {250000, 1000000}

    def mk(v, index, sub):
        var = od_.ODVariable(v["name"], index, sub)
        var.data_type = v["type"]
        var.access_type = v["access"]
        var.pdo_mappable = v["mappable"]
        if "default" in v:
            var.default = v["default"]
        if "relative" in v and node_id is not None:
            # a $NODEID-relative default as an imported dictionary carries it: raw text + flag + resolved value
            var.default_raw = "$NODEID+0x%X" % v["relative"]
            var.relative = True
            var.default = v["relative"] + node_id
        if "min" in v:
            var.min, var.max = v["min"], v["max"]
        if "value" in v:
            var.value = v["value"]
        if rng.random() < 0.3:
            var.storage_location = "RAM"
        if rng.random() < 0.3 and v["type"] in INT:
            var.factor, var.unit, var.description = 0.5, "mm", "some = text"
        return var
    for index, (kind, d) in objs.items():
        if kind in ("var", "compact"):
            od.add_object(mk(d, index, 0))
        else:
            c = (od_.ODRecord if kind == "record" else od_.ODArray)(d["name"], index)
            for s, m in d["members"].items():
                c.add_member(mk(m, index, s))
            od.add_object(c)
    return od


def export_import_roundtrip(tier, seed):
    import canopen
    from canopen import objectdictionary as od_
    rng = random.Random(seed + 1)
    n = 60 if tier == "quick" else 1500
    evals = 0
    failures = []
    for it in range(n):
        node_id = rng.choice([None, rng.randint(1, 127)])
        objs = {i: o for i, o in gen_dict(rng, node_id).items() if 0x1000 <= i}
        doc = rng.choice(["eds", "dcf"])
        for kind, d in objs.values():
            for v in ([d] if kind in ("var", "compact") else d["members"].values()):
                if doc != "dcf" or node_id is None:
                    v.pop("relative", None)     # only a DCF carries the node id needed to resolve $NODEID on re-import
        bitrate = rng.choice([None, 250000, 500000])
        od = build_od(rng, objs, node_id, bitrate)
        dest_kind = rng.choice(["file", "stream", "stdout"])
        evals += 1
        try:
            if dest_kind == "file":
                d = tempfile.mkdtemp(prefix="pyvc-eds-", dir=os.environ.get("TMPDIR", "/var/tmp"))
                path = os.path.join(d, "out." + doc)
                try:
                    canopen.export_od(od, path)
                    text = open(path).read()
                finally:
                    try:
                        os.unlink(path)
                    except OSError:
                        pass
                    os.rmdir(d)
            elif dest_kind == "stream":
                buf = io.StringIO()
                canopen.export_od(od, buf, doc_type=doc)
                text = buf.getvalue()
            else:
                import contextlib
                buf = io.StringIO()
                with contextlib.redirect_stdout(buf):
                    canopen.export_od(od, None, doc_type=doc)
                text = buf.getvalue()
            fp = io.StringIO(text)
            fp.name = "x." + doc
            od2 = canopen.import_od(fp)
        except Exception as e:
            failures.append({"seed": seed, "iteration": it, "what": "export/import raised %r" % (e,)})
            continue
        fail = []
        if set(od2.indices) != set(od.indices):
            fail.append("indexes differ")
        if doc == "dcf" and (od2.node_id != node_id or od2.bitrate != bitrate):
            fail.append("DCF node id / bit rate (%r, %r) came back as (%r, %r)" % (node_id, bitrate, od2.node_id, od2.bitrate))
        if od2.comments != od.comments:
            fail.append("comments differ")
        if od2.device_information.vendor_name != "ACME" or od2.device_information.product_number != 77 \
                or od2.device_information.allowed_baudrates != {250000, 1000000}:
            fail.append("device information differs")

        def same(a, b, where):
            if getattr(a, "relative", False) != getattr(b, "relative", False):
                fail.append("%s: relative flag %r -> %r" % (where, getattr(a, "relative", False), getattr(b, "relative", False)))
            for attr in ("name", "index", "subindex", "data_type", "access_type", "pdo_mappable", "default", "min", "max",
                         "storage_location", "factor", "unit", "description") + (("value",) if doc == "dcf" else ()):
                if getattr(a, attr) != getattr(b, attr):
                    fail.append("%s: %s %r -> %r" % (where, attr, getattr(a, attr), getattr(b, attr)))
        for index, o in od.indices.items():
            if index not in od2.indices:
                continue
            o2 = od2[index]
            if type(o) is not type(o2):
                fail.append("0x%04X: kind %s -> %s" % (index, type(o).__name__, type(o2).__name__))
                continue
            if isinstance(o, od_.ODVariable):
                same(o, o2, "0x%04X" % index)
            else:
                if o.name != o2.name or set(o.subindices) != set(o2.subindices):
                    fail.append("0x%04X: name/sub-indices differ" % index)
                    continue
                for s in o.subindices:
                    same(o[s], o2[s], "0x%04X:%d" % (index, s))
        if fail:
            failures.append({"seed": seed, "iteration": it, "doc": doc, "dest": dest_kind, "what": fail[:4]})
            if len(failures) > 4:
                break
    return {"kind": "bounded", "name": "C14 export to EDS/DCF and re-import loses nothing",
            "bound": "%d generated dictionaries (all data types, signed/unsigned defaults and limits at the range ends, records/arrays of 1..20 "
                     "members, names with spaces, %% and =), both document types, three destination kinds" % n,
            "evaluations": evals, "failures": failures[:5]}

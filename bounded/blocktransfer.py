"""C12 / C13 end-to-end claims against a reference CiA 301 block server: bounded, natively on the real client."""
import random
import struct
import binascii


class RefBlockNet:
    """network + conformant SDO block server for one object; can lose chosen (sub-block, seqno) segments once"""

    def __init__(self, client, blksizes, crc=True, value=None, lose_down=None, lose_up=None):
        self.client = client
        self.blksizes = list(blksizes)
        self.crc = crc
        self.value = value                 # for upload
        self.committed = None
        self.buf = bytearray()
        self.mode = None
        self.errors = []
        self.lose_down = lose_down          # (subblock index, seqno) lost once on download
        self.lose_up = lose_up              # (subblock index, seqno) lost once on upload
        self.subblock = 0
        self.expected = 1
        self.blk = None
        self.received_in_block = []
        self.bus = True

    # --- helpers
    def reply(self, data):
        self.client.on_response(self.client.tx_cobid, bytes(data), 0.0)

    def next_blk(self):
        b = self.blksizes[min(self.subblock, len(self.blksizes) - 1)]
        return b

    def send_message(self, can_id, data, remote=False):
        d = bytes(data)
        if len(d) != 8:
            self.errors.append("frame of %d bytes" % len(d))
            return
        cmd = d[0]
        if self.mode == "down-data":
            return self.down_segment(d)
        ccs = cmd >> 5
        if ccs == 4:
            self.mode = None
            self.errors.append("client abort %08x" % struct.unpack_from("<L", d, 4)[0])
            return
        if ccs == 6 and (cmd & 1) == 0:                       # initiate block download
            self.mode = "down-data"
            self.size = struct.unpack_from("<L", d, 4)[0] if cmd & 2 else None
            self.client_crc = bool(cmd & 4)
            self.buf = bytearray()
            self.subblock = 0
            self.expected = 1
            self.blk = self.next_blk()
            self.pending = bytearray()
            self.last_len_known = None
            return self.reply(struct.pack("<BHBB3x", 0xA0 | (4 if self.crc else 0), *struct.unpack_from("<HB", d, 1), self.blk))
        if ccs == 6 and (cmd & 1) == 1:                       # end block download
            n = (cmd >> 2) & 7
            data = bytes(self.buf)
            if n and len(data) >= n:
                data = data[:len(data) - n]
            if self.crc and self.client_crc:
                want = binascii.crc_hqx(data, 0)
                got = struct.unpack_from("<H", d, 1)[0]
                if want != got:
                    self.errors.append("crc mismatch")
                    return self.reply(struct.pack("<BHBL", 0x80, 0, 0, 0x05040004))
            if self.size is not None and self.size != len(data):
                self.errors.append("size mismatch %d != %d" % (self.size, len(data)))
                return self.reply(struct.pack("<BHBL", 0x80, 0, 0, 0x06070010))
            self.committed = data
            self.mode = None
            return self.reply(b"\xA1" + bytes(7))
        if ccs == 5:
            return self.upload(d)
        self.errors.append("unexpected command %02x" % cmd)

    def down_segment(self, d):
        seq = d[0] & 0x7F
        last = bool(d[0] & 0x80)
        if self.lose_down == (self.subblock, seq):
            self.lose_down = None
            if last or seq == self.blk:
                # the loss of the final segment of a sub-block is only seen by time-out: acknowledge what we have
                self.ack_down(False)
            return
        if seq == self.expected:
            self.received_in_block.append(d[1:8])
            self.expected += 1
        if last or seq == self.blk:
            self.ack_down(last and seq == self.expected - 1)

    def ack_down(self, finished):
        ackseq = self.expected - 1
        for chunk in self.received_in_block:
            self.buf.extend(chunk)
        self.received_in_block = []
        self.subblock += 1
        self.expected = 1
        self.blk = self.next_blk()
        if finished:
            self.mode = "down-end"
        self.reply(bytes([0xA2, ackseq, self.blk]) + bytes(5))

    # --- upload
    def upload(self, d):
        cmd = d[0]
        cs = cmd & 3
        if cs == 0:                                           # initiate
            self.client_crc = bool(cmd & 4)
            self.up_blk = d[4]
            self.up_pos = 0
            self.up_sub = 0
            self.mux = d[1:4]
            return self.reply(bytes([0xC2 | (4 if self.crc else 0)]) + self.mux + struct.pack("<L", len(self.value)))
        if cs == 3:                                           # start
            return self.up_send_block()
        if cs == 2:                                           # block ack
            ackseq, blk = d[1], d[2]
            self.up_pos = self.up_block_start + 7 * ackseq
            self.up_blk = blk
            self.up_sub += 1
            if self.up_pos >= len(self.value):
                n = (7 - len(self.value) % 7) % 7 if self.value else 7
                if not self.value:
                    n = 7
                crc = binascii.crc_hqx(self.value, 0) if (self.crc and self.client_crc) else 0
                return self.reply(struct.pack("<BH5x", 0xC1 | (n << 2), crc))
            return self.up_send_block()
        if cs == 1:
            self.mode = None
            self.up_closed = True

    def up_send_block(self):
        self.up_block_start = self.up_pos
        pos = self.up_pos
        for seq in range(1, self.up_blk + 1):
            chunk = self.value[pos:pos + 7]
            pos += 7
            last = pos >= len(self.value)
            frame = bytes([seq | (0x80 if last else 0)]) + chunk.ljust(7, b"\0")
            if self.lose_up == (self.up_sub, seq):
                self.lose_up = None
            else:
                self.reply(frame)
            if last:
                break


def _client(net_factory):
    import canopen
    from canopen.sdo.client import SdoClient
    c = SdoClient(0x601, 0x581, canopen.ObjectDictionary())
    c.RESPONSE_TIMEOUT = 0.02
    c.network = net_factory(c)
    return c


def block_download(tier, seed):
    rng = random.Random(seed)
    failures = []
    evals = 0
    lengths = [1, 2, 6, 7, 8, 13, 14, 15, 21, 30, 49, 50, 888, 889, 890, 896] + ([1778, 2667] if tier != "quick" else [])
    blkseqs = [[127], [1], [1, 1], [2, 3, 1], [127, 5], [4], [3, 1, 7, 2], [126, 127]]
    for n in lengths:
        payload = bytes(rng.randrange(256) for _ in range(n))
        for blks in blkseqs:
            for crc in (True, False):
                cases = [None]
                nseg = (n + 6) // 7
                if tier != "quick" or n in (15, 50, 889):
                    # sub-block layout without loss: [(sub-block, seqno)] per segment
                    layout = []
                    sub = 0
                    seq = 0
                    for i in range(nseg):
                        seq += 1
                        layout.append((sub, seq))
                        if seq == blks[min(sub, len(blks) - 1)]:
                            sub += 1
                            seq = 0
                    final_sub = layout[-1][0]
                    # every single lost segment of a sub-block other than the final one (and not that sub-block's last
                    # segment, whose loss a server only notices by time-out)
                    for (sb, sq) in layout:
                        if sb < final_sub and sq < blks[min(sb, len(blks) - 1)]:
                            cases.append((sb, sq))
                        if len(cases) > (6 if tier == "quick" else 40):
                            break
                for lose in cases:
                    evals += 1
                    holder = {}

                    def mk(c, lose=lose):
                        holder["net"] = RefBlockNet(c, blks, crc=crc, lose_down=lose)
                        return holder["net"]
                    c = _client(mk)
                    try:
                        with c.open(0x2000, 0, "wb", size=n, block_transfer=True, request_crc_support=crc) as fp:
                            fp.write(payload)
                        ok = True
                        err = None
                    except Exception as e:
                        ok = False
                        err = repr(e)
                    net = holder["net"]
                    if ok and net.committed != payload:
                        failures.append({"len": n, "blksizes": blks, "crc": crc, "lost": lose,
                                         "what": "returned normally but server committed %r bytes" % (None if net.committed is None else len(net.committed))})
                    elif not ok:
                        # an undisturbed transfer, or one with a single repairable loss, must succeed
                        failures.append({"len": n, "blksizes": blks, "crc": crc, "lost": lose, "what": "failed: " + str(err)})
                    if len(failures) > 5:
                        break
    return {"kind": "bounded", "name": "C12 block download against a reference CiA 301 block server: commits exactly the payload, single non-final loss repaired",
            "bound": "%d payload lengths (segment/block boundaries) x %d block-size sequences x CRC on/off, single lost non-final segments for selected lengths" % (len(lengths), len(blkseqs)),
            "evaluations": evals, "failures": failures[:5]}


def block_upload(tier, seed):
    rng = random.Random(seed)
    failures = []
    evals = 0
    lengths = [1, 6, 7, 8, 14, 15, 30, 49, 50, 882, 883, 888, 889, 890, 896, 1000] + ([1777, 1778, 2667] if tier != "quick" else [])
    for n in lengths:
        value = bytes(rng.randrange(256) for _ in range(n))
        for crc, req in ((True, True), (False, False), (True, False), (False, True)):
            nseg = (n + 6) // 7
            losses = [None] + [(0, s) for s in sorted({1, 2, nseg // 2, nseg - 1, min(nseg, 127)} & set(range(1, min(nseg, 127) + 1)))]
            for lose in losses:
                evals += 1
                holder = {}

                def mk(c, lose=lose):
                    holder["net"] = RefBlockNet(c, [127], crc=crc, value=value, lose_up=lose)
                    return holder["net"]
                c = _client(mk)
                try:
                    with c.open(0x2000, 0, "rb", block_transfer=True, request_crc_support=req, buffering=0) as fp:
                        got = fp.read()
                    err = None
                except Exception as e:
                    got = None
                    err = repr(e)
                if got is not None and got != value:
                    failures.append({"len": n, "server_crc": crc, "client_crc": req, "lost": lose, "what": "returned %d bytes that differ from the server's %d" % (len(got), n)})
                elif got is None and lose is None:
                    failures.append({"len": n, "server_crc": crc, "client_crc": req, "lost": lose, "what": "undisturbed upload failed: " + str(err)})
                if len(failures) > 5:
                    break
    return {"kind": "bounded", "name": "C13 block upload against a reference CiA 301 block server: returns exactly the value, never different data",
            "bound": "%d value lengths (segment / 127-segment boundaries) x CRC on/off x {no loss, single lost segment at 4 positions}" % len(lengths),
            "evaluations": evals, "failures": failures[:5]}

"""C01/C02/C03/C07 end-to-end claims over whole transfers: bounded, on the real client and server, inline delivery."""
import random
import struct


def _pair():
    """remote node (client) and local node (server) with id 5, frames delivered inline; hooks to disturb responses"""
    import canopen
    from canopen import objectdictionary as od_

    od = od_.ObjectDictionary()
    types = {"INTEGER8": 2, "INTEGER16": 3, "INTEGER24": 0x10, "INTEGER32": 4, "INTEGER40": 0x12, "INTEGER48": 0x13, "INTEGER56": 0x14,
             "INTEGER64": 0x15, "UNSIGNED8": 5, "UNSIGNED16": 6, "UNSIGNED24": 0x16, "UNSIGNED32": 7, "UNSIGNED40": 0x18,
             "UNSIGNED48": 0x19, "UNSIGNED56": 0x1A, "UNSIGNED64": 0x1B, "BOOLEAN": 1, "REAL32": 8, "REAL64": 0x11,
             "VISIBLE_STRING": 9, "OCTET_STRING": 0xA, "UNICODE_STRING": 0xB, "DOMAIN": 0xF}
    index = 0x2000
    rec = od_.ODRecord("Group", 0x3000)
    sub = 1
    for name, code in types.items():
        v = od_.ODVariable(name, index, 0)
        v.data_type = code
        od.add_object(v)
        m = od_.ODVariable("m " + name, 0x3000, sub)
        m.data_type = code
        rec.add_member(m)
        index += 1
        sub += 1
    od.add_object(rec)

    class Net(canopen.Network):
        def __init__(self):
            super().__init__()
            self.peer = None
            self.sent = []
            self.disturb = None          # callable(frame_no, can_id, data) -> list of frames to deliver instead

        def send_message(self, can_id, data, remote=False):
            data = bytes(data)
            self.sent.append((can_id, data))
            frames = [(can_id, data)]
            if self.disturb is not None:
                frames = self.disturb(len(self.sent), can_id, data)
            for cid, d in frames:
                self.peer.notify(cid, bytearray(d), 0.0)
    a, b = Net(), Net()
    a.peer, b.peer = b, a
    remote = a.add_node(5, od)
    local = b.create_node(5, od)
    remote.sdo.RESPONSE_TIMEOUT = 0.02
    return a, b, remote, local, types


def _rng_values(rng, name, n):
    import math
    if name.startswith("INTEGER") or name.startswith("UNSIGNED"):
        bits = int(name[7:] if name.startswith("INTEGER") else name[8:])
        signed = name.startswith("INTEGER")
        lo, hi = (-(1 << (bits - 1)), (1 << (bits - 1)) - 1) if signed else (0, (1 << bits) - 1)
        vals = {lo, lo + 1, hi, hi - 1, 0, 1} | {(1 << k) - 1 for k in range(1, bits)} | {1 << k for k in range(bits - 1)}
        if signed:
            vals |= {-1, -2} | {-(1 << k) for k in range(bits)}
        vals = {v for v in vals if lo <= v <= hi}
        return sorted(vals) + [rng.randint(lo, hi) for _ in range(n)]
    if name == "BOOLEAN":
        return [True, False]
    if name == "REAL32":
        return [0.0, 1.5, -2.25, struct.unpack("<f", struct.pack("<f", 3.14159))[0], float("inf")]
    if name == "REAL64":
        return [0.0, 1.5, -2.25, math.pi, 1e300, 5e-324]
    if name == "VISIBLE_STRING":
        return ["", "a", "abcd", "abcde", "Hello World!", "x" * 7, "y" * 8, "z" * 50]
    if name == "UNICODE_STRING":
        return ["", "å", "ab", "abc", "中文 text"]
    return [bytes(rng.randrange(1, 256) for _ in range(k)) for k in (0, 1, 3, 4, 5, 6, 7, 8, 13, 14, 15, 21, 50, 200)]


def typed_roundtrip(tier, seed):
    rng = random.Random(seed)
    a, b, remote, local, types = _pair()
    failures = []
    evals = 0
    nrand = 3 if tier == "quick" else 60
    names = list(types)
    for k, name in enumerate(names):
        for v in _rng_values(rng, name, nrand):
            for how in ("index", "name", "member"):
                acc = {"index": lambda: remote.sdo[0x2000 + k], "name": lambda: remote.sdo[name],
                       "member": lambda: remote.sdo["Group.m " + name]}[how]
                idx, sub = (0x2000 + k, 0) if how != "member" else (0x3000, k + 1)
                evals += 1
                try:
                    acc().raw = v
                    back = acc().raw
                    stored = local.sdo[idx].data if how != "member" else local.sdo[idx][sub].data
                    want = remote.object_dictionary[0x2000 + k].encode_raw(v)
                except Exception as e:
                    failures.append({"type": name, "value": repr(v)[:40], "access": how, "what": "raised %r" % (e,)})
                    continue
                if isinstance(v, str) and v.endswith("\x00"):
                    continue
                if back != v or bytes(stored) != bytes(want):
                    failures.append({"type": name, "value": repr(v)[:40], "access": how, "read_back": repr(back)[:40],
                                     "stored": bytes(stored).hex()[:40], "encoding": bytes(want).hex()[:40]})
            if len(failures) > 5:
                break
    # whole-transfer claims over payload lengths and chunkings through the file-like interface (DOMAIN object)
    dom = 0x2000 + names.index("DOMAIN")
    lengths = range(0, 65) if tier != "quick" else list(range(0, 17)) + [20, 21, 22, 27, 28, 29, 63, 64]
    for n in lengths:
        payload = bytes(rng.randrange(256) for _ in range(n))
        for buffering in (0, 7, 16, 1024):
            for declared in (True, False):
                chunk = rng.choice([1, 2, 3, 5, 7, 8, 64])
                if buffering == 0 and declared and 1 <= n <= 4 and chunk < n:
                    continue        # known finding C01-expedited-in-pieces (unbuffered raw writes below the expedited size)
                evals += 1
                a.sent.clear()
                try:
                    with remote.sdo.open(dom, 0, "wb", buffering=buffering, size=(n if declared else None),
                                         force_segment=(n > 4 or not declared)) as fp:
                        pos = 0
                        while pos < n:
                            w = fp.write(payload[pos:pos + chunk])
                            if buffering == 0:
                                pos += w if w else 0
                                if not w:
                                    break
                            else:
                                pos += chunk
                    got = bytes(local.sdo[dom].data)
                    up = remote.sdo.upload(dom, 0)
                except Exception as e:
                    failures.append({"len": n, "buffering": buffering, "declared": declared, "chunk": chunk, "what": "raised %r" % (e,)})
                    continue
                if got != payload or up != payload:
                    failures.append({"len": n, "buffering": buffering, "declared": declared, "chunk": chunk,
                                     "server_has": got.hex()[:40], "upload": up.hex()[:40]})
                # every request frame is 8 bytes
                if any(len(d) != 8 for _, d in a.sent):
                    failures.append({"len": n, "what": "request frame not 8 bytes"})
        if len(failures) > 5:
            break
    return {"kind": "bounded", "name": "C03/C01/C02 typed values and payloads survive client -> bus -> server -> client (inline delivery)",
            "bound": "23 data types x boundary + %d random values x access by index/name/'Record.Member'; DOMAIN payload lengths %s x "
                     "buffering {0,7,16,1024} x size declared or not x random chunk size" % (nrand, "0..64" if tier != "quick" else "0..16 and selected up to 64"),
            "evaluations": evals, "failures": failures[:5]}


def disturbed_transfers(tier, seed):
    import canopen
    rng = random.Random(seed)
    failures = []
    evals = 0
    kinds = ["lost", "abort", "toggle", "cs", "mux", "dup", "stale"]
    lengths = [1, 4, 5, 7, 8, 14, 15, 22] if tier == "quick" else list(range(1, 30))
    for n in lengths:
        value = bytes(rng.randrange(256) for _ in range(n))
        for direction in ("up", "down"):
            nsteps = 1 + (0 if n <= 4 else (n + 6) // 7)
            for step in range(1, nsteps + 1):
                for kind in kinds:
                    if kind == "mux" and step != 1:
                        continue                     # only the initiate response carries a multiplexer
                    a, b, remote, local, types = _pair()
                    dom = 0x2000 + list(types).index("DOMAIN")
                    local.sdo[dom].raw = value if direction == "up" else b"old"
                    count = {"n": 0}

                    def disturb(frame_no, can_id, data, kind=kind, step=step, count=count):
                        # b's responses pass through here (b.send_message)
                        count["n"] += 1
                        if count["n"] != step:
                            return [(can_id, data)]
                        d = bytearray(data)
                        if kind == "lost":
                            return []
                        if kind == "abort":
                            return [(can_id, struct.pack("<BHBL", 0x80, dom, 0, 0x08000000))]
                        if kind == "toggle":
                            d[0] ^= 0x10
                        elif kind == "cs":
                            d[0] ^= 0xE0
                        elif kind == "mux":
                            d[1] ^= 0x01
                        elif kind == "dup":
                            return [(can_id, bytes(d)), (can_id, bytes(d))]
                        elif kind == "stale":
                            # a response left over from an earlier protocol step of another transfer
                            old = struct.pack("<BHBL", 0x41, dom, 0, 99) if step != 1 else bytes([0x00, 1, 2, 3, 4, 5, 6, 7])
                            return [(can_id, old), (can_id, bytes(d))]
                        return [(can_id, bytes(d))]
                    b.disturb = disturb
                    evals += 1
                    newval = bytes((x + 1) & 0xFF for x in value)
                    try:
                        if direction == "up":
                            got = remote.sdo.upload(dom, 0)
                            if got != value:
                                failures.append({"dir": direction, "len": n, "step": step, "kind": kind, "what": "success with different data %s" % got.hex()})
                        else:
                            remote.sdo.download(dom, 0, newval, force_segment=(n > 4))
                            if bytes(local.sdo[dom].data) != newval:
                                failures.append({"dir": direction, "len": n, "step": step, "kind": kind, "what": "success but server holds %s" % bytes(local.sdo[dom].data).hex()})
                    except (canopen.SdoCommunicationError, canopen.SdoAbortedError):
                        pass
                    except Exception as e:
                        failures.append({"dir": direction, "len": n, "step": step, "kind": kind, "what": "raised %r" % (e,)})
                    # the next, undisturbed transfer on the same client and server completes correctly
                    b.disturb = None
                    try:
                        local.sdo[dom].raw = value
                        if remote.sdo.upload(dom, 0) != value:
                            failures.append({"dir": direction, "len": n, "step": step, "kind": kind, "what": "following upload wrong"})
                        remote.sdo.download(dom, 0, newval, force_segment=(n > 4))
                        if bytes(local.sdo[dom].data) != newval:
                            failures.append({"dir": direction, "len": n, "step": step, "kind": kind, "what": "following download wrong"})
                    except Exception as e:
                        failures.append({"dir": direction, "len": n, "step": step, "kind": kind, "what": "following transfer raised %r" % (e,)})
                    if len(failures) > 5:
                        break
    return {"kind": "bounded", "name": "C07 one disturbance per transfer: correct data or an SDO error, and the next transfer completes",
            "bound": "%d payload lengths x upload/download x every response step x {lost, abort, wrong toggle, wrong cs, wrong mux, duplicated, stale}" % len(lengths),
            "evaluations": evals, "failures": failures[:5]}

"""Bounded stand-ins: the same kind of contract evaluated natively on the real code over an enumerated input family
with a stated bound.  Labelled `bounded`, reported under coverage.bounded, never counted as discharged."""

"""C04 parts outside the engine (CPython codecs / IEEE 754): bounded checks on the real encode_raw/decode_raw."""
import math
import struct


def strings_and_reals(tier, seed):
    from canopen import objectdictionary as od
    failures = []
    evals = 0

    def var(t):
        v = od.ODVariable("v", 0x2000, 0)
        v.data_type = t
        return v
    u = var(od.UNICODE_STRING)
    for cp in range(1, 0x10000):
        if 0xD800 <= cp <= 0xDFFF:
            continue
        c = chr(cp)
        for s in (c, c + "ab", "a" + c + "b"):
            evals += 1
            raw = u.encode_raw(s)
            if raw != s.encode("utf_16_le") or u.decode_raw(raw) != s:
                failures.append({"type": "UNICODE_STRING", "text": repr(s), "raw": raw.hex(), "decoded": repr(u.decode_raw(raw))})
                break
        if len(failures) > 3:
            break
    a = var(od.VISIBLE_STRING)
    for cp in range(1, 128):
        for s in (chr(cp), chr(cp) + "x", "x" + chr(cp) + "y"):
            evals += 1
            raw = a.encode_raw(s)
            if raw != s.encode("ascii") or a.decode_raw(raw) != s:
                failures.append({"type": "VISIBLE_STRING", "text": repr(s), "raw": raw.hex()})
    specials = [0.0, -0.0, 1.0, -1.0, math.inf, -math.inf, 1e-45, 5e-324, 3.4028234663852886e38, 1.7976931348623157e308,
                1.17549435e-38, 2.2250738585072014e-308, 0.1, math.pi]
    for t, fmt, n in ((od.REAL32, "<f", 4), (od.REAL64, "<d", 8)):
        v = var(t)
        for x in specials:
            try:
                want = struct.pack(fmt, x)
            except OverflowError:
                continue
            evals += 1
            raw = v.encode_raw(struct.unpack(fmt, want)[0])
            if raw != want or struct.pack(fmt, v.decode_raw(raw)) != want or len(raw) != n:
                failures.append({"type": t, "value": repr(x), "raw": raw.hex(), "want": want.hex()})
        # every exponent pattern with a few mantissas: bytes -> value -> bytes
        for e in range(0, 1 << (8 if n == 4 else 11), 1 if tier != "quick" or n == 4 else 7):
            for mant in (0, 1, (1 << (22 if n == 4 else 51))):
                for sign in (0, 1):
                    bits = (sign << (n * 8 - 1)) | (e << (23 if n == 4 else 52)) | mant
                    pat = bits.to_bytes(n, "little")
                    val = v.decode_raw(pat)
                    evals += 1
                    if val != val:
                        continue                       # NaN payloads are not required to survive
                    if v.encode_raw(val) != pat:
                        failures.append({"type": t, "pattern": pat.hex(), "value": repr(val)})
    return {"kind": "bounded", "name": "C04 text and IEEE 754: VISIBLE/UNICODE strings and REAL32/64 round-trip exactly",
            "bound": "every BMP code point in first/middle position (3 strings each), every 7-bit ASCII character, "
                     "REAL32/64 specials (subnormals, infinities, -0.0, limits) and every exponent with 3 mantissas x 2 signs",
            "evaluations": evals, "failures": failures[:5]}

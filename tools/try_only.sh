#!/bin/sh
# tools/try_only.sh <patch file | seeded-id> <prop> <contract-id-substring> : apply a patch to /repo, run one contract, undo.
pf="$1"; [ -f "$pf" ] || pf="/verif/seeded/$1/patch.diff"
cd /verif
git -C /repo diff --quiet || { echo "/repo has uncommitted changes"; exit 9; }
git -C /repo apply "$pf" || { echo "patch does not apply"; exit 9; }
rm -rf .scratch/evidence.bak; cp -r evidence .scratch/evidence.bak
trap 'git -C /repo checkout -- .; rm -rf evidence; mv .scratch/evidence.bak evidence' EXIT INT TERM
./check "$2" --only "$3" > ".scratch/only.out" 2>&1; rc=$?
echo "== $1 on $2/$3: exit=$rc"; grep -E '^(VIOLATION|UNDECIDED|CHECKER-ERROR|  obligation)' ".scratch/only.out" | cut -c1-260 | head -12

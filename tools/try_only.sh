#!/bin/sh
# tools/try_only.sh <patch file | seeded-id> <prop> [<contract-id-substring>] : apply a patch to a scratch worktree of /repo,
# run one property (or one contract of it) against it, remove the worktree.  /repo and evidence/ are not touched.
pf="$1"; [ -f "$pf" ] || pf="/verif/seeded/$1/patch.diff"
cd /verif
WT="/tmp/try-wt-$$"; OUT="/tmp/try-out-$$"
git -C /repo worktree add --detach "$WT" HEAD >/dev/null 2>&1 || { echo "cannot create worktree"; exit 9; }
trap 'git -C /repo worktree remove --force "$WT" >/dev/null 2>&1; rm -rf "$WT" "$OUT"' EXIT INT TERM
git -C "$WT" apply "$pf" || { echo "patch does not apply"; exit 9; }
if [ -n "$3" ]; then only="--only $3"; else only=""; fi
PYVC_REPO="$WT" PYVC_OUT="$OUT" ./check "$2" $only > ".scratch/only_$$.out" 2>&1; rc=$?
echo "== $1 on $2/$3: exit=$rc"; grep -E '^(VIOLATION|UNDECIDED|CHECKER-ERROR|  obligation)' ".scratch/only_$$.out" | cut -c1-260 | head -12
rm -f ".scratch/only_$$.out"

#!/usr/bin/env python3
"""Differential self-test of the verifier's trusted base T1/T2 (the pyvc interpreter, the BV128 encoding of Python ints,
the models of builtins / struct / bytes / list / dict): random small Python functions from a grammar over the
constructs the contracted canopen code uses are executed SYMBOLICALLY (all paths, inputs symbolic), every path's
condition is solved for a concrete input, and CPython runs the same source on that input: the symbolic result evaluated
under the model must equal CPython's result (value, or exception type).  A path whose arithmetic the engine flags as
inexact is skipped (the engine reports those as undecided, never as proved).

    tools/selftest.py [N programs] [seed]        exit 0: no disagreement, 1: disagreement (printed with the program)
"""
import os
import random
import sys
import time
import struct
import importlib

VERIF = os.path.dirname(os.path.dirname(os.path.abspath(__file__)))
sys.path.insert(0, VERIF)
import z3  # noqa
from pyvc.loader import setup_paths
setup_paths()
import logging
logging.disable(logging.CRITICAL)
from pyvc import engine, values as V, interp as I
from pyvc.context import Ctx, Stats, model_to_oracle, PyRaise
from pyvc.engine import Contract
from pyvc.worlds import Call
from pyvc.values import SInt, SBool, SBytes, LBytes, SObj, PathAbort, Unsupported


# ------------------------------------------------------------------------------------------------ program generator
class Gen:
    def __init__(self, rng):
        self.r = rng
        self.ints = ["x", "y"]
        self.nb = rng.choice((3, 4, 8))
        self.tmp = 0

    def const(self):
        return str(self.r.choice((0, 1, 2, 3, 7, 8, 0x10, 0x7F, 0x80, 0xFF, 0x100, 0xFFFF, 0x10000, 0x7FFFFFFF, 0xFFFFFFFF,
                                  -1, -2, -128, self.r.randrange(-1000, 1000))))

    def iexpr(self, d=0):
        r = self.r
        if d > 2 or r.random() < 0.25:
            return r.choice(self.ints + [self.const()])
        k = r.randrange(22)
        a, b = self.iexpr(d + 1), self.iexpr(d + 1)
        if k == 0: return "(%s + %s)" % (a, b)
        if k == 1: return "(%s - %s)" % (a, b)
        if k == 2: return "(%s * %s)" % (a, r.choice(("2", "3", "7", "8", "-1", "256", "65536")))
        if k == 3: return "(%s & %s)" % (a, r.choice(("0xFF", "0x7F", "0x0F", "0xFFFF", "0x80", b)))
        if k == 4: return "(%s | %s)" % (a, b)
        if k == 5: return "(%s ^ %s)" % (a, b)
        if k == 6: return "((%s & 0xFFFFFFFF) << %d)" % (a, r.randrange(0, 33))
        if k == 7: return "(%s >> %d)" % (a, r.randrange(0, 40))
        if k == 8: return "(%s // %s)" % (a, r.choice(("2", "7", "8", "256", "-3")))
        if k == 9: return "(%s %% %s)" % (a, r.choice(("2", "7", "8", "256", "-5")))
        if k == 10: return "(-%s)" % a
        if k == 11: return "(~%s)" % a
        if k == 12: return "abs(%s)" % a
        if k == 13: return "min(%s, %s)" % (a, b)
        if k == 14: return "max(%s, %s)" % (a, b)
        if k == 15: return "(%s if %s else %s)" % (a, self.cond(d + 1), b)
        if k == 16: return "b[%d]" % r.randrange(self.nb)
        if k == 17: return "len(b[%d:%d])" % (r.randrange(self.nb + 1), r.randrange(self.nb + 2))
        if k == 18:
            lo = r.randrange(self.nb); hi = r.randrange(lo, self.nb + 1)
            return "int.from_bytes(b[%d:%d], %r%s)" % (lo, hi, r.choice(("little", "big")), r.choice(("", ", signed=True")))
        if k == 19:
            fmt = r.choice(("<H", "<h", "<B", "<b", "<I", "<i", "<L", "<q"))
            n = struct.calcsize(fmt)
            if n <= self.nb:
                return "struct.unpack_from(%r, b, %d)[0]" % (fmt, r.randrange(self.nb - n + 1))
            return a
        if k == 20: return "int(%s)" % self.cond(d + 1)
        return "(b[(%s) %% %d])" % (a, self.nb)

    def cond(self, d=0):
        r = self.r
        k = r.randrange(9)
        a, b = self.iexpr(d + 1), self.iexpr(d + 1)
        if k < 5: return "(%s %s %s)" % (a, r.choice(("<", "<=", "==", "!=", ">", ">=")), b)
        if d > 2: return "(%s == 0)" % a
        if k == 5: return "(%s and %s)" % (self.cond(d + 1), self.cond(d + 1))
        if k == 6: return "(%s or %s)" % (self.cond(d + 1), self.cond(d + 1))
        if k == 7: return "(not %s)" % self.cond(d + 1)
        return "bool(%s & 1)" % a

    def bexpr(self, d=0):
        r = self.r
        k = r.randrange(9)
        if k == 0 or d > 1: return "b"
        if k == 1: return "b[%d:%d]" % (r.randrange(self.nb), r.randrange(self.nb + 1))
        if k == 2: return "bytes([%s & 0xFF, %s & 0xFF])" % (self.iexpr(1), self.iexpr(1))
        if k == 3: return "struct.pack(%r, %s & 0xFFFF)" % (r.choice(("<H", "<I", "<L")), self.iexpr(1))
        if k == 4: return "struct.pack('<BHB', %s & 0xFF, %s & 0xFFFF, %s & 0xFF)" % (self.iexpr(1), self.iexpr(1), self.iexpr(1))
        if k == 5: return "(%s & 0xFFFFFFFF).to_bytes(4, %r)" % (self.iexpr(1), r.choice(("little", "big")))
        if k == 6: return "(%s + %s)" % (self.bexpr(d + 1), self.bexpr(d + 1))
        if k == 7: return "bytes(%s).ljust(%d, b'\\x00')" % (self.bexpr(d + 1), r.randrange(1, 9))
        return "bytes(bytearray(%s))" % self.bexpr(d + 1)

    def fresh(self):
        self.tmp += 1
        v = "t%d" % self.tmp
        return v

    def stmts(self, ind, depth):
        r = self.r
        out = []
        for _ in range(r.randrange(1, 4)):
            k = r.randrange(18)
            pad = "    " * ind
            if k in (12, 13):
                k = 4
            elif k > 13:
                k = 12
            if k < 4:
                v = self.fresh()
                out.append("%s%s = %s" % (pad, v, self.iexpr()))
                self.ints.append(v)
            elif k == 4 and depth < 2:
                out.append("%sif %s:" % (pad, self.cond()))
                keep = list(self.ints)
                out += self.stmts(ind + 1, depth + 1)
                self.ints = list(keep)
                if r.random() < 0.6:
                    out.append("%selse:" % pad)
                    out += self.stmts(ind + 1, depth + 1)
                    self.ints = list(keep)
            elif k == 5 and depth < 2:
                v = self.fresh()
                out.append("%s%s = 0" % (pad, v))
                out.append("%sfor i%d in range(%d):" % (pad, ind, r.randrange(1, 4)))
                out.append("%s    %s = %s + (%s & 0xFF) + i%d" % (pad, v, v, self.iexpr(1), ind))
                self.ints.append(v)
            elif k == 6:
                out.append("%sacc.append(%s)" % (pad, self.iexpr()))
            elif k == 7:
                out.append("%sout = out + %s" % (pad, self.bexpr()))
            elif k == 8:
                out.append("%sd[%s & 3] = %s" % (pad, self.iexpr(1), self.iexpr(1)))
            elif k == 9:
                v = self.fresh()
                out.append("%s%s = d.get(%s & 3, %s)" % (pad, v, self.iexpr(1), self.const()))
                self.ints.append(v)
            elif k == 10:
                # risky operations inside try/except: the exception type is part of the result
                v = self.fresh()
                risky = r.choice(("struct.pack('<H', %s)[0]" % self.iexpr(1), "b[%s]" % self.iexpr(1),
                                  "(%s).to_bytes(2, 'little')[1]" % self.iexpr(1), "(%s) // (%s)" % (self.iexpr(1), self.iexpr(1)),
                                  "(%s) %% (%s)" % (self.iexpr(1), self.iexpr(1)), "struct.pack('<b', %s)[0]" % self.iexpr(1),
                                  "bytes([%s])[0]" % self.iexpr(1), "1 << (%s)" % ("(%s) %% 70 - 3" % self.iexpr(1)),
                                  "acc[%s]" % self.iexpr(1), "struct.unpack('<H', b[%d:%d])[0]" % (r.randrange(self.nb), r.randrange(self.nb + 1))))
                out.append("%stry:" % pad)
                out.append("%s    %s = %s" % (pad, v, risky))
                out.append("%sexcept (ValueError, IndexError, struct.error, OverflowError, ZeroDivisionError) as e:" % pad)
                out.append("%s    %s = -7" % (pad, v))
                out.append("%s    acc.append(type(e).__name__)" % pad)
                self.ints.append(v)
            elif k == 11:
                v = self.fresh()
                out.append("%sba = bytearray(%s)" % (pad, self.bexpr(1)))
                out.append("%sif len(ba) > 0:" % pad)
                out.append("%s    ba[0] = %s & 0xFF" % (pad, self.iexpr(1)))
                out.append("%sout = out + bytes(ba)" % pad)
            else:
                j = r.randrange(9)
                v = self.fresh()
                if j == 0:
                    out.append("%sba = bytearray(8)" % pad)
                    out.append("%sstruct.pack_into('<BHB', ba, %d, %s & 0xFF, %s & 0xFFFF, %s & 0xFF)" % (pad, r.randrange(0, 5), self.iexpr(1), self.iexpr(1), self.iexpr(1)))
                    out.append("%sba[%d:%d] = %s" % (pad, r.randrange(0, 4), r.randrange(4, 8), "b[0:2]"))
                    out.append("%sdel ba[:%d]" % (pad, r.randrange(0, 3)))
                    out.append("%sba.extend(b[1:3])" % pad)
                    out.append("%sout = out + bytes(ba)" % pad)
                elif j == 1:
                    out.append("%sacc.insert(0, %s)" % (pad, self.iexpr(1)))
                    out.append("%s%s = acc[-1] if isinstance(acc[-1], int) else len(acc)" % (pad, v))
                    self.ints.append(v)
                elif j == 2:
                    out.append("%s%s, q%s = divmod(%s, %s)" % (pad, v, v, self.iexpr(1), r.choice(("7", "8", "256", "-3"))))
                    self.ints.append(v)
                    self.ints.append("q" + v)
                elif j == 3:
                    out.append("%s%s, q%s = struct.unpack('<HB', bytes(b[0:3]))" % (pad, v, v))
                    self.ints.append(v)
                    self.ints.append("q" + v)
                elif j == 4:
                    out.append("%s%s = abs(%s) & 0xFFFFFF" % (pad, v, self.iexpr(1)))
                    out.append("%sn%s = 0" % (pad, v))
                    out.append("%swhile %s > 0 and n%s < 4:" % (pad, v, v))
                    out.append("%s    %s >>= 4" % (pad, v))
                    out.append("%s    n%s += 1" % (pad, v))
                    self.ints.append(v)
                    self.ints.append("n" + v)
                elif j == 5:
                    out.append("%s%s = %s" % (pad, v, self.iexpr(1)))
                    out.append("%s%s %s %s" % (pad, v, r.choice(("+=", "-=", "^=", "|=", "&=")), self.iexpr(1)))
                    out.append("%s%s <<= %d" % (pad, v, r.randrange(0, 9)))
                    self.ints.append(v)
                elif j == 6:
                    out.append("%sout = out + memoryview(b)[%d:%d].tobytes()" % (pad, r.randrange(0, 3), r.randrange(2, 5)))
                elif j == 7:
                    out.append("%s%s = int((%s & 0xFF) in acc) + int((%s & 3) in d)" % (pad, v, self.iexpr(1), self.iexpr(1)))
                    self.ints.append(v)
                else:
                    out.append("%sif acc:" % pad)
                    out.append("%s    acc.pop()" % pad)
                    out.append("%s%s = len(acc) * 3 + len(out)" % (pad, v))
                    self.ints.append(v)
        return out

    def class_program(self, name):
        """objects: fields, a property, methods calling each other, class constants, a subclass with super(), a custom exception"""
        r = self.r
        self.ints = ["self.a", "self._t", "v", "self.LIMIT"]
        e1, e2, e3, e4 = self.iexpr(1), self.iexpr(1), self.iexpr(1), self.iexpr(1)
        c1, c2 = self.cond(1), self.cond(1)
        self.ints = ["x", "y"]
        calls = []
        for _ in range(r.randrange(2, 5)):
            calls.append(r.choice(("r.append(k.step(%s))", "r.append(k.check(%s))", "r.append(k.dbl + (%s))", "k.a = %s",
                                   "r.append(k.both(%s))")) % self.iexpr(1))
        body = "\n        ".join(calls)
        return """
class E_%(n)s(Exception):
    def __init__(self, code):
        super().__init__(code)
        self.code = code


class B_%(n)s:
    LIMIT = %(lim)d

    def __init__(self, a):
        self.a = a
        self._t = 0
        self.buf = bytearray()

    @property
    def dbl(self):
        return self.a * 2

    def step(self, v):
        if %(c1)s:
            self._t ^= 0x10
            self.buf.extend(bytes([v & 0xFF]))
        else:
            self.a = %(e1)s
        return self._t

    def check(self, v):
        if %(c2)s:
            raise E_%(n)s((%(e2)s) & 0xFFFF)
        return self.dbl - (%(e3)s)

    def both(self, v):
        return self.step(v) + self.check(v + 1)


class K_%(n)s(B_%(n)s):
    LIMIT = %(lim2)d

    def step(self, v):
        t = super().step(v ^ 1)
        self.a = self.a + (%(e4)s & 0xFF)
        return t + 1


def %(n)s(x, y, b):
    k = K_%(n)s(x) if y & 1 else B_%(n)s(x)
    r = []
    try:
        %(body)s
    except E_%(n)s as e:
        r.append(-e.code - 1)
    return (tuple(r), k.a, k._t, bytes(k.buf), k.dbl)
""" % {"n": name, "lim": r.randrange(0, 300), "lim2": r.randrange(0, 300), "c1": c1, "c2": c2, "e1": e1, "e2": e2, "e3": e3,
       "e4": e4, "body": body}, self.nb

    def buffer_program(self, name):
        """the buffer idioms of the SDO server / block streams on a byte string of symbolic length: bytearray copies,
        extend, del of a prefix, [:7] slices, symbolic slice bounds, length comparisons, segment loops"""
        r = self.r
        lines = ["def %s(x, y, b):" % name, "    buf = bytearray(b)", "    out = bytearray()", "    acc = []", "    n = len(buf)"]
        k1, k2 = r.randrange(0, 9), r.randrange(0, 9)
        ops = [
            ["    seg = buf[:7]", "    del buf[:7]", "    out.extend(seg)", "    acc.append(len(seg))", "    acc.append(len(buf))"],
            ["    k = abs(x) %% %d" % (k1 + 1), "    out.extend(buf[k:k + %d])" % k2, "    acc.append(len(out))"],
            ["    if len(buf) > %d:" % k1, "        del buf[:%d]" % min(k1, 3), "        acc.append(buf[0])", "    else:", "        acc.append(-1)"],
            ["    last = 8 - ((y >> 1) & 7)", "    out.extend(bytes(b)[1:last])", "    acc.append(last)"],
            ["    if not buf:", "        acc.append(0)", "    else:", "        acc.append(buf[len(buf) - 1])"],
            ["    size = len(buf)", "    if 0 < size <= 4:", "        acc.append((4 - size) << 2)", "    else:", "        acc.append(size & 0xFF)"],
            ["    j = 0", "    while j < 2 and len(buf) > 0:", "        out.extend(buf[:%d])" % (k2 % 4 + 1), "        del buf[:%d]" % (k2 % 4 + 1), "        j += 1"],
            ["    buf.extend(b[%d:%d])" % (k1 % 4, k1 % 4 + k2 % 5), "    acc.append(len(buf) - n)"],
            ["    m = min(len(buf), 7)", "    req = bytearray(8)", "    req[0] = (7 - m) << 1", "    req[1:m + 1] = buf[0:m]", "    out.extend(req)"],
            ["    if bytes(buf[:2]) == b[:2]:", "        acc.append(1)", "    else:", "        acc.append(2)"],
            ["    acc.append(int.from_bytes(bytes(buf[:%d]), 'little'))" % (k1 % 5)],
        ]
        for op in r.sample(ops, r.randrange(2, 6)):
            lines += op
        lines.append("    return (tuple(acc), bytes(out), bytes(buf), n)")
        return "\n".join(lines) + "\n", self.nb

    def program(self, name):
        body = self.stmts(1, 0)
        ret = "    return (%s, tuple(acc), out, (d.get(0, -1), d.get(1, -1), d.get(2, -1), d.get(3, -1)))" % ", ".join(self.r.sample(self.ints, min(3, len(self.ints))))
        return "def %s(x, y, b):\n    acc = []\n    out = b''\n    d = {}\n%s\n%s\n" % (name, "\n".join(body), ret), self.nb


# ------------------------------------------------------------------------------------------------ evaluation under a model
def conc(v, m):
    """engine value -> python value under model m"""
    if isinstance(v, bool) or v is None or isinstance(v, (str, float)):
        return v
    if isinstance(v, int):
        return v
    if isinstance(v, SBool):
        return z3.is_true(m.eval(v.t, model_completion=True))
    if isinstance(v, SInt):
        return m.eval(v.t, model_completion=True).as_signed_long()
    if isinstance(v, SBytes):
        return bytes((x if isinstance(x, int) else m.eval(x, model_completion=True).as_long()) for x in v.items)
    if isinstance(v, LBytes):
        n = conc(v.n, m)
        return bytes(m.eval(v.at(i), model_completion=True).as_long() for i in range(n))
    if isinstance(v, tuple):
        return tuple(conc(x, m) for x in v)
    if isinstance(v, I.SList):
        return [conc(x, m) for x in v.items]
    raise Unsupported("selftest: cannot concretise %r" % (type(v).__name__,))


class Prog(Contract):
    target = "env:selftest"
    xcheck = False
    ensures = {}
    nb = 4
    fname = "f"
    module = ""
    lo, hi = -(1 << 40), (1 << 40)

    symlen = False

    def setup(self, w, case):
        x = w.int("x", self.lo, self.hi)
        y = w.int("y", -300, 70000)
        b = w.lbytes("b", self.nb, self.nb + 3) if self.symlen else w.bytes("b", self.nb)
        return Call(("func", self.module, self.fname), [x, y, b])


def main():
    n = int(sys.argv[1]) if len(sys.argv) > 1 else 200
    seed = int(sys.argv[2]) if len(sys.argv) > 2 else 1
    rng = random.Random(seed)
    modname = "_selftest_gen_%d" % os.getpid()
    path = os.path.join(VERIF, "env", modname + ".py")
    progs = []
    src = ["import struct\n"]
    for i in range(n):
        g = Gen(rng)
        text, nb = (g.class_program("f%d" % i) if i % 4 == 3 else
                    g.buffer_program("f%d" % i) if i % 6 == 2 else g.program("f%d" % i))
        progs.append((text, nb))
        src.append(text)
    with open(path, "w") as f:
        f.write("\n".join(src))
    stats = {"programs": 0, "paths": 0, "compared": 0, "inexact": 0, "unsupported": 0, "skipped_unknown": 0}
    bad = []
    t0 = time.time()
    try:
        mod = importlib.import_module("env." + modname)
        for i, (text, nb) in enumerate(progs):
            c = Prog()
            c.nb, c.fname, c.module = nb, "f%d" % i, "env." + modname
            c.symlen = (i % 3 == 2)                  # every third program gets a byte string of symbolic length nb..nb+3
            if i % 5 == 4:
                c.lo, c.hi = -(1 << 63), (1 << 64) - 1
            native = getattr(mod, "f%d" % i)
            work = [[]]
            npaths = 0
            st = Stats()
            st.deadline = time.time() + 60
            stats["programs"] += 1
            try:
                while work and npaths < 40:
                    dec = work.pop()
                    ctx = Ctx("sym", decisions=dec, stats=st)
                    try:
                        s = engine.run_once(c, None, ctx)
                    except PathAbort:
                        work.extend(ctx.new_alternatives)
                        continue
                    work.extend(ctx.new_alternatives)
                    npaths += 1
                    stats["paths"] += 1
                    sv = z3.Solver()
                    sv.set("timeout", 10000)
                    for p in ctx.pc:
                        sv.add(p)
                    if ctx.exact:
                        # only inputs on which the arithmetic model is exact are claimed by the engine
                        sv.add(z3.And(*ctx.exact))
                    r = sv.check()
                    if r != z3.sat:
                        stats["inexact" if r == z3.unsat else "skipped_unknown"] += 1
                        continue
                    m = sv.model()
                    inp = model_to_oracle(m, ctx.symbols)
                    x, y, b = inp.get("x", 0), inp.get("y", 0), bytes(inp.get("b", bytes(nb)))
                    try:
                        want = ("return", native(x, y, b))
                    except Exception as e:       # noqa
                        want = ("raise", type(e).__name__)
                    if s.exc is not None:
                        got = ("raise", s.exc.cls.__name__ if isinstance(s.exc, SObj) else type(s.exc).__name__)
                    else:
                        got = ("return", conc(s.ret, m))
                    stats["compared"] += 1
                    if got != want:
                        bad.append({"program": text, "input": (x, y, b), "engine": got, "cpython": want, "path": dec})
                        break
            except Unsupported as e:
                stats["unsupported"] += 1
                stats.setdefault("unsupported_why", {})
                k = str(e)[:70]
                stats["unsupported_why"][k] = stats["unsupported_why"].get(k, 0) + 1
    finally:
        try:
            os.unlink(path)
        except OSError:
            pass
    stats["wall_s"] = round(time.time() - t0, 1)
    print(stats)
    for b in bad[:5]:
        print("DISAGREEMENT\n%s\ninput=%r\nengine =%r\ncpython=%r\n" % (b["program"], b["input"], b["engine"], b["cpython"]))
    print("selftest: %d programs, %d paths compared, %d disagreements" % (stats["programs"], stats["compared"], len(bad)))
    return 1 if bad else 0


if __name__ == "__main__":
    sys.exit(main())

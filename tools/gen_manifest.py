#!/usr/bin/env python3
"""Regenerates MANIFEST.json from props.py (claimed properties) and the reasons below (unclaimed ones)."""
import json, sys, os
sys.path.insert(0, "/verif")
import props

ALL = [json.loads(l)["id"] for l in open("/verif/properties.jsonl")]
NOT_YET = "check not built yet in this session (work in progress; plan in DESIGN.md §7)"
NA_REASON = {}


def main():
    checks = []
    for pid in ALL:
        if pid not in props.PROPS:
            continue
        P = props.PROPS[pid]
        text = P.get("level_text") or ("Every listed obligation (post-conditions, frames, exactness of the arithmetic model, "
               "coverage guards) is generated from /repo's current source and discharged by z3 (cvc5 for unknowns) for all inputs "
               "of the contract's domain with no bound; whole transfers and histories are inductive loop invariants (loop-init / "
               "loop-step / loop-variant obligations) and callee contracts (call-pre obligations) over the same real code; bounded "
               "stand-ins are reported separately and never counted as proved.")
        note = "trusted: pyvc interpreter + builtin/library models (cross-checked against CPython every run), z3/cvc5, spec transcriptions; " \
               "assumed contracts: " + ("; ".join(P["assumed"]) or "none") + ". Not decided: " + ("; ".join(P["not_decided"]) or "nothing beyond the trusted base")
        checks.append({"property_id": pid, "quick_cmd": "./check %s --tier quick" % pid,
                       "thorough_cmd": "./check %s --tier thorough" % pid, "evidence_file": "evidence/%s.json" % pid,
                       "replay_cmd_template": "./check %s --replay {path}" % pid, "engine": "pyvc",
                       "level_claimed": {"category": "proof", "text": text, "design_ref": "DESIGN.md §7 " + pid},
                       "level_note": note,
                       "technique": "contract-based deductive verification: sidecar contracts (pre-state families, post-conditions, frame conditions, loop invariants, callee contracts) on the real functions, verification conditions generated from /repo's AST on every run, discharged by z3 (bit-blasting and int-blasting) and cvc5; counter-models replayed on the real code under CPython"})
    m = {"version": 1, "setup_cmd": "./setup.sh",
         "hooks": {"guard": "CANOPEN_VERIF", "enable": "none needed: contracts are sidecars in /verif; /repo carries no hooks",
                   "baseline_off_cmd": "cd /repo && /venv/bin/python -m pytest -ra -q -p no:cacheprovider --timeout=900 --continue-on-collection-errors",
                   "source_commits": [], "add_only": True},
         "engines": [{"name": "pyvc", "path": "pyvc/", "serves_properties": [c["property_id"] for c in checks],
                      "kind_free_text": "own verification-condition generator: symbolic execution of the real ASTs (re-read from /repo each run) over BV128/array terms, sidecar contracts, z3 + cvc5"}],
         "checks": checks,
         "not_applicable": [{"property_id": p, "reason": NA_REASON.get(p, NOT_YET)} for p in ALL if p not in props.PROPS],
         "notes": "Contract-based deductive verification of the real code; see DESIGN.md. Exit codes: 0 held, 1 VIOLATION, 2 UNDECIDED, 3 checker error."}
    json.dump(m, open("/verif/MANIFEST.json", "w"), indent=1)
    print("claimed:", [c["property_id"] for c in checks])

main()

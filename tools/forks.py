#!/usr/bin/env python3
"""where do the path forks of a contract case come from?  tools/forks.py <module> <Contract> <case>"""
import sys, importlib
sys.path.insert(0, "/verif")
from pyvc.loader import setup_paths
setup_paths()
import logging; logging.disable(logging.CRITICAL)
importlib.import_module(sys.argv[1])
from pyvc import engine
from pyvc.context import Stats
c = engine.REGISTRY[sys.argv[2]]
c.max_paths = int(sys.argv[4]) if len(sys.argv) > 4 else 300
orig = Stats.__init__
sites = {}
def init(self):
    orig(self); self.fork_sites = sites
Stats.__init__ = init
r = engine.run_case(sys.argv[2], sys.argv[3])
print(r["paths"], r["undecided"])
for k, v in sorted(sites.items(), key=lambda kv: -kv[1])[:25]:
    print(v, k)

#!/bin/sh
# run every claimed check on the current tree (quick tier), print one summary line each
cd /verif
for p in $(python3 -c "import json;print(' '.join(c['property_id'] for c in json.load(open('MANIFEST.json'))['checks']))"); do
  ./check $p --tier ${1:-quick} > .scratch/all_$p.out 2>&1; rc=$?
  echo "$p rc=$rc $(tail -1 .scratch/all_$p.out | cut -c1-200)"
done

#!/usr/bin/env python3
"""Confirm a seeded change myself in a scratch worktree of /repo HEAD: patch applies, the 164 tests still pass,
the demonstration fails with the change and passes without it.  Usage: verify_seeded.py SRC_DIR DEST_ID"""
import json, os, shutil, subprocess, sys, tempfile

def sh(cmd, cwd, timeout=600):
    p = subprocess.run(cmd, shell=True, cwd=cwd, capture_output=True, text=True, timeout=timeout)
    return p.returncode, (p.stdout + p.stderr)

def main():
    src, dest_id = sys.argv[1], sys.argv[2]
    wt = tempfile.mkdtemp(prefix="wtv-", dir="/tmp")
    os.rmdir(wt)
    out = {"id": dest_id}
    try:
        rc, o = sh("git -C /repo worktree add -q --detach %s HEAD" % wt, "/")
        assert rc == 0, o
        head = sh("git rev-parse --short HEAD", wt)[1].strip()
        demo = os.path.join(src, "demo.py")
        meta = json.load(open(os.path.join(src, "meta.json")))
        shutil.copy(demo, os.path.join(wt, "_demo.py"))
        is_pytest = "pytest" in meta.get("demo_cmd", "")
        democmd = "/venv/bin/python -m pytest -q -p no:cacheprovider _demo.py" if is_pytest else "/venv/bin/python _demo.py"
        rc0, o0 = sh(democmd, wt)
        out["demo_without_change"] = rc0
        rc, o = sh("git apply %s" % os.path.join(src, "patch.diff"), wt)
        out["applies"] = rc == 0
        if rc != 0:
            out["apply_err"] = o[-500:]
        else:
            rc, o = sh("/venv/bin/python -m pytest -q -p no:cacheprovider --ignore=_demo.py test", wt)
            out["tests_tail"] = o.strip().splitlines()[-1] if o.strip() else ""
            out["tests_pass"] = rc == 0 and "164 passed" in o
            rc1, o1 = sh(democmd, wt)
            out["demo_with_change"] = rc1
            out["demo_with_change_tail"] = o1.strip().splitlines()[-3:]
        out["ok"] = bool(out.get("applies") and out.get("tests_pass") and rc0 == 0 and out.get("demo_with_change", 0) != 0)
        out["verified_at_repo_head"] = head
        if out["ok"]:
            d = os.path.join("/verif/seeded", dest_id)
            os.makedirs(d, exist_ok=True)
            shutil.copy(os.path.join(src, "patch.diff"), d)
            shutil.copy(demo, d)
            meta["verified"] = {"by": "tools/verify_seeded.py in a scratch worktree of /repo", "repo_head": head,
                                "tests": out["tests_tail"], "demo_without_change_exit": rc0,
                                "demo_with_change_exit": out["demo_with_change"], "demo_cmd": "cd <worktree> && " + democmd.replace("_demo.py", "demo.py")}
            meta["demo_cmd"] = "copy demo.py into the worktree root, then: " + democmd.replace("_demo.py", "demo.py")
            json.dump(meta, open(os.path.join(d, "meta.json"), "w"), indent=1)
    finally:
        sh("git -C /repo worktree remove --force %s" % wt, "/")
        shutil.rmtree(wt, ignore_errors=True)
    print(json.dumps(out))

main()

#!/usr/bin/env python3
import json, sys, glob
for pat in sys.argv[1:]:
    for f in sorted(glob.glob(pat)):
        d = json.load(open(f))
        print("==", d["obligation"])
        fi = d.get("failing_input")
        if fi:
            print("  input:", json.dumps(fi)[:600])
            r = d.get("replay") or {}
            n = r.get("native") or r.get("engine") or {}
            print("  native:", json.dumps({k: n.get(k) for k in ("exit", "ret", "exc", "events", "observe")})[:900])
        else:
            print("  solver:", json.dumps(d.get("solver_output"))[:900])

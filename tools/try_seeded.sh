#!/bin/sh
# tools/try_seeded.sh <seeded-id> <prop> [<prop>...] : apply seeded/<id>/patch.diff to /repo, run the quick checks, undo.
id="$1"; shift
cd /verif
git -C /repo diff --quiet || { echo "/repo has uncommitted changes"; exit 9; }
git -C /repo apply "/verif/seeded/$id/patch.diff" || { echo "patch does not apply"; exit 9; }
rm -rf .scratch/evidence.bak; cp -r evidence .scratch/evidence.bak
trap 'git -C /repo checkout -- .; rm -rf evidence; mv .scratch/evidence.bak evidence' EXIT INT TERM
for p in "$@"; do
  ./check "$p" --tier quick > ".scratch/try_${id}_${p}.out" 2>&1; rc=$?
  echo "== $id on $p: exit=$rc"; grep -E '^(VIOLATION|UNDECIDED|CHECKER-ERROR|  obligation)' ".scratch/try_${id}_${p}.out" | cut -c1-300 | head -8
done

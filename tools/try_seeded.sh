#!/bin/sh
# tools/try_seeded.sh <seeded-id | patch file> <prop> [<prop>...] : apply the change to a scratch worktree of /repo, run the
# quick checks of the given properties against it, remove the worktree.  /repo and evidence/ are not touched.
id="$1"; shift
pf="$id"; [ -f "$pf" ] || pf="/verif/seeded/$id/patch.diff"
cd /verif
WT="/tmp/try-wt-$$"; OUT="/tmp/try-out-$$"
git -C /repo worktree add --detach "$WT" HEAD >/dev/null 2>&1 || { echo "cannot create worktree"; exit 9; }
trap 'git -C /repo worktree remove --force "$WT" >/dev/null 2>&1; rm -rf "$WT" "$OUT"' EXIT INT TERM
git -C "$WT" apply "$pf" || { echo "patch does not apply"; exit 9; }
for p in "$@"; do
  PYVC_REPO="$WT" PYVC_OUT="$OUT" ./check "$p" --tier quick > ".scratch/try_$$.out" 2>&1; rc=$?
  echo "== $id on $p: exit=$rc"; grep -E '^(VIOLATION|UNDECIDED|CHECKER-ERROR|  obligation)' ".scratch/try_$$.out" | cut -c1-300 | head -8
done
rm -f ".scratch/try_$$.out"

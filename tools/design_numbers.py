#!/usr/bin/env python3
"""rewrite the `(obligations / paths)` numbers of DESIGN.md §7 from the evidence files"""
import json, re, glob
ev = {}
for f in glob.glob('/verif/evidence/C*.json'):
    d = json.load(open(f))
    ev[d['property_id']] = (d['coverage']['obligations'], d['coverage']['paths_explored'])
p = '/verif/DESIGN.md'
s = open(p).read()
def rep(m):
    pid = m.group(1)
    return "%s%s(%d / %d" % (pid, m.group(2), ev[pid][0], ev[pid][1]) if pid in ev else m.group(0)
s2 = re.sub(r"(C\d\d)([^(\n]{0,45}\*\* )\((\d+) / (\d+)", rep, s)
s2 = re.sub(r"(C12 / C13 block transfer\*\*) \(", r"\1 (C12 %d / %d, C13 %d / %d; " % (ev['C12'] + ev['C13']), s2) if "C12 %d" % ev['C12'][0] not in s2 else s2
open(p, 'w').write(s2)
print("updated")

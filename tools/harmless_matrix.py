#!/usr/bin/env python3
"""Behaviour-preserving refactorings of /repo (harmless/<group>/NN.diff) must never raise an alarm: apply each to a
scratch worktree, run the quick checks of the properties anchored in the touched files, expect exit 0 (held) or 2
(undecided, e.g. a contract names private state that was renamed) - never 1 (VIOLATION) or 3 (checker error).
Writes harmless/RESULTS.json.  Usage: harmless_matrix.py [group/NN ...]"""
import json, os, subprocess, sys, glob, shutil
os.chdir(os.environ.get("VERIF_DIR", "/verif"))
PROPS = {"sdo": ["C01", "C02", "C03", "C06", "C07", "C12", "C13"],
         "pdo": ["C05", "C09", "C15", "C17", "C19", "C20"],
         "nmtnet": ["C10", "C11", "C16", "C17", "C18", "C02", "C06"],
         "od": ["C03", "C04", "C08", "C14", "C20", "C06"]}
FILE_PROPS = {"canopen/nmt.py": ["C11", "C17"], "canopen/pdo/base.py": ["C05", "C09", "C15", "C17"],
              "canopen/node/local.py": ["C02", "C03", "C06"], "canopen/emcy.py": ["C16"], "canopen/lss.py": ["C18"],
              "canopen/profiles/p402.py": ["C19"], "canopen/sdo/client.py": ["C01", "C03", "C07", "C12", "C13"],
              "canopen/sdo/server.py": ["C02", "C03", "C06", "C07"], "canopen/network.py": ["C10", "C17"],
              "canopen/variable.py": ["C20"], "canopen/objectdictionary/__init__.py": ["C04", "C08", "C20"]}


def props_of(hid):
    """groups of the first round have a fixed list; later groups: the properties anchored in the files the patch touches"""
    group = hid.split("/")[0]
    if group in PROPS:
        return PROPS[group]
    files = [l[6:].strip() for l in open("harmless/%s.diff" % hid) if l.startswith("+++ b/")]
    out = []
    for f in files:
        for p in FILE_PROPS.get(f, []):
            if p not in out:
                out.append(p)
    return out


ids = sys.argv[1:] or sorted(p[len("harmless/"):-5] for p in glob.glob("harmless/*/*.diff"))
out = json.load(open("harmless/RESULTS.json")) if os.path.exists("harmless/RESULTS.json") else {}
WT, OUT = "/tmp/harmless-wt", "/tmp/harmless-out"
subprocess.run("git -C /repo worktree remove --force %s" % WT, shell=True, capture_output=True)
shutil.rmtree(WT, ignore_errors=True)
assert subprocess.run("git -C /repo worktree add --detach %s HEAD" % WT, shell=True, capture_output=True).returncode == 0
env = dict(os.environ, PYVC_REPO=WT, PYVC_OUT=OUT)
try:
    for hid in ids:
        group = hid.split("/")[0]
        subprocess.run("git -C %s checkout -- . && git -C %s clean -fdq" % (WT, WT), shell=True)
        r = subprocess.run("git -C %s apply %s/harmless/%s.diff" % (WT, os.getcwd(), hid), shell=True, capture_output=True, text=True)
        if r.returncode != 0:
            out[hid] = {"applies": False}
            print(hid, "does not apply", flush=True)
            continue
        shutil.rmtree(OUT, ignore_errors=True)
        res = {"applies": True, "checks": {}}
        for p in props_of(hid):
            c = subprocess.run("./check %s --tier quick" % p, shell=True, capture_output=True, text=True, env=env)
            lines = [l for l in c.stdout.splitlines() if l.startswith(("VIOLATION", "CHECKER-ERROR", "UNDECIDED"))]
            res["checks"][p] = {"exit": c.returncode, "lines": [l[:300] for l in lines[:3]]}
        res["false_alarm"] = any(v["exit"] in (1, 3) for v in res["checks"].values())
        out[hid] = res
        print(hid, "FALSE-ALARM" if res["false_alarm"] else "quiet", {p: v["exit"] for p, v in res["checks"].items()}, flush=True)
        json.dump(out, open("harmless/RESULTS.json", "w"), indent=1)
finally:
    subprocess.run("git -C /repo worktree remove --force %s" % WT, shell=True, capture_output=True)
    shutil.rmtree(WT, ignore_errors=True)
    shutil.rmtree(OUT, ignore_errors=True)

#!/usr/bin/env python3
"""Apply every seeded change to a scratch worktree of /repo (under /tmp, removed afterwards), run the quick checks of
the properties it targets against that worktree (PYVC_REPO) with evidence and replays redirected (PYVC_OUT), and write
seeded/RESULTS.json.  /repo and /verif/evidence are not touched.  Usage: seeded_matrix.py [ids...]"""
import json, os, subprocess, sys, glob, shutil
os.chdir(os.environ.get("VERIF_DIR", "/verif"))      # VERIF_DIR: run from a snapshot of /verif while /verif is being edited
EXTRA = {"C02-A": ["C02", "C06"], "C02-B": ["C02"], "C03-A": ["C03", "C02"], "C03-B": ["C03", "C02"], "C06-A": ["C06", "C02"],
         "C06-B": ["C06", "C02"], "C07-A": ["C07", "C01"], "C07-B": ["C07", "C01"], "C01-A": ["C01"], "C01-B": ["C01"],
         "C15-B": ["C15", "C10"], "C03-I": ["C03", "C04"]}
ids = sys.argv[1:] or sorted(os.path.basename(d) for d in glob.glob("seeded/C*-*"))
RES = os.environ.get("SEEDED_RESULTS", "seeded/RESULTS.json")     # several instances may run side by side on disjoint ids,
out = json.load(open(RES)) if os.path.exists(RES) else {}          # each with its own results file (merged afterwards)
WT = "/tmp/seeded-wt-%d" % os.getpid()
OUT = "/tmp/seeded-out-%d" % os.getpid()
subprocess.run("git -C /repo worktree remove --force %s" % WT, shell=True, capture_output=True)
shutil.rmtree(WT, ignore_errors=True)
assert subprocess.run("git -C /repo worktree add --detach %s HEAD" % WT, shell=True, capture_output=True).returncode == 0
env = dict(os.environ, PYVC_REPO=WT, PYVC_OUT=OUT)
try:
    for sid in ids:
        props = EXTRA.get(sid, [sid.split("-")[0]])
        subprocess.run("git -C %s checkout -- . && git -C %s clean -fdq" % (WT, WT), shell=True)
        r = subprocess.run("git -C %s apply %s/seeded/%s/patch.diff" % (WT, os.getcwd(), sid), shell=True, capture_output=True, text=True)
        if r.returncode != 0:
            out[sid] = {"applies": False, "note": "patch no longer applies to the repaired tree"}
            print(sid, "does not apply", flush=True)
            continue
        shutil.rmtree(OUT, ignore_errors=True)
        res = {"applies": True, "checks": {}}
        for p in props:
            c = subprocess.run("./check %s --tier quick" % p, shell=True, capture_output=True, text=True, env=env)
            viol = [l.split("replay=")[0] for l in c.stdout.splitlines() if l.startswith("VIOLATION")]
            obl = [l.strip()[11:] for l in c.stdout.splitlines() if l.startswith("  obligation")]
            res["checks"][p] = {"exit": c.returncode, "violations": len(viol), "obligations": obl[:4],
                                "no_failing_input": sum("no-failing-input-found" in l for l in c.stdout.splitlines())}
        res["detected"] = any(v["exit"] == 1 for v in res["checks"].values())
        out[sid] = res
        print(sid, "DETECTED" if res["detected"] else "missed", {p: v["exit"] for p, v in res["checks"].items()}, flush=True)
        json.dump(out, open(RES, "w"), indent=1)
finally:
    subprocess.run("git -C /repo worktree remove --force %s" % WT, shell=True, capture_output=True)
    shutil.rmtree(WT, ignore_errors=True)
    shutil.rmtree(OUT, ignore_errors=True)

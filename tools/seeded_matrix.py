#!/usr/bin/env python3
"""Apply every seeded change to /repo in turn, run the quick checks of the properties it targets, undo it; write
seeded/RESULTS.json.  Usage: seeded_matrix.py [ids...]"""
import json, os, subprocess, sys, glob, shutil
os.chdir("/verif")
EXTRA = {"C02-A": ["C02", "C06"], "C02-B": ["C02"], "C03-A": ["C03", "C02"], "C03-B": ["C03", "C02"], "C06-A": ["C06", "C02"],
         "C06-B": ["C06", "C02"], "C07-A": ["C07", "C01"], "C07-B": ["C07", "C01"], "C01-A": ["C01"], "C01-B": ["C01"],
         "C15-B": ["C15", "C10"]}
ids = sys.argv[1:] or sorted(os.path.basename(d) for d in glob.glob("seeded/C*-*"))
out = json.load(open("seeded/RESULTS.json")) if os.path.exists("seeded/RESULTS.json") else {}
assert subprocess.run("git -C /repo diff --quiet", shell=True).returncode == 0, "/repo dirty"
for sid in ids:
    props = EXTRA.get(sid, [sid.split("-")[0]])
    r = subprocess.run("git -C /repo apply /verif/seeded/%s/patch.diff" % sid, shell=True, capture_output=True, text=True)
    if r.returncode != 0:
        out[sid] = {"applies": False, "note": "patch no longer applies to the repaired tree"}
        print(sid, "does not apply")
        continue
    shutil.rmtree(".scratch/evidence.bak", ignore_errors=True)
    shutil.copytree("evidence", ".scratch/evidence.bak")
    res = {"applies": True, "checks": {}}
    try:
        for p in props:
            c = subprocess.run("./check %s --tier quick" % p, shell=True, capture_output=True, text=True)
            viol = [l.split("replay=")[0] for l in c.stdout.splitlines() if l.startswith("VIOLATION")]
            obl = [l.strip()[11:] for l in c.stdout.splitlines() if l.startswith("  obligation")]
            res["checks"][p] = {"exit": c.returncode, "violations": len(viol), "obligations": obl[:4],
                                "no_failing_input": sum("no-failing-input-found" in l for l in c.stdout.splitlines())}
    finally:
        subprocess.run("git -C /repo checkout -- .", shell=True)
        shutil.rmtree("evidence")
        shutil.move(".scratch/evidence.bak", "evidence")
    res["detected"] = any(v["exit"] == 1 for v in res["checks"].values())
    out[sid] = res
    print(sid, "DETECTED" if res["detected"] else "missed", {p: v["exit"] for p, v in res["checks"].items()})
    json.dump(out, open("seeded/RESULTS.json", "w"), indent=1)

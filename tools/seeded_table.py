#!/usr/bin/env python3
"""Rewrites the seeded-changes table in DESIGN.md (between the SEEDED-TABLE markers) from seeded/RESULTS.json and the metas."""
import json, os, re
os.chdir("/verif")
R = json.load(open("seeded/RESULTS.json"))
rows = ["| change | what it does (author's summary) | needs to manifest | result | failing obligations (first) |", "|---|---|---|---|---|"]
first_miss = {"C05-D": "missed at first: reception was only checked by object identity on a byte-aligned map → PdoOnMessage now uses a 20-bit map and compares content and length",
              "C08-C": "missed at first: every generated document enabled the same bit rates → the bounded import check now varies them per document",
              "C09-D": "missed at first: PdoMaps construction was not under contract → PdoMapsInit added",
              "C10-D": "missed at first: the cyclic-task stub did not record the frame format → TaskStub records `extended`, task_sends checks it, TaskUpdate joined C10",
              "C13-C": "first run ended in a checker error (the clause indexed a field the changed code no longer sets) → a clause that cannot be evaluated now counts as false",
              "C15-C": "first run ended in a checker error (no wait event) → same correction",
              "C14-C": "missed at first: the round-trip stand-in stripped $NODEID-relative defaults → now kept for DCF with a node id",
              "C16-C": "missed at first: reset() was only checked for two empty lists → `two-separate-lists` clause and a reset-then-frames history contract added",
              "C18-C": "missed at first: LSS requests were only contracted on an empty queue → LssStaleReplies added",
              "C19-C": "first run did not terminate (the changed code loops forever inside one path) → per-path wall-clock budget added; now reported through NextState",
              "C20-C": "missed at first: ODArray template expansion was not under contract → ArrayTemplate added",
              "C12-D": "missed at first by C12 alone: request_response belongs to C01/C07 → ReqResp joined C12/C13",
              "C06-E": "undecided at first (the changed code inspects individual surplus bytes of a symbolic-length payload) → NodeSetDataLengths: every numeric type x every concrete payload length 0..9",
              "C08-F": "missed at first: the array template carried only non-zero sample values → ArrayTemplate now also with arbitrary limits and default",
              "C10-F": "undecided at first (bisect not modelled, history list opaque) → bisect models, Scanner also with a known history of 2 / 3 ids",
              "C14-E": "missed at first: the generated dictionaries had no REAL defaults → float defaults / values in both EDS generators",
              "C19-E": "missed at first: the drive always displayed mode 0 beforehand → any defined mode displayed beforehand",
              "C20-E": "missed at first: the physical-view stand-in used float operands only → integer physical values with integer factors added",
              "C01-G": "missed at first: expedited pieces were contracted for two pieces only → every composition of the size into 2..4 pieces",
              "C15-H": "missed at first: the received frame always carried a later timestamp → a frame with the previous frame's timestamp added",
              "C04-G": "undecided at first (`int.bit_length()` of a symbolic integer was outside the engine) → modelled as a chain of comparisons against the powers of two; the correct unsigned half of the same change still verifies, the signed half is refuted with the most negative value as replayed input",
              "C08-G": "missed at first: build_variable was contracted for the integer types only → BuildVariableDataType: every data type code CiA 301 defines in 0x01..0x1B keeps its type (TIME_OF_DAY / TIME_DIFFERENCE included) and numeric defaults are read as numbers",
              "C14-G": "missed at first: same gap as C08-G (the import half of the round trip) → BuildVariableDataType",
              "C19-G": "undecided at first (the stalled wait loop spun until the unrolling budget under the frozen clock) → `clock_patience`: after 200 clock reads without completion every deadline has expired, the library's own time-out ends the call and the clause fails; the native replay lets the environment repeat its last answer while the real deadline runs out",
              "C17-H": "missed at first: the boot-up transition of the NMT slave was contracted only for its frames → HeartbeatAtBootUp (period of object 0x1017 now, any cached value)"}
n_det = n_app = 0
for sid in sorted(R):
    r = R[sid]
    meta = json.load(open("seeded/%s/meta.json" % sid))
    summ = meta.get("summary", "").replace("|", "/").replace("\n", " ")[:150]
    need = str(meta.get("needs_to_manifest", "")).replace("|", "/").replace("\n", " ")[:130]
    if not r.get("applies", True):
        rows.append("| %s | %s | %s | patch no longer applies: the function was rewritten by a repair (§8); superseded by round-2 changes on the repaired tree | |" % (sid, summ, need))
        continue
    n_app += 1
    det = r["detected"]
    n_det += det
    obl = []
    for p, c in r["checks"].items():
        obl += c.get("obligations", [])[:1]
    note = ("**caught**" if det else "MISSED") + " (" + ", ".join("%s exit %s" % (p, c["exit"]) for p, c in r["checks"].items()) + ")"
    if sid in first_miss:
        note += " — " + first_miss[sid]
    rows.append("| %s | %s | %s | %s | %s |" % (sid, summ, need, note, "; ".join(o.split(":")[-1][:90] for o in obl)))
head = ("Round 1 (`-A`, `-B`, written against the pinned commit), round 2 (`-C`, `-D`, written against the repaired tree, asked to "
        "look beyond the central function) round 3 (`-E`, `-F`, asked for subtle changes in rarely exercised paths) and round 4 (`-G`, `-H`, ten properties, asked to "
        "look at helpers, constructors, error and clean-up paths and state that survives between calls; written against the final "
        "repaired tree); round 5 (the next free letter per property, one change for each of the 20 properties, asked for changes that need a "
        "particular multi-step history, boundary input, prior state or two cooperating edits). Applicable changes: %d, caught by the targeted check(s): %d.\n\n" % (n_app, n_det))
txt = open("DESIGN.md").read()
block = "<!-- SEEDED-TABLE-BEGIN -->\n" + head + "\n".join(rows) + "\n<!-- SEEDED-TABLE-END -->"
if "<!-- SEEDED-TABLE-BEGIN -->" in txt:
    txt = re.sub(r"<!-- SEEDED-TABLE-BEGIN -->.*<!-- SEEDED-TABLE-END -->", lambda m: block, txt, flags=re.S)
else:
    txt = txt.replace("SEEDED-TABLE", block)
open("DESIGN.md", "w").write(txt)
print(n_app, n_det)

"""Symbolic / concrete interpreter for the Python subset of DESIGN §2.2, run over the real ASTs."""
import ast
import builtins as _bi
import inspect
import struct as _struct
import types

import z3

from . import values as V
from .values import (SInt, SBool, SBytes, LBytes, SObj, RealObj, Opaque, Unsupported, PathAbort, W,
                     binop, unop, compare, truth, truth_val, And, Or, Not, ite, bv, mk_int, mk_bool,
                     byte_to_int, int_to_byte, b8, bytes_eq, is_sym, is_intlike)
from .context import PyRaise


class ReturnEx(Exception):
    def __init__(self, v):
        self.v = v


class BreakEx(Exception):
    pass


class ContinueEx(Exception):
    pass


class FuncVal:
    """Interpreted function (AST + defining module + optional closure frame)."""
    __slots__ = ("fd", "closure", "defcls", "defaults", "kwdefaults")

    def __init__(self, fd, closure=None, defcls=None, defaults=None, kwdefaults=None):
        self.fd = fd
        self.closure = closure
        self.defcls = defcls
        self.defaults = defaults
        self.kwdefaults = kwdefaults

    def __repr__(self):
        return "<FuncVal %s>" % self.fd.qualname


class BoundMethod:
    __slots__ = ("self_", "func")

    def __init__(self, self_, func):
        self.self_ = self_
        self.func = func

    def __repr__(self):
        return "<bound %r of %r>" % (self.func, self.self_)


class Builtin:
    """Model of a builtin / library callable: fn(interp, *args, **kwargs)."""
    __slots__ = ("name", "fn")

    def __init__(self, name, fn):
        self.name = name
        self.fn = fn

    def __repr__(self):
        return "<builtin-model %s>" % self.name


class ClassVal:
    __slots__ = ("cls",)

    def __init__(self, cls):
        self.cls = cls

    def __repr__(self):
        return "<class %s>" % self.cls.__name__


class ModuleVal:
    __slots__ = ("mod",)

    def __init__(self, mod):
        self.mod = mod


class LoggerVal:
    pass


class SuperVal:
    __slots__ = ("cls", "obj")

    def __init__(self, cls, obj):
        self.cls = cls
        self.obj = obj


class PBase:
    """Opaque (arbitrary, unknown) list prefix: a name and a symbolic length >= 0."""
    __slots__ = ("name", "length", "silent")

    def __init__(self, name, length, silent=False):
        self.name = name
        self.length = length
        self.silent = silent        # contract family: every element of the prefix, when called, returns None

    def __repr__(self):
        return "PBase(%s)" % self.name


class SegBase(PBase):
    """List prefix whose items are known: item i is the `width`-byte segment arr[start + width*i : start + width*(i+1)]
    of a byte array, for 0 <= i < length (symbolic length).  Used by loop invariants that describe a list of sent
    segments without quantifiers."""
    __slots__ = ("arr", "start", "width")

    def __init__(self, name, length, arr, start, width=7):
        PBase.__init__(self, name, length)
        self.arr = arr
        self.start = start
        self.width = width

    def item(self, i):
        return V.LBytes(self.arr, binop("+", self.start, binop("*", i, self.width)), self.width, False)

    def drop(self, a):
        return SegBase(self.name, binop("-", self.length, a), self.arr, binop("+", self.start, binop("*", a, self.width)), self.width)

    def __repr__(self):
        return "SegBase(%s)" % self.name


class SList:
    """python list with identity (per path); items are engine values.  With `base` set the list is
    base ++ items where base is an arbitrary unknown list (history abstraction)."""
    __slots__ = ("items", "base")

    def __init__(self, items=(), base=None):
        self.items = list(items)
        self.base = base

    def __repr__(self):
        return "SList(%s%r)" % ((self.base.name + " ++ ") if self.base else "", self.items)

    def py_truth(self):
        if self.base is not None:
            return Or(compare(">", self.base.length, 0), len(self.items) > 0)
        return len(self.items) > 0

    def snapshot(self):
        return SList(self.items, self.base)

    def __len__(self):
        if self.base is not None:
            raise Unsupported("native len of a list with unknown prefix")
        return len(self.items)


ABSENT = V.ABSENT


class SDict:
    """python dict with concrete (hashable native) keys, insertion ordered.  With `base` set it is an
    arbitrary unknown map (int keys) overridden by `sym` = [(key term, value | ABSENT)] and `d`."""
    __slots__ = ("d", "base", "sym", "valfactory")

    def __init__(self, d=None, base=None, valfactory=None):
        self.d = dict(d or {})
        self.base = base
        self.sym = []
        self.valfactory = valfactory

    def __repr__(self):
        return "SDict(%s%r%r)" % ((self.base + " + ") if self.base else "", self.sym, self.d)

    def whole(self, what):
        """operations on the dict as a whole (iteration, keys/values/items, len, copy, update from it, truth value) need
        every key to be known: not with an opaque base, not with entries stored under symbolic keys"""
        if self.base is not None:
            raise Unsupported("%s of an opaque dict" % what)
        if self.sym:
            raise Unsupported("%s of a dict with entries under symbolic keys" % what)
        return self.d

    def whole(self, what):
        """operations on the dict as a whole (iteration, keys/values/items, len, copy, update from it, truth value) need
        every key to be known: not with an opaque base, not with entries stored under symbolic keys"""
        if self.base is not None:
            raise Unsupported("%s of an opaque dict" % what)
        if self.sym:
            raise Unsupported("%s of a dict with entries under symbolic keys" % what)
        return self.d

    def py_truth(self):
        return len(self.whole("truth value")) > 0


class MissingLocal(KeyError, Unsupported):
    """an invariant refers to a local variable the function does not have (renamed?): undecided, never a violation"""

    def __str__(self):
        return "the contract refers to local variable %r that the function does not have (renamed or removed?)" % (self.args[0],)


class LocalsDict(dict):
    def __missing__(self, k):
        raise MissingLocal(k)


class Frame:
    __slots__ = ("locals", "fd", "globals", "closure", "defcls", "self_obj")

    def __init__(self, fd, globals_, closure, defcls):
        self.locals = LocalsDict()
        self.fd = fd
        self.globals = globals_
        self.closure = closure
        self.defcls = defcls
        self.self_obj = None


_NOTFOUND = object()

BUILTIN_EXC = {n: getattr(_bi, n) for n in dir(_bi)
               if isinstance(getattr(_bi, n), type) and issubclass(getattr(_bi, n), BaseException)}


class Interp:
    def __init__(self, ctx, loader, models):
        self.ctx = ctx
        self.loader = loader
        self.models = models          # Models instance (builtins, libs, stubs)
        self.depth = 0
        self.steps = 0
        self.max_steps = 400000
        self.loop_bound = 4096
        self.stubs = {}               # (module, qualname) -> callable(interp, fv, args, kwargs)
        self.loop_cuts = {}           # function qualname -> iterations after which the path is cut (induction)
        self.loop_specs = {}          # (function qualname, loop ordinal) -> LoopSpec (inductive invariant)
        self.fn_summaries = {}        # function qualname -> FnSummary (callee contract used instead of the body)
        self.call_trace = []

    # ------------------------------------------------------------------ lifting real objects
    def lift(self, v):
        tv = type(v)
        if self.loader.interpretable(getattr(tv, "__module__", None)) and not issubclass(tv, (type, BaseException)) \
                and tv.__name__ == "_UninitializedNetwork":
            return RealObj(v)       # hostile __getattribute__: never touch its attributes
        if v is None or isinstance(v, (bool, int, float, str)):
            return v
        if isinstance(v, (SInt, SBool, SBytes, LBytes, SObj, SList, SDict, FuncVal, BoundMethod, Builtin,
                          ClassVal, ModuleVal, RealObj, Opaque, LoggerVal, SuperVal)):
            return v
        if isinstance(v, bytes):
            return SBytes(list(v), False)
        if isinstance(v, (bytearray, list, dict)):
            # a mutable real object (module constant, default argument) is ONE object: lift it once per path so
            # that mutations through one reference are seen through every other (e.g. a mutable default argument)
            memo = self.__dict__.setdefault("_lift_memo", {})
            if id(v) in memo:
                return memo[id(v)][1]
            if isinstance(v, bytearray):
                r = SBytes(list(v), True)
            elif isinstance(v, list):
                r = SList([self.lift(x) for x in v])
            else:
                r = SDict({k: self.lift(x) for k, x in v.items()})
            memo[id(v)] = (v, r)
            return r
        if isinstance(v, tuple):
            return tuple(self.lift(x) for x in v)
        if isinstance(v, (frozenset, set)):
            return frozenset(v)
        if isinstance(v, types.ModuleType):
            return ModuleVal(v)
        if isinstance(v, type):
            return ClassVal(v)
        if isinstance(v, (types.FunctionType,)):
            fd = self.loader.func_of(v)
            if fd is not None:
                return FuncVal(fd, None, None, v.__defaults__, v.__kwdefaults__)
            m = self.models.lookup_callable(v)
            if m is not None:
                return m
            raise Unsupported("foreign function %r" % (v,))
        if isinstance(v, types.MethodType):
            return BoundMethod(self.lift(v.__self__), self.lift(v.__func__))
        if isinstance(v, (types.BuiltinFunctionType, types.MethodDescriptorType, types.WrapperDescriptorType)):
            m = self.models.lookup_callable(v)
            if m is not None:
                return m
            raise Unsupported("builtin %r has no model" % (v,))
        import logging
        if isinstance(v, logging.Logger):
            return LoggerVal()
        if isinstance(v, _struct.Struct):
            return RealObj(v)
        if isinstance(v, range):
            return v
        mod = type(v).__module__
        if self.loader.interpretable(mod):
            return RealObj(v)
        m = self.models.lift_foreign(self, v)
        if m is not None:
            return m
        raise Unsupported("cannot lift %r" % (type(v),))

    # ------------------------------------------------------------------ calls
    def make_func(self, pyfunc):
        fd = self.loader.func_of(pyfunc)
        if fd is None:
            raise Unsupported("not interpretable: %r" % (pyfunc,))
        return FuncVal(fd, None, None, pyfunc.__defaults__, pyfunc.__kwdefaults__)

    def call(self, f, args, kwargs=None):
        kwargs = kwargs or {}
        if isinstance(f, BoundMethod):
            return self.call(f.func, [f.self_] + list(args), kwargs)
        if isinstance(f, FuncVal):
            return self.call_func(f, list(args), kwargs)
        if isinstance(f, Builtin):
            return f.fn(self, *args, **kwargs)
        if isinstance(f, ClassVal):
            return self.instantiate(f.cls, list(args), kwargs)
        if isinstance(f, SObj):
            c = self.find_class_attr(f.cls, "__call__")
            if c is not _NOTFOUND:
                return self.call(self.bind(c, f, f.cls), args, kwargs)
        if isinstance(f, RealObj) and callable(f.obj):
            raise Unsupported("call of real object %r" % (f.obj,))
        if f is None:
            self.ctx.raise_builtin(TypeError, "'NoneType' object is not callable")
        raise Unsupported("call of %r" % (f,))

    def call_func(self, fv, args, kwargs):
        fd = fv.fd
        key = (fd.module, fd.qualname)
        stub = self.stubs.get(key)
        if stub is not None:
            return stub(self, fv, args, kwargs)
        summ = self.fn_summaries.get(fd.qualname) if self.ctx.mode == "sym" else None
        if summ is not None:
            active = self.__dict__.setdefault("_summ_active", {})
            if active.get(fd.qualname, 0) >= summ.inline_depth:
                # modular step: the call is replaced by the callee's contract (pre-condition becomes an obligation at this
                # call site, the post-condition is all that is known afterwards); the contract itself is proved on the
                # real body by the contract class named in summ.proved_by
                pre = summ.pre(self, args, kwargs)
                for nm, c in (pre.items() if isinstance(pre, dict) else [("", pre)]):
                    self.ctx.side_obligations.append(("call-pre:%s:%s" % (fd.qualname, nm), truth_val(c), list(self.ctx.pc)))
                self.ctx.notes.append("call of %s replaced by its contract (proved by %s)" % (fd.qualname, summ.proved_by))
                return summ.apply(self, args, kwargs)
            active[fd.qualname] = active.get(fd.qualname, 0) + 1
            try:
                return self._call_body(fd, fv, args, kwargs)
            finally:
                active[fd.qualname] -= 1
        return self._call_body(fd, fv, args, kwargs)

    def _call_body(self, fd, fv, args, kwargs):
        node = fd.node
        for d in node.decorator_list:
            dn = ast.unparse(d)
            if dn in ("property", "staticmethod", "classmethod") or dn.endswith(".setter") \
                    or dn in ("abc.abstractmethod", "abstractmethod"):
                continue
            raise Unsupported("decorator %s on %s" % (dn, fd.qualname))
        mod = self.loader.module(fd.module)
        fr = Frame(fd, mod.__dict__, fv.closure, fv.defcls)
        self.bind_args(fv, node.args, args, kwargs, fr)
        if node.args.args and args:
            fr.self_obj = args[0]
        self.depth += 1
        if self.depth > 60:
            raise Unsupported("recursion depth")
        try:
            self.exec_block(node.body, fr)
            return None
        except ReturnEx as r:
            return r.v
        finally:
            self.depth -= 1

    def bind_args(self, fv, a, args, kwargs, fr):
        pos = [x.arg for x in a.posonlyargs] + [x.arg for x in a.args]
        kwargs = dict(kwargs)
        if fv.defaults is not None:
            defaults = [self.lift(d) for d in fv.defaults]
        else:
            # nested function: defaults evaluated at definition time were stored on closure
            defaults = fv.kwdefaults.get("__posdefaults__", []) if isinstance(fv.kwdefaults, dict) else []
        n = len(pos)
        vals = {}
        if len(args) > n and not a.vararg:
            self.ctx.raise_builtin(TypeError, "too many positional arguments")
        for i, name in enumerate(pos):
            if i < len(args):
                vals[name] = args[i]
            elif name in kwargs:
                vals[name] = kwargs.pop(name)
            else:
                di = i - (n - len(defaults))
                if di < 0:
                    self.ctx.raise_builtin(TypeError, "missing argument " + name)
                vals[name] = defaults[di]
        if a.vararg:
            vals[a.vararg.arg] = tuple(args[n:])
        for i, ka in enumerate(a.kwonlyargs):
            if ka.arg in kwargs:
                vals[ka.arg] = kwargs.pop(ka.arg)
            else:
                if fv.kwdefaults and ka.arg in fv.kwdefaults:
                    vals[ka.arg] = self.lift(fv.kwdefaults[ka.arg])
                else:
                    self.ctx.raise_builtin(TypeError, "missing kw argument " + ka.arg)
        if a.kwarg:
            vals[a.kwarg.arg] = SDict(kwargs)
        elif kwargs:
            self.ctx.raise_builtin(TypeError, "unexpected keyword argument %s" % list(kwargs))
        fr.locals.update(vals)

    # ------------------------------------------------------------------ classes / attributes
    def find_class_attr(self, cls, name):
        for k in cls.__mro__:
            if name in k.__dict__:
                return (k, k.__dict__[name])
        return _NOTFOUND

    def bind(self, found, obj, cls):
        """found = (defining class, raw descriptor) -> engine value bound to obj."""
        k, raw = found
        if isinstance(raw, types.FunctionType):
            fd = self.loader.func_of(raw)
            if fd is None:
                m = self.models.lookup_method(k, raw.__name__)
                if m is None:
                    raise Unsupported("method %s.%s not interpretable" % (k.__name__, raw.__name__))
                return BoundMethod(obj, m)
            return BoundMethod(obj, FuncVal(fd, None, k, raw.__defaults__, raw.__kwdefaults__))
        if isinstance(raw, property):
            fd = self.loader.func_of(raw.fget)
            if fd is None:
                raise Unsupported("property %s.%s" % (k.__name__, "?"))
            return self.call_func(FuncVal(fd, None, k, raw.fget.__defaults__, None), [obj], {})
        if isinstance(raw, staticmethod):
            f = raw.__func__
            fd = self.loader.func_of(f)
            if fd is None:
                raise Unsupported("staticmethod not interpretable")
            return FuncVal(fd, None, k, f.__defaults__, f.__kwdefaults__)
        if isinstance(raw, classmethod):
            f = raw.__func__
            fd = self.loader.func_of(f)
            if fd is None:
                raise Unsupported("classmethod not interpretable")
            return BoundMethod(ClassVal(cls), FuncVal(fd, None, k, f.__defaults__, f.__kwdefaults__))
        if isinstance(raw, (types.GetSetDescriptorType, types.MemberDescriptorType)):
            m = self.models.lookup_method(k, getattr(raw, "__name__", "?"))
            if m is None:
                raise Unsupported("builtin attribute %s.%s" % (k.__name__, getattr(raw, "__name__", "?")))
            return m.fn(self, obj)          # data descriptor: evaluated on access
        if isinstance(raw, (types.MethodDescriptorType, types.WrapperDescriptorType, types.BuiltinFunctionType)):
            m = self.models.lookup_method(k, getattr(raw, "__name__", "?"))
            if m is None:
                raise Unsupported("builtin method %s.%s" % (k.__name__, getattr(raw, "__name__", "?")))
            return BoundMethod(obj, m)
        return self.lift(raw)

    def getattr(self, obj, name):
        r = self.getattr_opt(obj, name)
        if r is _NOTFOUND:
            self.ctx.raise_builtin(AttributeError, "%r has no attribute %s" % (obj, name))
        return r

    def getattr_opt(self, obj, name):
        if isinstance(obj, SObj):
            if name in obj.fields:
                return obj.fields[name]
            if name == "__class__":
                return ClassVal(obj.cls)
            if name == "__dict__":
                view = SDict()
                view.d = obj.fields          # a live view: writes through it are attribute writes
                return view
            f = self.find_class_attr(obj.cls, name)
            if f is not _NOTFOUND:
                return self.bind(f, obj, obj.cls)
            m = self.models.lookup_method(obj.cls, name)
            if m is not None:
                return BoundMethod(obj, m)
            return _NOTFOUND
        if isinstance(obj, RealObj):
            real = obj.obj
            d = getattr(real, "__dict__", {})
            if name in d:
                return self.lift(d[name])
            f = self.find_class_attr(type(real), name)
            if f is not _NOTFOUND:
                k, raw = f
                if isinstance(raw, (types.GetSetDescriptorType, types.MemberDescriptorType)):
                    return self.lift(getattr(real, name))
                if self.loader.interpretable(k.__module__):
                    return self.bind(f, obj, type(real))
            m = self.models.lookup_method(type(real), name)
            if m is not None:
                return BoundMethod(obj, m)
            try:
                val = getattr(real, name)
            except AttributeError:
                return _NOTFOUND
            if callable(val):
                raise Unsupported("method %s of real %s has no model" % (name, type(real).__name__))
            return self.lift(val)
        if isinstance(obj, ModuleVal):
            mod = obj.mod
            if self.loader.interpretable(mod.__name__):
                self.loader.module(mod.__name__)
                if not hasattr(mod, name):
                    return _NOTFOUND
                return self.lift(getattr(mod, name))
            m = self.models.module_attr(self, mod, name)
            return m
        if isinstance(obj, ClassVal):
            cls = obj.cls
            f = self.find_class_attr(cls, name)
            if f is _NOTFOUND:
                if name == "__name__":
                    return cls.__name__
                if name == "__qualname__":
                    return cls.__qualname__
                return _NOTFOUND
            k, raw = f
            if isinstance(raw, types.FunctionType):
                fd = self.loader.func_of(raw)
                if fd is None:
                    m = self.models.lookup_method(k, raw.__name__)
                    if m is None:
                        raise Unsupported("function %s.%s" % (k.__name__, raw.__name__))
                    return m
                return FuncVal(fd, None, k, raw.__defaults__, raw.__kwdefaults__)
            if isinstance(raw, (staticmethod, classmethod)):
                return self.bind(f, None, cls)
            if isinstance(raw, property):
                raise Unsupported("property on class")
            if isinstance(raw, (types.MethodDescriptorType, types.WrapperDescriptorType)):
                m = self.models.lookup_method(k, raw.__name__)
                if m is None:
                    raise Unsupported("builtin method %s.%s" % (k.__name__, raw.__name__))
                return m
            return self.lift(raw)
        if isinstance(obj, SuperVal):
            mro = obj.obj.cls.__mro__ if isinstance(obj.obj, SObj) else type(obj.obj.obj).__mro__
            i = mro.index(obj.cls)
            for k in mro[i + 1:]:
                if name in k.__dict__:
                    raw = k.__dict__[name]
                    if self.loader.interpretable(k.__module__):
                        return self.bind((k, raw), obj.obj, k)
                    m = self.models.lookup_method(k, name)
                    if m is not None:
                        return BoundMethod(obj.obj, m)
                    if isinstance(raw, (types.GetSetDescriptorType, types.MemberDescriptorType)) \
                            and isinstance(obj.obj, RealObj):
                        return self.lift(raw.__get__(obj.obj.obj, type(obj.obj.obj)))
                    raise Unsupported("super().%s in %s" % (name, k.__name__))
            return _NOTFOUND
        if isinstance(obj, LoggerVal):
            return Builtin("logger." + name, lambda interp, *a, **k: None)
        m = self.models.value_attr(self, obj, name)
        return m

    def setattr(self, obj, name, val):
        if isinstance(obj, SObj):
            f = self.find_class_attr(obj.cls, name)
            if f is not _NOTFOUND and isinstance(f[1], property):
                prop = f[1]
                if prop.fset is None:
                    self.ctx.raise_builtin(AttributeError, "can't set attribute " + name)
                fd = self.loader.func_of(prop.fset, setter=True)
                if fd is None:
                    raise Unsupported("property setter %s" % name)
                self.call_func(FuncVal(fd, None, f[0], None, None), [obj, val], {})
                return
            obj.fields[name] = val
            return
        raise Unsupported("setattr on %r" % (obj,))

    def instantiate(self, cls, args, kwargs):
        m = self.models.constructor(cls)
        if m is not None:
            return m(self, *args, **kwargs)
        if not self.loader.interpretable(cls.__module__):
            if isinstance(cls, type) and issubclass(cls, BaseException):
                return SObj(cls, {"args": tuple(args)})
            raise Unsupported("constructor of %s.%s" % (cls.__module__, cls.__name__))
        obj = SObj(cls)
        init = self.find_class_attr(cls, "__init__")
        if init is not _NOTFOUND and self.loader.interpretable(init[0].__module__):
            self.call(self.bind(init, obj, cls), args, kwargs)
        else:
            if issubclass(cls, BaseException):
                obj.fields["args"] = tuple(args)
            elif init is not _NOTFOUND and init[0] is not object:
                mi = self.models.lookup_method(init[0], "__init__")
                if mi is None:
                    raise Unsupported("__init__ of base %s" % init[0].__name__)
                mi.fn(self, obj, *args, **kwargs)
        if issubclass(cls, BaseException) and "args" not in obj.fields:
            obj.fields["args"] = tuple(args)
        return obj

    def isinstance_(self, v, cls):
        """cls: real class or tuple of them (lifted ClassVal)."""
        if isinstance(cls, tuple):
            return any(self.isinstance_(v, c) for c in cls)
        if isinstance(cls, ClassVal):
            cls = cls.cls
        if isinstance(cls, Builtin):
            cls = {"int": int, "bool": bool, "bytes": bytes, "bytearray": bytearray, "str": str, "float": float,
                   "list": list, "dict": dict, "tuple": tuple, "slice": slice, "range": range,
                   "memoryview": memoryview}.get(cls.name, None)
            if cls is None:
                raise Unsupported("isinstance against model")
        if isinstance(v, SObj):
            return issubclass(v.cls, cls)
        if isinstance(v, RealObj):
            return isinstance(v.obj, cls)
        if isinstance(v, (SBool, bool)):
            return cls in (bool, int, object)
        if isinstance(v, (SInt,)):
            return cls in (int, object)
        if isinstance(v, int):
            return cls in (int, object)
        if isinstance(v, (SBytes, LBytes)):
            k = {"bytes": bytes, "bytearray": bytearray, "memoryview": memoryview}[v.kind]
            return cls is object or issubclass(k, cls)
        if isinstance(v, SList):
            return cls in (list, object)
        if isinstance(v, SDict):
            return cls in (dict, object) or cls.__name__ in ("Mapping", "MutableMapping")
        if isinstance(v, Opaque):
            if v.what == "str":
                return cls in (str, object)
            if v.what == "float":
                return cls in (float, object)
            raise Unsupported("isinstance of opaque")
        if isinstance(v, (FuncVal, BoundMethod, Builtin, ClassVal)):
            return cls is object
        return isinstance(v, cls)

    # ------------------------------------------------------------------ statements
    def exec_block(self, stmts, fr):
        for s in stmts:
            self.exec_stmt(s, fr)

    def exec_stmt(self, node, fr):
        self.steps += 1
        self.ctx.site = (fr.fd.qualname, getattr(node, "lineno", 0))
        if self.steps > self.max_steps:
            raise Unsupported("step budget exceeded")
        if self.steps % 256 == 0 and self.ctx.deadline is not None:
            import time
            if time.time() > self.ctx.deadline:
                raise Unsupported("time budget exceeded inside one path (non-terminating or very long execution)")
        m = getattr(self, "s_" + type(node).__name__, None)
        if m is None:
            raise Unsupported("statement %s" % type(node).__name__)
        return m(node, fr)

    def s_Expr(self, node, fr):
        v = node.value
        if isinstance(v, ast.Constant):
            return
        # logger calls have no effect (A7), but their arguments are evaluated for the exceptions they can raise
        # (e.g. a KeyError from a table lookup inside the call); an argument outside the subset is skipped
        if isinstance(v, ast.Call) and isinstance(v.func, ast.Attribute) and isinstance(v.func.value, ast.Name) \
                and v.func.value.id in ("logger", "logging", "log"):
            for a in list(v.args) + [k.value for k in v.keywords]:
                try:
                    self.eval(a, fr)
                except Unsupported:
                    pass
            return
        self.eval(v, fr)

    def s_Pass(self, node, fr):
        return

    def s_Import(self, node, fr):
        import importlib
        for a in node.names:
            m = importlib.import_module(a.name)
            fr.locals[(a.asname or a.name).split(".")[0]] = ModuleVal(m if a.asname else
                                                                      importlib.import_module(a.name.split(".")[0]))

    def s_ImportFrom(self, node, fr):
        import importlib
        m = importlib.import_module(node.module)
        for a in node.names:
            fr.locals[a.asname or a.name] = self.getattr(ModuleVal(m), a.name)

    def s_Return(self, node, fr):
        raise ReturnEx(self.eval(node.value, fr) if node.value is not None else None)

    def s_Break(self, node, fr):
        raise BreakEx()

    def s_Continue(self, node, fr):
        raise ContinueEx()

    def s_Assert(self, node, fr):
        if not truth(self.eval(node.test, fr)):
            self.ctx.raise_builtin(AssertionError)

    def s_Global(self, node, fr):
        raise Unsupported("global statement")

    def s_Nonlocal(self, node, fr):
        raise Unsupported("nonlocal statement")

    def s_Assign(self, node, fr):
        v = self.eval(node.value, fr)
        for t in node.targets:
            self.assign(t, v, fr)

    def s_AnnAssign(self, node, fr):
        if node.value is not None:
            self.assign(node.target, self.eval(node.value, fr), fr)

    def s_AugAssign(self, node, fr):
        op = _OPS[type(node.op)]
        t = node.target
        if isinstance(t, ast.Name):
            cur = self.load_name(t.id, fr)
            fr.locals[t.id] = self.binary(op, cur, self.eval(node.value, fr), inplace=True)
        elif isinstance(t, ast.Attribute):
            o = self.eval(t.value, fr)
            an = self.mangle(t.attr, fr)
            cur = self.getattr(o, an)
            self.setattr(o, an, self.binary(op, cur, self.eval(node.value, fr), inplace=True))
        elif isinstance(t, ast.Subscript):
            o = self.eval(t.value, fr)
            k = self.eval_slice(t.slice, fr)
            cur = self.getitem(o, k)
            self.setitem(o, k, self.binary(op, cur, self.eval(node.value, fr), inplace=True))
        else:
            raise Unsupported("augassign target")

    def s_Delete(self, node, fr):
        for t in node.targets:
            if isinstance(t, ast.Subscript):
                o = self.eval(t.value, fr)
                k = self.eval_slice(t.slice, fr)
                self.delitem(o, k)
            elif isinstance(t, ast.Name):
                fr.locals.pop(t.id, None)
            elif isinstance(t, ast.Attribute):
                o = self.eval(t.value, fr)
                if isinstance(o, SObj) and t.attr in o.fields:
                    del o.fields[t.attr]
                else:
                    self.ctx.raise_builtin(AttributeError, t.attr)
            else:
                raise Unsupported("del target")

    def _only_safe_logging(self, stmts):
        """block consists only of logger calls whose arguments are names / attributes / constants (cannot raise)"""
        for st in stmts:
            if not (isinstance(st, ast.Expr) and isinstance(st.value, ast.Call) and isinstance(st.value.func, ast.Attribute)
                    and isinstance(st.value.func.value, ast.Name) and st.value.func.value.id in ("logger", "logging", "log")):
                return False
            for a in list(st.value.args) + [k.value for k in st.value.keywords]:
                for n in ast.walk(a):
                    if not isinstance(n, (ast.Name, ast.Attribute, ast.Constant, ast.Load)):
                        return False
        return True

    def s_If(self, node, fr):
        if self._only_safe_logging(node.body) and self._only_safe_logging(node.orelse):
            # both branches are effect-free (A7) and cannot raise: evaluate the test for its own exceptions, do not fork
            v = self.eval(node.test, fr)
            if isinstance(v, (SObj,)):
                truth(v)
            return
        if truth(self.eval(node.test, fr)):
            self.exec_block(node.body, fr)
        else:
            self.exec_block(node.orelse, fr)

    def s_While(self, node, fr):
        n = 0
        spec = self.loop_specs.get((fr.fd.qualname, self._loop_ordinal(node, fr)))
        if spec is not None and self.ctx.mode == "sym":
            return self.while_with_invariant(node, fr, spec)
        cut = self.loop_cuts.get(fr.fd.qualname)
        while True:
            if not truth(self.eval(node.test, fr)):
                self.exec_block(node.orelse, fr)
                return
            n += 1
            if cut is not None and n > cut:
                # inductive cut declared by the contract: the state at the loop head is again a member of the
                # contract's pre-state family, so later iterations are covered by the first `cut` ones
                self.ctx.notes.append("loop of %s cut after %d iteration(s)" % (fr.fd.qualname, cut))
                raise PathAbort()
            if n > self.loop_bound:
                raise Unsupported("while loop exceeds unrolling budget (needs invariant)")
            try:
                self.exec_block(node.body, fr)
            except BreakEx:
                return
            except ContinueEx:
                continue

    def _loop_ordinal(self, node, fr):
        loops = [n for n in ast.walk(fr.fd.node) if isinstance(n, (ast.While, ast.For))]
        loops.sort(key=lambda n: (n.lineno, n.col_offset))
        return loops.index(node)

    def while_with_invariant(self, node, fr, spec):
        """Cut the loop by its inductive invariant (DESIGN §2.7):
        loop-init  : invariant holds on entry;
        loop-step  : from an arbitrary state satisfying invariant and guard, one iteration re-establishes it and
                     decreases the variant (then the path ends);
        exit       : execution continues from an arbitrary state satisfying invariant and not guard."""
        ctx = self.ctx
        tag = "%s#%d" % (fr.fd.qualname, self._loop_ordinal(node, fr))

        def parts(v):
            """an invariant may be given as {name: conjunct}: each conjunct becomes its own obligation"""
            if isinstance(v, dict):
                return [(":" + k, truth_val(c)) for k, c in v.items()]
            return [("", truth_val(v))]
        for nm, c in parts(spec.inv(self, fr)):
            ctx.side_obligations.append(("loop-init:" + tag + nm, c, list(ctx.pc)))
        V.HAVOC_ACTIVE[0] = True
        try:
            spec.havoc(self, fr)
        finally:
            V.HAVOC_ACTIVE[0] = False
        for nm, c in parts(spec.inv(self, fr)):
            ctx.assume(c)
        if truth(self.eval(node.test, fr)):
            v0 = spec.variant(self, fr) if spec.variant else None
            try:
                self.exec_block(node.body, fr)
            except ContinueEx:
                pass
            except BreakEx:
                return
            for nm, c in parts(spec.inv(self, fr)):
                ctx.side_obligations.append(("loop-step:" + tag + nm, c, list(ctx.pc)))
            if v0 is not None:
                v1 = spec.variant(self, fr)
                ctx.side_obligations.append(("loop-variant:" + tag,
                                             And(compare("<", v1, v0), compare(">=", v0, 0)), list(ctx.pc)))
            ctx.notes.append("loop %s: one symbolic iteration checked against its invariant" % tag)
            raise PathAbort()
        if node.orelse:
            self.exec_block(node.orelse, fr)

    def iterate(self, it):
        """engine iterable -> python list of items (concrete length only)."""
        if isinstance(it, SList):
            if it.base is not None:
                raise Unsupported("iteration over a list with unknown prefix (only `for x in L: x(args)` is summarised)")
            return list(it.items)
        if isinstance(it, (tuple, list)):
            return list(it)
        if isinstance(it, SDict):
            return list(it.whole("iteration").keys())
        if isinstance(it, range):
            return list(it)
        if isinstance(it, str):
            return list(it)
        if isinstance(it, SBytes):
            return [byte_to_int(x) for x in it.items]
        if isinstance(it, (frozenset, set)):
            return list(it)
        if isinstance(it, _RangeVal):
            return it.expand(self)
        if isinstance(it, SObj):
            f = self.find_class_attr(it.cls, "__iter__")
            if f is not _NOTFOUND:
                r = self.call(self.bind(f, it, it.cls), [], {})
                return self.iterate(r)
        if isinstance(it, _IterVal):
            return list(it.items)
        if it is None:
            self.ctx.raise_builtin(TypeError, "'NoneType' object is not iterable")
        h = self.models.iterate(self, it)
        if h is not None:
            return h
        raise Unsupported("iteration over %r" % (type(it).__name__,))

    def for_with_invariant(self, node, fr, spec, itv):
        """`for x in L` over a list of symbolic length, cut by an inductive invariant over the ghost index `$i`
        (number of completed iterations): init, one symbolic iteration, exit with $i == len(L); variant len(L) - $i."""
        ctx = self.ctx
        tag = "%s#%d" % (fr.fd.qualname, self._loop_ordinal(node, fr))

        def parts(v):
            if isinstance(v, dict):
                return [(":" + k, truth_val(c)) for k, c in v.items()]
            return [("", truth_val(v))]
        fr.locals["$i"] = 0
        fr.locals["$iter"] = itv
        for nm, c in parts(spec.inv(self, fr)):
            ctx.side_obligations.append(("loop-init:" + tag + nm, c, list(ctx.pc)))
        V.HAVOC_ACTIVE[0] = True
        try:
            spec.havoc(self, fr)
        finally:
            V.HAVOC_ACTIVE[0] = False
        itv = fr.locals["$iter"]
        if not (isinstance(itv, SList) and isinstance(itv.base, SegBase) and not itv.items):
            raise Unsupported("for-loop invariant needs a list described by a SegBase after havoc")
        i = fr.locals["$i"]
        ctx.assume(And(compare(">=", i, 0), compare("<=", i, itv.base.length)))
        for nm, c in parts(spec.inv(self, fr)):
            ctx.assume(c)
        if truth(compare("<", i, itv.base.length)):
            self.assign(node.target, itv.base.item(i), fr)
            try:
                self.exec_block(node.body, fr)
            except ContinueEx:
                pass
            except BreakEx:
                return
            fr.locals["$i"] = binop("+", i, 1)
            for nm, c in parts(spec.inv(self, fr)):
                ctx.side_obligations.append(("loop-step:" + tag + nm, c, list(ctx.pc)))
            ctx.notes.append("loop %s: one symbolic iteration checked against its invariant" % tag)
            raise PathAbort()
        # exit: $i <= len and not $i < len; stated as an equation so that the solver can eliminate $i
        ctx.assume(compare("==", i, itv.base.length))
        fr.locals.pop("$i", None)
        fr.locals.pop("$iter", None)
        if node.orelse:
            self.exec_block(node.orelse, fr)

    def s_For(self, node, fr):
        itv = self.eval(node.iter, fr)
        spec = self.loop_specs.get((fr.fd.qualname, self._loop_ordinal(node, fr)))
        if spec is not None and self.ctx.mode == "sym" and isinstance(itv, SList) and itv.base is not None:
            return self.for_with_invariant(node, fr, spec, itv)
        if isinstance(itv, SList) and itv.base is not None:
            # summarised pattern: `for cb in L: cb(<loop-invariant args>)` over an unknown prefix:
            # every element of the prefix is called once, in order (assumption A5: callbacks do not re-enter)
            b = node.body
            ok = (len(b) == 1 and isinstance(b[0], ast.Expr) and isinstance(b[0].value, ast.Call)
                  and isinstance(node.target, ast.Name) and isinstance(b[0].value.func, ast.Name)
                  and b[0].value.func.id == node.target.id and not node.orelse
                  and not any(isinstance(n, ast.Name) and n.id == node.target.id
                              for a in list(b[0].value.args) + [k.value for k in b[0].value.keywords]
                              for n in ast.walk(a)))
            call = b[0].value if ok else None
            if not ok and getattr(itv.base, "silent", False):
                # second summarised pattern, for a prefix whose elements all answer None (contract family):
                #     for f in L:  r = f(<loop-invariant args>);  if r is not None: <anything>
                # each prefix element is called once, in order, and the `if` is never taken for it; `r` must be dead
                # outside the loop (an empty prefix leaves it unbound, a non-empty one leaves None)
                call = self._silent_prefix_call(node, fr)
                ok = call is not None
            if not ok:
                raise Unsupported("loop over a list with unknown prefix is not of the form `for f in L: f(args)`")
            args = tuple(self.eval(a, fr) for a in call.args)
            if any(k.arg is None for k in call.keywords):
                raise Unsupported("** in summarised callback loop")
            kw = tuple(sorted((k.arg, self.eval(k.value, fr)) for k in call.keywords))
            if kw:
                self.ctx.emit("foreach-call", itv.base.name, args, kw)
            else:
                self.ctx.emit("foreach-call", itv.base.name, args)
            items = list(itv.items)
        else:
            items = self.iterate(itv)
        for x in items:
            self.assign(node.target, x, fr)
            try:
                self.exec_block(node.body, fr)
            except BreakEx:
                return
            except ContinueEx:
                continue
        self.exec_block(node.orelse, fr)

    def _silent_prefix_call(self, node, fr):
        b = node.body
        if not (len(b) == 2 and isinstance(b[0], ast.Assign) and len(b[0].targets) == 1 and isinstance(b[0].targets[0], ast.Name)
                and isinstance(b[0].value, ast.Call) and isinstance(node.target, ast.Name)
                and isinstance(b[0].value.func, ast.Name) and b[0].value.func.id == node.target.id and not node.orelse
                and isinstance(b[1], ast.If) and not b[1].orelse):
            return None
        r = b[0].targets[0].id
        t = b[1].test
        if not (isinstance(t, ast.Compare) and isinstance(t.left, ast.Name) and t.left.id == r and len(t.ops) == 1
                and isinstance(t.ops[0], ast.IsNot) and isinstance(t.comparators[0], ast.Constant)
                and t.comparators[0].value is None):
            return None
        call = b[0].value
        for a in list(call.args) + [k.value for k in call.keywords]:
            if any(isinstance(n, ast.Name) and n.id in (node.target.id, r) for n in ast.walk(a)):
                return None
        inside = set(id(n) for n in ast.walk(node))
        for n in ast.walk(fr.fd.node):
            if isinstance(n, ast.Name) and n.id in (r, node.target.id) and id(n) not in inside:
                return None             # result / loop variable used outside the loop: not summarised
        return call

    def s_With(self, node, fr):
        mgrs = []
        for item in node.items:
            m = self.eval(item.context_expr, fr)
            ent = self.getattr_opt(m, "__enter__")
            if ent is _NOTFOUND:
                raise Unsupported("with on %r" % (m,))
            v = self.call(ent, [], {})
            if item.optional_vars is not None:
                self.assign(item.optional_vars, v, fr)
            mgrs.append(m)
        try:
            self.exec_block(node.body, fr)
        except PyRaise as e:
            for m in reversed(mgrs):
                r = self.call(self.getattr(m, "__exit__"), [ClassVal(e.exc.cls), e.exc, None], {})
                if truth(r):
                    return
            raise
        except (ReturnEx, BreakEx, ContinueEx):
            for m in reversed(mgrs):
                self.call(self.getattr(m, "__exit__"), [None, None, None], {})
            raise
        else:
            for m in reversed(mgrs):
                self.call(self.getattr(m, "__exit__"), [None, None, None], {})

    def s_Raise(self, node, fr):
        if node.exc is None:
            cur = fr.locals.get("$exc")
            if cur is None:
                self.ctx.raise_builtin(RuntimeError, "No active exception to reraise")
            raise PyRaise(cur)
        e = self.eval(node.exc, fr)
        if isinstance(e, ClassVal):
            e = self.instantiate(e.cls, [], {})
        if not (isinstance(e, SObj) and issubclass(e.cls, BaseException)):
            self.ctx.raise_builtin(TypeError, "exceptions must derive from BaseException")
        if node.cause is not None:
            e.fields["__cause__"] = self.eval(node.cause, fr)
        raise PyRaise(e)

    def exc_matches(self, exc, spec):
        if isinstance(spec, tuple):
            return any(self.exc_matches(exc, s) for s in spec)
        if isinstance(spec, ClassVal):
            return issubclass(exc.cls, spec.cls)
        raise Unsupported("except spec %r" % (spec,))

    def s_Try(self, node, fr):
        try:
            try:
                self.exec_block(node.body, fr)
            except PyRaise as e:
                handled = False
                for h in node.handlers:
                    if h.type is None or self.exc_matches(e.exc, self.eval(h.type, fr)):
                        handled = True
                        saved = fr.locals.get("$exc")
                        fr.locals["$exc"] = e.exc
                        if h.name:
                            fr.locals[h.name] = e.exc
                        try:
                            self.exec_block(h.body, fr)
                        finally:
                            fr.locals["$exc"] = saved
                            if h.name:
                                fr.locals.pop(h.name, None)
                        break
                if not handled:
                    raise
            else:
                self.exec_block(node.orelse, fr)
        finally:
            if node.finalbody:
                self.exec_block(node.finalbody, fr)

    def s_FunctionDef(self, node, fr):
        from .loader import FuncDef
        fd = FuncDef(node, fr.fd.module, fr.fd.qualname + ".<locals>." + node.name, None, fr.fd.file)
        defaults = [self.eval(d, fr) for d in node.args.defaults]
        kwd = {"__posdefaults__": defaults}
        for ka, d in zip(node.args.kwonlyargs, node.args.kw_defaults):
            if d is not None:
                kwd[ka.arg] = self.eval(d, fr)
        if node.decorator_list:
            raise Unsupported("decorated nested function")
        fr.locals[node.name] = FuncVal(fd, fr, fr.defcls, None, kwd)

    def s_ClassDef(self, node, fr):
        raise Unsupported("nested class")

    # ------------------------------------------------------------------ assignment targets
    def assign(self, t, v, fr):
        if isinstance(t, ast.Name):
            fr.locals[t.id] = v
        elif isinstance(t, ast.Attribute):
            self.setattr(self.eval(t.value, fr), self.mangle(t.attr, fr), v)
        elif isinstance(t, ast.Subscript):
            o = self.eval(t.value, fr)
            self.setitem(o, self.eval_slice(t.slice, fr), v)
        elif isinstance(t, (ast.Tuple, ast.List)):
            items = self.iterate(v)
            star = [i for i, e in enumerate(t.elts) if isinstance(e, ast.Starred)]
            if star:
                raise Unsupported("starred assignment")
            if len(items) != len(t.elts):
                self.ctx.raise_builtin(ValueError, "unpack: expected %d values, got %d" % (len(t.elts), len(items)))
            for e, x in zip(t.elts, items):
                self.assign(e, x, fr)
        else:
            raise Unsupported("assign target %s" % type(t).__name__)

    # ------------------------------------------------------------------ names
    def load_name(self, name, fr):
        f = fr
        while f is not None:
            if name in f.locals:
                return f.locals[name]
            f = f.closure
        if name in fr.globals:
            return self.lift(fr.globals[name])
        m = self.models.builtin(name)
        if m is not _NOTFOUND and m is not None:
            return m
        if name in BUILTIN_EXC:
            return ClassVal(BUILTIN_EXC[name])
        self.ctx.raise_builtin(NameError, name)

    # ------------------------------------------------------------------ expressions
    def eval(self, node, fr):
        m = getattr(self, "e_" + type(node).__name__, None)
        if m is None:
            raise Unsupported("expression %s" % type(node).__name__)
        return m(node, fr)

    def e_Constant(self, node, fr):
        v = node.value
        if isinstance(v, bytes):
            return SBytes(list(v), False)
        if v is Ellipsis:
            raise Unsupported("Ellipsis")
        return v

    def e_Name(self, node, fr):
        return self.load_name(node.id, fr)

    def mangle(self, name, fr):
        """private name mangling of `__x` inside a class body"""
        if name.startswith("__") and not name.endswith("__"):
            f = fr
            while f is not None and f.fd.cls_name is None and f.closure is not None:
                f = f.closure
            c = f.fd.cls_name if f is not None else None
            if c:
                return "_" + c.lstrip("_") + name
        return name

    def e_Attribute(self, node, fr):
        return self.getattr(self.eval(node.value, fr), self.mangle(node.attr, fr))

    def e_Tuple(self, node, fr):
        out = []
        for e in node.elts:
            if isinstance(e, ast.Starred):
                out.extend(self.iterate(self.eval(e.value, fr)))
            else:
                out.append(self.eval(e, fr))
        return tuple(out)

    def e_List(self, node, fr):
        return SList(self.e_Tuple(node, fr))

    def e_Set(self, node, fr):
        items = self.e_Tuple(node, fr)
        if any(is_sym(x) for x in items):
            raise Unsupported("set of symbolic values")
        return frozenset(items)

    def e_Dict(self, node, fr):
        d = {}
        for k, v in zip(node.keys, node.values):
            if k is None:
                raise Unsupported("dict unpacking")
            kk = self.eval(k, fr)
            if is_sym(kk):
                raise Unsupported("symbolic dict key in literal")
            d[kk] = self.eval(v, fr)
        return SDict(d)

    _SIMPLE_BIN = (ast.Add, ast.Sub, ast.Mult, ast.BitAnd, ast.BitOr, ast.BitXor)

    def _simple_operand(self, e):
        """side-effect free and cheap: names, attribute chains, constants, + - * & | ^, unary - ~, len(simple)"""
        if isinstance(e, (ast.Name, ast.Constant)):
            return True
        if isinstance(e, ast.Attribute):
            return self._simple_operand(e.value)
        if isinstance(e, ast.BinOp):
            return isinstance(e.op, self._SIMPLE_BIN) and self._simple_operand(e.left) and self._simple_operand(e.right)
        if isinstance(e, ast.UnaryOp):
            return isinstance(e.op, (ast.USub, ast.Invert, ast.UAdd)) and self._simple_operand(e.operand)
        if isinstance(e, ast.Call):
            return (isinstance(e.func, ast.Name) and e.func.id == "len" and len(e.args) == 1 and not e.keywords
                    and self._simple_operand(e.args[0]))
        return False

    def _pure_bool(self, e):
        """syntactically pure boolean expression: comparisons of simple operands combined by and / or / not"""
        memo = self.__dict__.setdefault("_pure_memo", {})
        k = id(e)
        if k not in memo:
            if isinstance(e, ast.Compare):
                r = (all(isinstance(o, (ast.Eq, ast.NotEq, ast.Lt, ast.LtE, ast.Gt, ast.GtE, ast.Is, ast.IsNot)) for o in e.ops)
                     and self._simple_operand(e.left) and all(self._simple_operand(c) for c in e.comparators))
            elif isinstance(e, ast.BoolOp):
                r = all(self._pure_bool(v) for v in e.values)
            elif isinstance(e, ast.UnaryOp) and isinstance(e.op, ast.Not):
                r = self._pure_bool(e.operand)
            else:
                r = False
            memo[k] = (r, e)        # keep e alive so that id() stays unique
        return memo[k][0]

    def _merged_bool(self, node, fr):
        """a pure `a and b` / `a or b` whose operands all evaluate to booleans is one term instead of a fork per
        operand (same value on every path; the operands have no effects).  -> SBool | bool | None (not applicable)"""
        isand = isinstance(node.op, ast.And)
        mark = (len(self.ctx.pc), len(self.ctx.exact), self.ctx.pos, len(self.ctx.decisions))
        vals = []
        try:
            for e in node.values:
                v = self.eval(e, fr)
                if not isinstance(v, (bool, SBool)):
                    return None
                if isinstance(v, bool):
                    if v != isand:
                        # a concrete operand decides; operands before it were symbolic booleans without effects
                        return v if not vals else (And(vals + [False]) if isand else Or(vals + [True]))
                    continue
                vals.append(v)
        except (PyRaise, Unsupported):
            return None
        finally:
            if (len(self.ctx.pc), len(self.ctx.exact), self.ctx.pos, len(self.ctx.decisions))[0::2] != mark[0::2]:
                raise Unsupported("pure boolean expression changed the path state")
        if not vals:
            return isand
        return And(vals) if isand else Or(vals)

    def e_BoolOp(self, node, fr):
        isand = isinstance(node.op, ast.And)
        if self.ctx.mode == "sym" and self._pure_bool(node):
            r = self._merged_bool(node, fr)
            if r is not None:
                return r
        v = None
        for e in node.values:
            v = self.eval(e, fr)
            t = truth(v)
            if isand and not t:
                return v
            if (not isand) and t:
                return v
        return v

    def e_UnaryOp(self, node, fr):
        v = self.eval(node.operand, fr)
        if isinstance(node.op, ast.Not):
            return Not(truth_val(v)) if not isinstance(v, (SBytes, LBytes, SList, SDict)) else Not(v.py_truth())
        op = {ast.USub: "-", ast.Invert: "~", ast.UAdd: "+"}[type(node.op)]
        if isinstance(v, (SInt, SBool, int, float)):
            if isinstance(v, SBool) and op == "~":
                v = mk_int(bv(v))
            return unop(op, v)
        self.ctx.raise_builtin(TypeError, "bad operand type for unary %s" % op)

    def e_IfExp(self, node, fr):
        c = self.eval(node.test, fr)
        if (self.ctx.mode == "sym" and isinstance(c, SBool) and self._simple_operand(node.body)
                and self._simple_operand(node.orelse)):
            # `a if c else b` over effect-free integer operands: one ite term instead of a fork
            try:
                a = self.eval(node.body, fr)
                b = self.eval(node.orelse, fr)
                if all(isinstance(x, (int, SInt, SBool)) and not isinstance(x, V.STime) for x in (a, b)):
                    if isinstance(a, (bool, SBool)) != isinstance(b, (bool, SBool)):
                        a = mk_int(bv(a)) if isinstance(a, (bool, SBool)) else a
                        b = mk_int(bv(b)) if isinstance(b, (bool, SBool)) else b
                    return ite(c, a, b)
            except (PyRaise, Unsupported):
                pass
        if truth(c):
            return self.eval(node.body, fr)
        return self.eval(node.orelse, fr)

    def e_BinOp(self, node, fr):
        a = self.eval(node.left, fr)
        b = self.eval(node.right, fr)
        return self.binary(_OPS[type(node.op)], a, b)

    def binary(self, op, a, b, inplace=False):
        if isinstance(a, V.STime) or isinstance(b, V.STime):
            if op in ("+", "-"):
                def us(x):
                    if isinstance(x, V.STime):
                        return SInt(x.t)
                    if isinstance(x, bool) or is_sym(x):
                        raise Unsupported("time arithmetic with %r" % (x,))
                    if isinstance(x, (int, float)):
                        return int(round(x * 1000000))
                    raise Unsupported("time arithmetic with %r" % (type(x).__name__,))
                r = binop(op, us(a), us(b))
                return V.STime(bv(r))
            raise Unsupported("time arithmetic %s" % op)
        if op == "/" and is_sym(a) and isinstance(b, (int, float)) and not isinstance(b, bool) \
                and b > 0 and float(b).is_integer():
            return Opaque("ratio", (a, int(b)))
        if isinstance(a, float) or isinstance(b, float):
            if isinstance(a, (int, float)) and isinstance(b, (int, float)):
                return V._native_binop(op, a, b)
            if is_sym(a) or is_sym(b):
                if op in ("+", "-", "*", "/"):
                    return Opaque("float")       # value not reasoned about (floats are opaque)
                raise Unsupported("float arithmetic with symbolic int")
        if is_intlike(a) and is_intlike(b):
            return binop(op, a, b)
        if isinstance(a, (SBytes, LBytes)) or isinstance(b, (SBytes, LBytes)):
            return self.models.bytes_binop(self, op, a, b, inplace)
        if isinstance(a, str) and op == "%":
            return self.models.str_percent(self, a, b)
        if isinstance(a, str) and isinstance(b, str) and op == "+":
            return a + b
        if isinstance(a, str) and isinstance(b, int) and op == "*":
            return a * b
        if isinstance(a, Opaque) or isinstance(b, Opaque):
            if (isinstance(a, Opaque) and a.what == "str") or (isinstance(b, Opaque) and b.what == "str"):
                if op == "+":
                    return Opaque("str")
            if (isinstance(a, Opaque) and a.what == "float") or (isinstance(b, Opaque) and b.what == "float"):
                if op in ("<<", ">>", "&", "|", "^"):
                    self.ctx.raise_builtin(TypeError, "unsupported operand type(s) for %s: float" % op)
                if op in ("+", "-", "*", "/"):
                    return Opaque("float")
            raise Unsupported("binop on opaque")
        if isinstance(a, tuple) and isinstance(b, tuple) and op == "+":
            return a + b
        if isinstance(a, SList) and isinstance(b, SList) and op == "+":
            if inplace:
                a.items.extend(b.items)
                return a
            return SList(a.items + b.items)
        if isinstance(a, SList) and is_intlike(b) and op == "*":
            n = self.ctx.choose(b, range(0, 65))
            return SList(a.items * n)
        if isinstance(a, (tuple,)) and isinstance(b, int) and op == "*":
            return a * b
        if isinstance(a, float) and isinstance(b, float):
            return V._native_binop(op, a, b)
        if a is None or b is None or isinstance(a, str) or isinstance(b, str):
            self.ctx.raise_builtin(TypeError, "unsupported operand type(s) for %s: %s and %s"
                                   % (op, self.tname(a), self.tname(b)))
        raise Unsupported("binop %s on %s, %s" % (op, type(a).__name__, type(b).__name__))

    def tname(self, v):
        if v is None:
            return "NoneType"
        if isinstance(v, (SInt,)):
            return "int"
        if isinstance(v, SBool):
            return "bool"
        if isinstance(v, (SBytes, LBytes)):
            return v.kind
        if isinstance(v, SObj):
            return v.cls.__name__
        return type(v).__name__

    def e_Compare(self, node, fr):
        left = self.eval(node.left, fr)
        result = True
        for op, rn in zip(node.ops, node.comparators):
            right = self.eval(rn, fr)
            r = self.compare_op(op, left, right)
            if len(node.ops) == 1:
                return r
            if not truth(r):
                return False
            left = right
        return result

    def compare_op(self, op, a, b):
        if isinstance(op, (ast.Is, ast.IsNot)):
            r = self.is_(a, b)
            return r if isinstance(op, ast.Is) else Not(r)
        if isinstance(op, (ast.In, ast.NotIn)):
            r = self.contains(b, a)
            return r if isinstance(op, ast.In) else Not(r)
        o = {ast.Eq: "==", ast.NotEq: "!=", ast.Lt: "<", ast.LtE: "<=", ast.Gt: ">", ast.GtE: ">="}[type(op)]
        if o in ("==", "!="):
            r = self.equals(a, b)
            return r if o == "==" else Not(r)
        if is_intlike(a) and is_intlike(b):
            return compare(o, a, b)
        if isinstance(a, (int, float)) and isinstance(b, (int, float)):
            return compare(o, a, b) if not (isinstance(a, float) or isinstance(b, float)) else \
                {"<": a < b, "<=": a <= b, ">": a > b, ">=": a >= b}[o]
        if isinstance(a, str) and isinstance(b, str):
            return {"<": a < b, "<=": a <= b, ">": a > b, ">=": a >= b}[o]
        if isinstance(a, Opaque) or isinstance(b, Opaque):
            raise Unsupported("ordering on opaque value")
        if is_sym(a) and isinstance(b, float) or is_sym(b) and isinstance(a, float):
            raise Unsupported("symbolic int vs float ordering")
        if a is None or b is None or isinstance(a, str) != isinstance(b, str):
            self.ctx.raise_builtin(TypeError, "'%s' not supported between instances of '%s' and '%s'"
                                   % (o, self.tname(a), self.tname(b)))
        raise Unsupported("ordering %s on %s,%s" % (o, type(a).__name__, type(b).__name__))

    def is_(self, a, b):
        if a is None or b is None:
            return a is b
        if isinstance(a, bool) and isinstance(b, bool):
            return a == b
        if isinstance(a, ClassVal) and isinstance(b, ClassVal):
            return a.cls is b.cls
        if isinstance(a, (SObj, SList, SDict, SBytes, LBytes)) or isinstance(b, (SObj, SList, SDict, SBytes, LBytes)):
            return a is b
        if isinstance(a, RealObj) and isinstance(b, RealObj):
            return a.obj is b.obj
        if isinstance(a, (SBool, SInt)) or isinstance(b, (SBool, SInt)):
            # `x is True` style on symbolic bools
            if isinstance(a, (SBool, bool)) and isinstance(b, (SBool, bool)):
                return compare("==", a, b)
            if isinstance(a, (SBool, bool)) != isinstance(b, (SBool, bool)):
                return False
            raise Unsupported("identity on symbolic ints")
        return a is b

    def equals(self, a, b):
        if isinstance(a, (SBool, bool)) and isinstance(b, (SBool, bool)):
            return compare("==", a, b)
        if is_intlike(a) and is_intlike(b):
            return compare("==", a, b)
        if isinstance(a, (SBytes, LBytes)) or isinstance(b, (SBytes, LBytes)):
            if isinstance(a, SBytes) and isinstance(b, SBytes):
                return bytes_eq(a, b)
            if not isinstance(a, (SBytes, LBytes)) or not isinstance(b, (SBytes, LBytes)):
                return False
            return self.models.lbytes_eq(self, a, b)
        if isinstance(a, tuple) and isinstance(b, tuple):
            if len(a) != len(b):
                return False
            return And([truth_val(self.equals(x, y)) for x, y in zip(a, b)])
        if isinstance(a, SList) and isinstance(b, SList):
            if (a.base is None) != (b.base is None) or (a.base is not None and a.base.name != b.base.name):
                if a.base is None and b.base is None:
                    pass
                else:
                    raise Unsupported("equality of lists with different unknown prefixes")
            if len(a.items) != len(b.items):
                return False
            return And([truth_val(self.equals(x, y)) for x, y in zip(a.items, b.items)])
        if isinstance(a, SObj) and not isinstance(b, SObj):
            if self.find_class_attr(a.cls, "__eq__") is _NOTFOUND or \
                    self.find_class_attr(a.cls, "__eq__")[0] is object:
                return False
        if isinstance(a, SObj):
            f = self.find_class_attr(a.cls, "__eq__")
            if f is not _NOTFOUND and f[0] is not object and self.loader.interpretable(f[0].__module__):
                return truth_val(self.call(self.bind(f, a, a.cls), [b], {}))
            return a is b
        if isinstance(b, SObj):
            return self.equals(b, a)
        if isinstance(a, Opaque) and isinstance(b, Opaque) and a.what == "ratio" and b.what == "ratio":
            return And(compare("==", a.payload[0], b.payload[0]), a.payload[1] == b.payload[1])
        if isinstance(a, Opaque) and a.what == "ratio" and isinstance(b, (int, float)) and not is_sym(a.payload[0]):
            return a.payload[0] / a.payload[1] == b
        if isinstance(b, Opaque) and b.what == "ratio" and isinstance(a, (int, float)):
            return self.equals(b, a)
        if isinstance(a, Opaque) or isinstance(b, Opaque):
            raise Unsupported("equality on opaque value")
        if isinstance(a, (FuncVal, BoundMethod, Builtin)) or isinstance(b, (FuncVal, BoundMethod, Builtin)):
            return self.callable_eq(a, b)
        if isinstance(a, ClassVal) and isinstance(b, ClassVal):
            return a.cls is b.cls
        if isinstance(a, RealObj) and isinstance(b, RealObj):
            return a.obj == b.obj
        if isinstance(a, SDict) and isinstance(b, SDict):
            if set(a.d.keys()) != set(b.d.keys()):
                return False
            return And([truth_val(self.equals(a.d[k], b.d[k])) for k in a.d])
        if is_sym(a) or is_sym(b):
            return False      # int vs non-int kinds
        try:
            return a == b
        except Exception:
            raise Unsupported("equality %r %r" % (a, b))

    def callable_eq(self, a, b):
        if isinstance(a, BoundMethod) and isinstance(b, BoundMethod):
            return (a.self_ is b.self_) and self.callable_eq(a.func, b.func)
        if isinstance(a, FuncVal) and isinstance(b, FuncVal):
            return a.fd is b.fd or (a.fd.module, a.fd.qualname) == (b.fd.module, b.fd.qualname)
        return a is b

    def contains(self, container, x):
        if isinstance(container, (tuple, SList, frozenset, set, list)):
            items = container.items if isinstance(container, SList) else list(container)
            r = Or([truth_val(self.equals(x, y)) for y in items])
            if isinstance(container, SList) and container.base is not None:
                r = Or(self.opaque_contains(container.base, x), r)
            return r
        if isinstance(container, SDict):
            if container.base is not None or (container.sym and is_intlike(x)):
                return self.pdict_lookup(container, x) is not ABSENT
            if is_sym(x):
                return Or([compare("==", x, k) for k in container.d if isinstance(k, int)])
            if isinstance(x, (SBytes, SObj, SList)):
                if isinstance(x, SBytes) and x.is_concrete():
                    return x.to_native() in container.d
                return False
            return x in container.d
        if isinstance(container, Opaque) and container.what == "inttext" and isinstance(x, str):
            if any(ch.isalpha() and ch.upper() not in "ABCDEFX" for ch in x) or "$" in x:
                return False                   # a numeric text contains no such character
            raise Unsupported("substring test on numeric text")
        if isinstance(container, str):
            if isinstance(x, str):
                return x in container
            if isinstance(x, Opaque):
                raise Unsupported("opaque in str")
            self.ctx.raise_builtin(TypeError, "'in <string>' requires string as left operand")
        if isinstance(container, range):
            if is_sym(x):
                if container.step != 1:
                    raise Unsupported("symbolic in stepped range")
                return And(compare(">=", x, container.start), compare("<", x, container.stop))
            return x in container
        if isinstance(container, SObj):
            f = self.find_class_attr(container.cls, "__contains__")
            if f is not _NOTFOUND:
                return truth_val(self.call(self.bind(f, container, container.cls), [x], {}))
            f = self.find_class_attr(container.cls, "__iter__")
            if f is not _NOTFOUND:
                return self.contains(tuple(self.iterate(container)), x)
        if isinstance(container, SBytes):
            if is_intlike(x):
                return Or([compare("==", x, byte_to_int(i)) for i in container.items])
        if container is None:
            self.ctx.raise_builtin(TypeError, "argument of type 'NoneType' is not iterable")
        h = self.models.contains(self, container, x)
        if h is not None:
            return h
        raise Unsupported("contains on %r" % (type(container).__name__,))

    def e_Call(self, node, fr):
        # logger calls used as expressions are dropped as well
        f = node.func
        if isinstance(f, ast.Name) and f.id == "super" and not node.args:
            if fr.defcls is None or fr.self_obj is None:
                raise Unsupported("super() outside method")
            return SuperVal(fr.defcls, fr.self_obj)
        if isinstance(f, ast.Name) and f.id == "super" and len(node.args) == 2 and "super" not in fr.locals:
            c = self.eval(node.args[0], fr)
            o = self.eval(node.args[1], fr)
            if not isinstance(c, ClassVal) or not isinstance(o, (SObj, RealObj)):
                raise Unsupported("super(x, y) with unusual arguments")
            return SuperVal(c.cls, o)
        fn = self.eval(f, fr)
        args = []
        for a in node.args:
            if isinstance(a, ast.Starred):
                args.extend(self.iterate(self.eval(a.value, fr)))
            else:
                args.append(self.eval(a, fr))
        kwargs = {}
        for k in node.keywords:
            if k.arg is None:
                d = self.eval(k.value, fr)
                if not isinstance(d, SDict):
                    raise Unsupported("** of non-dict")
                kwargs.update(d.d)
            else:
                kwargs[k.arg] = self.eval(k.value, fr)
        return self.call(fn, args, kwargs)

    def e_Lambda(self, node, fr):
        from .loader import FuncDef
        fnode = ast.FunctionDef(name="<lambda>", args=node.args, body=[ast.Return(value=node.body)],
                                decorator_list=[], returns=None, type_comment=None)
        ast.fix_missing_locations(fnode)
        fd = FuncDef(fnode, fr.fd.module, fr.fd.qualname + ".<lambda>", None, fr.fd.file)
        defaults = [self.eval(d, fr) for d in node.args.defaults]
        return FuncVal(fd, fr, fr.defcls, None, {"__posdefaults__": defaults})

    def e_JoinedStr(self, node, fr):
        parts = []
        opaque = False
        for v in node.values:
            if isinstance(v, ast.Constant):
                parts.append(v.value)
            else:
                s = self.format_value(v, fr)
                if isinstance(s, Opaque):
                    opaque = True
                parts.append(s)
        if not opaque:
            return "".join(parts)
        if len(parts) == 2 and parts[0] in ("0x", "0X") and isinstance(parts[1], Opaque) and parts[1].what == "hexdigits":
            return Opaque("inttext", (parts[1].payload, "0x%X"))      # f"0x{v:02X}": a numeric text
        return Opaque("str")

    def format_value(self, node, fr):
        val = self.eval(node.value, fr)
        spec = ""
        if node.format_spec is not None:
            spec = self.e_JoinedStr(node.format_spec, fr)
            if isinstance(spec, Opaque):
                raise Unsupported("dynamic format spec")
        conv = node.conversion
        return self.models.format(self, val, spec, conv)

    def e_FormattedValue(self, node, fr):
        return self.format_value(node, fr)

    def e_Subscript(self, node, fr):
        o = self.eval(node.value, fr)
        k = self.eval_slice(node.slice, fr)
        return self.getitem(o, k)

    def eval_slice(self, s, fr):
        if isinstance(s, ast.Slice):
            return slice(self.eval(s.lower, fr) if s.lower is not None else None,
                         self.eval(s.upper, fr) if s.upper is not None else None,
                         self.eval(s.step, fr) if s.step is not None else None)
        return self.eval(s, fr)

    def e_Slice(self, node, fr):
        return self.eval_slice(node, fr)

    def e_ListComp(self, node, fr):
        out = []
        self._comp(node.generators, 0, fr, lambda f: out.append(self.eval(node.elt, f)))
        return SList(out)

    def e_GeneratorExp(self, node, fr):
        out = []
        self._comp(node.generators, 0, fr, lambda f: out.append(self.eval(node.elt, f)))
        return _IterVal(out)

    def e_SetComp(self, node, fr):
        out = []
        self._comp(node.generators, 0, fr, lambda f: out.append(self.eval(node.elt, f)))
        if any(is_sym(x) for x in out):
            raise Unsupported("symbolic set")
        return frozenset(out)

    def e_DictComp(self, node, fr):
        out = {}

        def add(f):
            k = self.eval(node.key, f)
            if is_sym(k):
                raise Unsupported("symbolic dict key")
            out[k] = self.eval(node.value, f)
        self._comp(node.generators, 0, fr, add)
        return SDict(out)

    def _comp(self, gens, i, fr, emit):
        if i == 0:
            inner = Frame(fr.fd, fr.globals, fr, fr.defcls)
            inner.self_obj = fr.self_obj
            fr = inner
        if i == len(gens):
            emit(fr)
            return
        g = gens[i]
        if g.is_async:
            raise Unsupported("async comprehension")
        for x in self.iterate(self.eval(g.iter, fr)):
            self.assign(g.target, x, fr)
            if all(truth(self.eval(c, fr)) for c in g.ifs):
                self._comp(gens, i + 1, fr, emit)

    def e_Starred(self, node, fr):
        raise Unsupported("starred expression")

    def e_NamedExpr(self, node, fr):
        v = self.eval(node.value, fr)
        self.assign(node.target, v, fr)
        return v

    # ------------------------------------------------------------------ subscripts
    def norm_index(self, i, n, what="index"):
        """python index (int|SInt, possibly negative) for a sequence of concrete length n -> concrete int."""
        if isinstance(i, (SBool, bool)):
            i = mk_int(bv(i)) if isinstance(i, SBool) else int(i)
        if isinstance(i, SInt):
            if self.ctx.branch(z3.Or(i.t >= n, i.t < -n)):
                self.ctx.raise_builtin(IndexError, what + " out of range")
            i = self.ctx.choose(i, range(-n, n))
        if not isinstance(i, int):
            self.ctx.raise_builtin(TypeError, "indices must be integers")
        if i < -n or i >= n:
            self.ctx.raise_builtin(IndexError, what + " out of range")
        return i % n if n else 0

    def norm_slice(self, s, n):
        """slice with int|SInt|None bounds over concrete length n -> (start, stop, step) concrete."""
        step = s.step
        if step is not None and not isinstance(step, int):
            step = self.ctx.choose(step, range(-8, 9))
        if step == 0:
            self.ctx.raise_builtin(ValueError, "slice step cannot be zero")

        def conc(b):
            if b is None:
                return None
            if isinstance(b, SBool):
                b = mk_int(bv(b))
            if isinstance(b, SInt):
                # clamp then concretise
                if self.ctx.branch(b.t >= n):
                    return n
                if self.ctx.branch(b.t <= -n):
                    return -n
                return self.ctx.choose(b, range(-n + 1, n))
            if not isinstance(b, int):
                self.ctx.raise_builtin(TypeError, "slice indices must be integers or None")
            return b
        return slice(conc(s.start), conc(s.stop), step).indices(n)

    def getitem(self, o, k):
        if isinstance(o, SBytes):
            if isinstance(k, slice):
                st, sp, step = self.norm_slice(k, len(o.items))
                return SBytes(o.items[st:sp:step] if step != 1 else o.items[st:max(st, sp)],
                              o.kind == "bytearray", o.kind)
            i = self.norm_index(k, len(o.items))
            return byte_to_int(o.items[i])
        if isinstance(o, LBytes):
            return self.models.lbytes_getitem(self, o, k)
        if isinstance(o, SList) and o.base is not None:
            return self.getitem_based(o, k)
        if isinstance(o, (tuple, SList)):
            items = o.items if isinstance(o, SList) else o
            if isinstance(k, slice):
                st, sp, step = self.norm_slice(k, len(items))
                r = list(items)[st:sp:step]
                return SList(r) if isinstance(o, SList) else tuple(r)
            i = self.norm_index(k, len(items), "list index" if isinstance(o, SList) else "tuple index")
            return items[i]
        if isinstance(o, SDict):
            return self.dict_get(o, k, None, True)
        if isinstance(o, str):
            if isinstance(k, slice):
                st, sp, step = self.norm_slice(k, len(o))
                return o[st:sp:step]
            return o[self.norm_index(k, len(o), "string index")]
        if isinstance(o, range):
            if isinstance(k, slice):
                raise Unsupported("range slice")
            return o[self.norm_index(k, len(o))]
        if isinstance(o, SObj):
            f = self.find_class_attr(o.cls, "__getitem__")
            if f is not _NOTFOUND:
                return self.call(self.bind(f, o, o.cls), [k], {})
        if isinstance(o, ClassVal):
            return o       # typing generics e.g. Dict[int, str]
        if o is None:
            self.ctx.raise_builtin(TypeError, "'NoneType' object is not subscriptable")
        h = self.models.getitem(self, o, k)
        if h is not _NOTFOUND:
            return h
        if is_intlike(o):
            self.ctx.raise_builtin(TypeError, "'int' object is not subscriptable")
        raise Unsupported("subscript of %r" % (type(o).__name__,))

    def getitem_based(self, o, k):
        """subscript of base ++ items: supported for a base with known items (SegBase) and for indices counted from
        the end that stay inside the appended items"""
        base, items = o.base, o.items
        if isinstance(k, slice):
            if k.stop is not None or k.step is not None or not isinstance(base, SegBase):
                raise Unsupported("slice of a list with unknown prefix")
            a = 0 if k.start is None else k.start
            if truth(compare("<", a, 0)):
                raise Unsupported("negative slice start on a list with symbolic length")
            if truth(compare("<=", a, base.length)):
                return SList(items, base.drop(a))
            r = self.ctx.choose(binop("-", a, base.length), range(0, len(items) + 1)) if len(items) else None
            if r is None:
                return SList([])
            return SList(items[r:])
        if isinstance(k, int) and not isinstance(k, bool) and k < 0 and -k <= len(items):
            return items[k]
        if not isinstance(base, SegBase):
            raise Unsupported("index into a list with unknown prefix")
        if truth(compare("<", k, 0)):
            raise Unsupported("negative index on a list with symbolic length")
        if truth(compare("<", k, base.length)):
            return base.item(k)
        for j in range(len(items)):
            if truth(compare("==", k, binop("+", base.length, j))):
                return items[j]
        self.ctx.raise_builtin(IndexError, "list index out of range")

    def dict_get(self, o, k, default, raise_missing):
        if o.base is not None or (o.sym and is_intlike(k)):
            r = self.pdict_lookup(o, k)
            if r is ABSENT:
                if raise_missing:
                    raise PyRaise(SObj(KeyError, {"args": (k,)}))
                return default
            return r
        if is_sym(k):
            if isinstance(k, SBool):
                k = self.ctx.branch(k.t)
            else:
                keys = [kk for kk in o.d if isinstance(kk, int) and not isinstance(kk, bool)]
                for kk in keys:
                    if self.ctx.branch(k.t == z3.BitVecVal(kk, W)):
                        return o.d[kk]
                if raise_missing:
                    raise PyRaise(SObj(KeyError, {"args": (k,)}))
                return default
        if isinstance(k, SBytes):
            k = k.to_native()
        if isinstance(k, (SObj, SList, SDict, LBytes)):
            if isinstance(k, SObj):
                for kk, vv in o.d.items():
                    if kk is k:
                        return vv
                if raise_missing:
                    raise PyRaise(SObj(KeyError, {"args": (k,)}))
                return default
            self.ctx.raise_builtin(TypeError, "unhashable type")
        try:
            if k in o.d:
                return o.d[k]
        except TypeError:
            self.ctx.raise_builtin(TypeError, "unhashable type")
        if raise_missing:
            raise PyRaise(SObj(KeyError, {"args": (k,)}))
        return default

    def setitem(self, o, k, v):
        if isinstance(o, SBytes):
            if not o.mutable:
                self.ctx.raise_builtin(TypeError, "'bytes' object does not support item assignment")
            if isinstance(k, slice):
                st, sp, step = self.norm_slice(k, len(o.items))
                if step != 1:
                    raise Unsupported("extended slice assignment")
                if isinstance(v, LBytes):
                    v = self.models.lbytes_concretize(self, v, 64)
                if isinstance(v, SBytes):
                    new = list(v.items)
                elif isinstance(v, (SList, tuple)):
                    new = [self.models.check_byte(self, x) for x in (v.items if isinstance(v, SList) else v)]
                else:
                    self.ctx.raise_builtin(TypeError, "can assign only bytes, buffers, or iterables of ints")
                if o.kind == "memoryview" and len(new) != max(st, sp) - st:
                    self.ctx.raise_builtin(ValueError, "memoryview assignment: lvalue and rvalue have different structures")
                o.items[st:max(st, sp)] = new
                return
            i = self.norm_index(k, len(o.items), "bytearray index")
            o.items[i] = self.models.check_byte(self, v)
            return
        if isinstance(o, LBytes):
            return self.models.lbytes_setitem(self, o, k, v)
        if isinstance(o, SList):
            if isinstance(k, slice):
                st, sp, step = self.norm_slice(k, len(o.items))
                if step != 1:
                    raise Unsupported("extended slice assignment")
                o.items[st:max(st, sp)] = self.iterate(v)
                return
            i = self.norm_index(k, len(o.items), "list assignment index")
            o.items[i] = v
            return
        if isinstance(o, SDict):
            if o.base is not None or (o.sym and is_intlike(k)):
                self.pdict_store(o, k, v)
                return
            if is_sym(k):
                keys = [kk for kk in o.d if isinstance(kk, int) and not isinstance(kk, bool)]
                for kk in keys:
                    if self.ctx.branch(k.t == z3.BitVecVal(kk, W)):
                        o.d[kk] = v
                        return
                self.pdict_store(o, k, v)
                return
            if isinstance(k, SBytes):
                k = k.to_native()
            o.d[k] = v
            return
        if isinstance(o, SObj):
            f = self.find_class_attr(o.cls, "__setitem__")
            if f is not _NOTFOUND:
                self.call(self.bind(f, o, o.cls), [k, v], {})
                return
        if isinstance(o, tuple):
            self.ctx.raise_builtin(TypeError, "'tuple' object does not support item assignment")
        h = self.models.setitem(self, o, k, v)
        if h:
            return
        raise Unsupported("item assignment on %r" % (type(o).__name__,))

    def delitem(self, o, k):
        if isinstance(o, SBytes) and o.mutable:
            if isinstance(k, slice):
                st, sp, step = self.norm_slice(k, len(o.items))
                if step != 1:
                    raise Unsupported("extended slice delete")
                del o.items[st:max(st, sp)]
                return
            i = self.norm_index(k, len(o.items))
            del o.items[i]
            return
        if isinstance(o, LBytes):
            return self.models.lbytes_delitem(self, o, k)
        if isinstance(o, SList):
            if isinstance(k, slice):
                st, sp, step = self.norm_slice(k, len(o.items))
                del o.items[st:sp:step]
                return
            del o.items[self.norm_index(k, len(o.items))]
            return
        if isinstance(o, SDict):
            if o.base is not None or (o.sym and is_intlike(k)):
                if self.pdict_lookup(o, k) is ABSENT:
                    raise PyRaise(SObj(KeyError, {"args": (k,)}))
                self.pdict_store(o, k, ABSENT)
                return
            if is_sym(k):
                keys = [kk for kk in o.d if isinstance(kk, int) and not isinstance(kk, bool)]
                for kk in keys:
                    if self.ctx.branch(k.t == z3.BitVecVal(kk, W)):
                        del o.d[kk]
                        return
                raise PyRaise(SObj(KeyError, {"args": (k,)}))
            if k not in o.d:
                raise PyRaise(SObj(KeyError, {"args": (k,)}))
            del o.d[k]
            return
        if isinstance(o, SObj):
            f = self.find_class_attr(o.cls, "__delitem__")
            if f is not _NOTFOUND:
                self.call(self.bind(f, o, o.cls), [k], {})
                return
        h = self.models.delitem(self, o, k)
        if h:
            return
        raise Unsupported("del item on %r" % (type(o).__name__,))


    # ------------------------------------------------------------------ opaque list / map helpers
    def value_key(self, x):
        """stable key of a value for memoising opaque predicates"""
        if isinstance(x, (SInt, SBool)):
            return ("t", x.t.sexpr())
        if isinstance(x, (int, str, bool)) or x is None:
            return ("c", x)
        if isinstance(x, BoundMethod):
            return ("bm", self.value_key(x.self_), self.value_key(x.func))
        if isinstance(x, FuncVal):
            return ("f", x.fd.module, x.fd.qualname)
        if isinstance(x, Builtin):
            return ("b", x.name)
        if isinstance(x, SObj):
            return ("o", x.name or x.oid)
        raise Unsupported("opaque predicate over %r" % (type(x).__name__,))

    def opaque_contains(self, base, x):
        """the uninterpreted fact `x in base` (same symbol for code and spec)"""
        memo = self.ctx.__dict__.setdefault("_opaque", {})
        k = ("contains", base.name, self.value_key(x))
        if k not in memo:
            memo[k] = SBool(z3.Bool("contains(%s,%s)" % (base.name, k[2])))
            # a member implies a non-empty list
            self.ctx.assume(Or(Not(memo[k]), compare(">", base.length, 0)))
        return memo[k]

    def opaque_remove_first(self, base, x):
        memo = self.ctx.__dict__.setdefault("_opaque", {})
        k = ("remove_first", base.name, self.value_key(x))
        if k not in memo:
            memo[k] = PBase("remove_first(%s,%s)" % (base.name, k[2]), binop("-", base.length, 1))
        return memo[k]

    def pdict_lookup(self, o, k):
        """value bound to key k in an opaque-based dict, or ABSENT (forks as needed)"""
        if not is_intlike(k):
            if k in o.d:
                return o.d[k]
            raise Unsupported("non-integer key on opaque dict")
        for kk, vv in reversed(o.sym):
            same = compare("==", k, kk)
            if same is True or (same is not False and self.ctx.branch(same.t)):
                return vv
        for kk, vv in o.d.items():
            if isinstance(kk, int) and truth(compare("==", k, kk)):
                return vv
        if o.base is None:
            return ABSENT
        memo = self.ctx.__dict__.setdefault("_opaque", {})
        key = ("has", o.base, self.value_key(k))
        if key not in memo:
            memo[key] = SBool(z3.Bool("has(%s,%s)" % (o.base, key[2])))
        if not self.ctx.branch(memo[key].t):
            return ABSENT
        vkey = ("val", o.base, self.value_key(k))
        if vkey not in memo:
            memo[vkey] = o.valfactory(self, "%s[%s]" % (o.base, key[2][1]))
        return memo[vkey]

    def pdict_store(self, o, k, v):
        for i, (kk, vv) in enumerate(o.sym):
            if compare("==", k, kk) is True:
                o.sym[i] = (kk, v)
                return
        o.sym.append((k, v))


class FnSummary:
    """contract of a callee used at its call sites instead of its body: pre(interp, args, kwargs) -> {name: conjunct}
    (obligations at the call site), apply(interp, args, kwargs) -> result: havocs what the callee may modify, assumes
    the post-condition, may raise (fork).  inline_depth: number of active frames of the function that still run the
    real body (1: the outermost call is executed, recursive calls use the contract; 0: every call uses the contract).
    proved_by: id of the contract class that proves the post-condition on the real body."""

    def __init__(self, pre, apply, inline_depth=0, proved_by=None):
        self.pre = pre
        self.apply = apply
        self.inline_depth = inline_depth
        self.proved_by = proved_by


class LoopSpec:
    """inductive invariant of a loop: inv(interp, frame) -> bool|SBool, havoc(interp, frame) replaces everything the
    loop modifies by fresh values, variant(interp, frame) -> int expression that must decrease and stay >= 0"""

    def __init__(self, inv, havoc, variant=None):
        self.inv = inv
        self.havoc = havoc
        self.variant = variant


class _IterVal:
    def __init__(self, items):
        self.items = items


class _RangeVal:
    """range with symbolic bounds (expanded by forking)."""

    def __init__(self, start, stop, step):
        self.start, self.stop, self.step = start, stop, step

    def expand(self, interp):
        c = interp.ctx
        st = c.choose(self.start, range(-1, 130)) if is_sym(self.start) else self.start
        sp = c.choose(self.stop, range(-1, 130)) if is_sym(self.stop) else self.stop
        se = c.choose(self.step, range(-8, 9)) if is_sym(self.step) else self.step
        return list(range(st, sp, se))


_OPS = {ast.Add: "+", ast.Sub: "-", ast.Mult: "*", ast.BitAnd: "&", ast.BitOr: "|", ast.BitXor: "^",
        ast.LShift: "<<", ast.RShift: ">>", ast.FloorDiv: "//", ast.Mod: "%", ast.Div: "/", ast.Pow: "**",
        ast.MatMult: "@"}

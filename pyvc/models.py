"""Trusted models of CPython builtins and the few library pieces the anchored code uses (DESIGN §2.4)."""
import binascii as _binascii
import math as _math
import struct as _struct
import types

import z3

from . import values as V
from .values import (SInt, SBool, SBytes, LBytes, SObj, RealObj, Opaque, Unsupported, PathAbort, W,
                     binop, compare, truth, truth_val, And, Or, Not, ite, bv, mk_int, mk_bool,
                     byte_to_int, int_to_byte, b8, is_sym, is_intlike)
from .context import PyRaise
from . import interp as I

_NOTFOUND = I._NOTFOUND

INT_CODES = {
    # code: (size, signed)
    "b": (1, True), "B": (1, False), "h": (2, True), "H": (2, False), "i": (4, True), "I": (4, False),
    "l": (4, True), "L": (4, False), "q": (8, True), "Q": (8, False),
}


def parse_fmt(fmt):
    """-> (little_endian_standard: bool, [(code, count)]) ; native mode accepted only for 1-byte codes."""
    std = False
    s = fmt
    if s and s[0] in "<>=!@":
        if s[0] != "<":
            if s[0] == "@":
                s = s[1:]
            else:
                raise Unsupported("struct byte order %r" % s[0])
        else:
            std = True
            s = s[1:]
    out = []
    i = 0
    while i < len(s):
        j = i
        while j < len(s) and s[j].isdigit():
            j += 1
        cnt = int(s[i:j]) if j > i else None
        code = s[j]
        if code == " ":
            i = j + 1
            continue
        if code not in INT_CODES and code not in "?fdsx":
            raise Unsupported("struct code %r" % code)
        if code in ("s",):
            out.append((code, cnt if cnt is not None else 1))
        else:
            for _ in range(cnt if cnt is not None else 1):
                out.append((code, 1))
        i = j + 1
    if not std:
        # native alignment: only safe when every item is one byte wide or there is a single item
        sizes = [code_size(c, n) for c, n in out]
        if len(out) > 1 and any(sz > 1 for sz in sizes):
            raise Unsupported("native-aligned struct format %r" % fmt)
        if len(out) == 1 and out[0][0] in "lL":
            raise Unsupported("native long size")
    return std, out


def code_size(code, n):
    if code in INT_CODES:
        return INT_CODES[code][0]
    return {"?": 1, "f": 4, "d": 8, "s": n, "x": 1}[code]


def fmt_size(fmt):
    _, items = parse_fmt(fmt)
    return sum(code_size(c, n) for c, n in items)


def struct_error(ctx, msg):
    raise PyRaise(SObj(_struct.error, {"args": (msg,)}))


def as_sbytes(interp, v, maxlen=64):
    if isinstance(v, SBytes):
        return v
    if isinstance(v, LBytes):
        return interp.models.lbytes_concretize(interp, v, maxlen)
    return None


def pack_values(interp, fmt, vals, out=None):
    """`out` (optional list) receives the bytes produced so far, so that pack_into can model CPython's
    behaviour on a failing item: the region is zero-filled first and items are written one by one."""
    ctx = interp.ctx
    _, items = parse_fmt(fmt)
    need = sum(1 for c, n in items if c != "x")
    if len(vals) != need:
        struct_error(ctx, "pack expected %d items for packing (got %d)" % (need, len(vals)))
    out = [] if out is None else out
    vi = 0
    for code, n in items:
        if code == "x":
            out.append(0)
            continue
        v = vals[vi]
        vi += 1
        if code in INT_CODES:
            size, signed = INT_CODES[code]
            if isinstance(v, Opaque) and v.what == "float" or isinstance(v, float):
                struct_error(ctx, "required argument is not an integer")
            if isinstance(v, SObj):
                idx = interp.find_class_attr(v.cls, "__index__")
                if idx is _NOTFOUND:
                    struct_error(ctx, "required argument is not an integer")
                v = interp.call(interp.bind(idx, v, v.cls), [], {})
            if not is_intlike(v):
                struct_error(ctx, "required argument is not an integer")
            lo, hi = (-(1 << (8 * size - 1)), (1 << (8 * size - 1)) - 1) if signed else (0, (1 << (8 * size)) - 1)
            inr = And(compare(">=", v, lo), compare("<=", v, hi))
            if not truth(inr):
                struct_error(ctx, "argument out of range")
            if is_sym(v):
                t = bv(v)
                for i in range(size):
                    out.append(z3.simplify(z3.Extract(8 * i + 7, 8 * i, t)))
            else:
                out.extend((int(v) & ((1 << (8 * size)) - 1)).to_bytes(size, "little"))
        elif code == "?":
            tv = truth_val(v)
            if isinstance(tv, bool):
                out.append(1 if tv else 0)
            else:
                out.append(z3.If(tv.t, z3.BitVecVal(1, 8), z3.BitVecVal(0, 8)))
        elif code in "fd":
            if isinstance(v, Opaque) and v.what == "float" and v.payload is not None and v.payload[0] == code:
                out.extend(v.payload[1])
            elif isinstance(v, (int, float)) and not isinstance(v, bool) or isinstance(v, bool):
                try:
                    out.extend(_struct.pack("<" + code, v))
                except (OverflowError, _struct.error) as e:
                    if isinstance(e, OverflowError):
                        ctx.raise_builtin(OverflowError, str(e))
                    struct_error(ctx, str(e))
            elif is_sym(v):
                raise Unsupported("pack symbolic int as float")
            else:
                struct_error(ctx, "required argument is not a float")
        elif code == "s":
            b = as_sbytes(interp, v)
            if b is None:
                struct_error(ctx, "argument for 's' must be a bytes object")
            its = list(b.items)[:n]
            its += [0] * (n - len(its))
            out.extend(its)
    return out


def unpack_items(interp, fmt, items):
    """items: list of byte items with exactly fmt_size length."""
    _, codes = parse_fmt(fmt)
    out = []
    p = 0
    for code, n in codes:
        sz = code_size(code, n)
        chunk = items[p:p + sz]
        p += sz
        if code == "x":
            continue
        if code in INT_CODES:
            size, signed = INT_CODES[code]
            if all(isinstance(x, int) for x in chunk):
                out.append(int.from_bytes(bytes(chunk), "little", signed=signed))
            else:
                t = z3.Concat(*[b8(x) for x in reversed(chunk)]) if size > 1 else b8(chunk[0])
                t = z3.SignExt(W - 8 * size, t) if signed else z3.ZeroExt(W - 8 * size, t)
                out.append(mk_int(t))
        elif code == "?":
            x = chunk[0]
            out.append(bool(x) if isinstance(x, int) else mk_bool(x != z3.BitVecVal(0, 8)))
        elif code in "fd":
            if all(isinstance(x, int) for x in chunk):
                out.append(_struct.unpack("<" + code, bytes(chunk))[0])
            else:
                out.append(Opaque("float", (code, list(chunk))))
        elif code == "s":
            out.append(SBytes(chunk, False))
    return tuple(out)


_CRC_STEP = z3.Function("crc_step", z3.BitVecSort(16), z3.BitVecSort(8), z3.BitVecSort(16))


def crc_fold(value, byte_values):
    """fold of the uninterpreted CRC step over byte values (int|SInt); also used by specs"""
    if not byte_values:
        return value
    if not is_sym(value) and all(not is_sym(b) for b in byte_values):
        return _binascii.crc_hqx(bytes(byte_values), value)
    t = z3.Extract(15, 0, bv(value))
    for b_ in byte_values:
        t = _CRC_STEP(t, z3.Extract(7, 0, bv(b_)))
    return mk_int(z3.ZeroExt(W - 16, t))


_CRC_PREFIX = z3.Function("crc_prefix", z3.ArraySort(z3.BitVecSort(W), z3.BitVecSort(8)), z3.BitVecSort(W), z3.BitVecSort(W),
                           z3.BitVecSort(16))


def crc_prefix(lb, k):
    """CRC (initial value 0) of the first k bytes of the symbolic-length byte string lb, as an uninterpreted function of
    (array, offset, k).  Its defining recursion crc_prefix(k + m) = fold(crc_prefix(k), bytes k..k+m-1), crc_prefix(0) = 0
    is instantiated by hand where a proof needs it (crc_prefix_step)."""
    return mk_int(z3.ZeroExt(W - 16, _CRC_PREFIX(lb.arr, bv(lb.off), bv(k))))


def crc_prefix_step(lb, k, m):
    """the instance  crc_prefix(lb, k + m) == fold(crc_prefix(lb, k), lb[k .. k+m-1])  of the defining recursion (m concrete)"""
    chunk = [byte_to_int(lb.at(binop("+", k, i))) for i in range(m)]
    return compare("==", crc_prefix(lb, binop("+", k, m)), crc_fold(crc_prefix(lb, k), chunk))


def crc_prefix_zero(lb):
    return compare("==", crc_prefix(lb, 0), 0)


class Models:
    def __init__(self):
        self.ctors = {}
        self.methods = {}      # (class, name) -> Builtin
        self.callables = {}    # id(real callable) -> Builtin
        self.modattrs = {}     # (module name, attr) -> value factory
        self.foreign_lifters = []
        self._install()

    # ---------------------------------------------------------------- registry helpers
    def builtin(self, name):
        return self._builtins.get(name, _NOTFOUND)

    def lookup_callable(self, real):
        try:
            return self.callables.get(real)
        except TypeError:
            return None

    def lookup_method(self, cls, name):
        for k in getattr(cls, "__mro__", (cls,)):
            m = self.methods.get((k, name))
            if m is not None:
                return m
        return None

    def constructor(self, cls):
        return self.ctors.get(cls)

    def lift_foreign(self, interp, v):
        for f in self.foreign_lifters:
            r = f(interp, v)
            if r is not None:
                return r
        return None

    def module_attr(self, interp, mod, name):
        key = (mod.__name__, name)
        if key in self.modattrs:
            return self.modattrs[key]
        if not hasattr(mod, name):
            return _NOTFOUND
        real = getattr(mod, name)
        if isinstance(real, (int, float, str, bytes, type(None), tuple)):
            return interp.lift(real)
        if isinstance(real, type):
            return I.ClassVal(real)
        if isinstance(real, types.ModuleType):
            return I.ModuleVal(real)
        m = self.lookup_callable(real)
        if m is not None:
            return m
        raise Unsupported("no model for %s.%s" % (mod.__name__, name))

    def iterate(self, interp, it):
        if isinstance(it, LBytes):
            b = self.lbytes_concretize(interp, it, 64)
            return [byte_to_int(x) for x in b.items]
        return None

    def contains(self, interp, container, x):
        return None

    def getitem(self, interp, o, k):
        if isinstance(o, RealObj) and isinstance(o.obj, dict):
            return interp.dict_get(I.SDict({kk: interp.lift(vv) for kk, vv in o.obj.items()}), k, None, True)
        return _NOTFOUND

    def setitem(self, interp, o, k, v):
        return False

    def delitem(self, interp, o, k):
        return False

    # ---------------------------------------------------------------- value attributes / methods
    def value_attr(self, interp, obj, name):
        if isinstance(obj, (SBytes, LBytes)):
            m = self.methods.get((bytes, name)) or (self.methods.get((bytearray, name)) if obj.mutable else None)
            if m is not None:
                return I.BoundMethod(obj, m)
            if name in ("append", "extend", "clear") and not obj.mutable:
                return _NOTFOUND
            raise Unsupported("bytes.%s" % name)
        if isinstance(obj, str):
            m = self.methods.get((str, name))
            if m is not None:
                return I.BoundMethod(obj, m)
            if hasattr(str, name):
                raise Unsupported("str.%s" % name)
            return _NOTFOUND
        if isinstance(obj, Opaque) and obj.what == "str":
            if name in ("lower", "upper", "strip", "rstrip", "lstrip", "replace", "format"):
                return I.Builtin("opaque_str." + name, lambda interp, *a, **k: Opaque("str"))
            raise Unsupported("opaque str.%s" % name)
        if isinstance(obj, Opaque) and obj.what == "inttext":
            # a numeric text (digits, sign, 0x prefix): upper-casing / removing blanks keeps it the text of the same
            # number (trusted axiom); it never contains "$NODEID"
            if name in ("upper", "strip"):
                return I.Builtin("inttext." + name, lambda interp, *a, **k: obj)
            if name == "replace":
                def _rep(interp, old, new, *a):
                    if old == " " and new == "":
                        return obj
                    raise Unsupported("replace on numeric text")
                return I.Builtin("inttext.replace", _rep)
            raise Unsupported("numeric text .%s" % name)
        if isinstance(obj, I.SList):
            m = self.methods.get((list, name))
            if m is not None:
                return I.BoundMethod(obj, m)
            return _NOTFOUND
        if isinstance(obj, I.SDict):
            m = self.methods.get((dict, name))
            if m is not None:
                return I.BoundMethod(obj, m)
            return _NOTFOUND
        if isinstance(obj, tuple):
            m = self.methods.get((tuple, name))
            if m is not None:
                return I.BoundMethod(obj, m)
            return _NOTFOUND
        if isinstance(obj, slice):
            if name in ("start", "stop", "step"):
                return getattr(obj, name)
        if isinstance(obj, (SInt, SBool, int)) and not isinstance(obj, bool) or isinstance(obj, (bool, SBool)):
            m = self.methods.get((int, name))
            if m is not None:
                return I.BoundMethod(obj, m)
            return _NOTFOUND
        if isinstance(obj, float):
            m = self.methods.get((float, name))
            if m is not None:
                return I.BoundMethod(obj, m)
            return _NOTFOUND
        if isinstance(obj, (I.FuncVal, I.BoundMethod)):
            if name == "__name__":
                f = obj.func if isinstance(obj, I.BoundMethod) else obj
                return f.fd.node.name if isinstance(f, I.FuncVal) else "?"
            if name == "__self__" and isinstance(obj, I.BoundMethod):
                return obj.self_
            return _NOTFOUND
        if obj is None:
            return _NOTFOUND
        if isinstance(obj, I.Builtin) and obj.name in ("int", "bytes", "bytearray", "str", "dict", "list", "float"):
            t = {"int": int, "bytes": bytes, "bytearray": bytearray, "str": str, "dict": dict, "list": list,
                 "float": float}[obj.name]
            m = self.methods.get((t, name)) or (self.methods.get((bytes, name)) if t is bytearray else None)
            if m is not None:
                return m
            raise Unsupported("%s.%s" % (obj.name, name))
        if isinstance(obj, I._IterVal):
            return _NOTFOUND
        raise Unsupported("attribute %s of %s" % (name, type(obj).__name__))

    # ---------------------------------------------------------------- bytes helpers
    def check_byte(self, interp, v):
        if not is_intlike(v):
            interp.ctx.raise_builtin(TypeError, "an integer is required")
        ok = And(compare(">=", v, 0), compare("<=", v, 255))
        if not truth(ok):
            interp.ctx.raise_builtin(ValueError, "byte must be in range(0, 256)")
        return int_to_byte(v)

    def lbytes_concretize(self, interp, lb, maxlen):
        """LBytes -> SBytes by forking on its length (0..maxlen)."""
        ctx = interp.ctx
        if ctx.branch(bv(lb.n) > maxlen):
            raise Unsupported("symbolic-length bytes longer than %d where concrete length is needed" % maxlen)
        n = ctx.choose(lb.n, range(0, maxlen + 1))
        return SBytes([lb.at(i) for i in range(n)], lb.mutable)

    def lbytes_getitem(self, interp, o, k):
        ctx = interp.ctx
        if isinstance(k, slice):
            if k.step is not None and k.step != 1:
                raise Unsupported("stepped slice of symbolic-length bytes")
            start, stop = k.start, k.stop
            if start is None:
                start = 0
            if (is_sym(start) or start < 0) or (stop is not None and not is_sym(stop) and stop < 0):
                if is_sym(start):
                    # start symbolic: keep symbolic, clamp to [0, n]
                    if ctx.branch(bv(start) < 0):
                        raise Unsupported("negative symbolic slice start")
                else:
                    raise Unsupported("negative slice bound on symbolic-length bytes")
            # effective start = min(start, n); stop = min(stop, n) (or n)
            n = o.n
            s_eff = ite(compare(">", start, n), n, start)
            if stop is None:
                e_eff = n
            else:
                if is_sym(stop) and ctx.branch(bv(stop) < 0):
                    raise Unsupported("negative symbolic slice stop")
                e_eff = ite(compare(">", stop, n), n, stop)
            ln = ite(compare(">", e_eff, s_eff), binop("-", e_eff, s_eff), 0)
            # concrete small width?  then materialise by forking on the length
            width = None
            if stop is not None and not is_sym(stop) and not is_sym(start):
                width = max(0, stop - start)
            elif stop is not None:
                d = binop("-", stop, start)
                if not is_sym(d):
                    width = max(0, d)
            if width is not None and width <= 64:
                ll = ctx.choose(ln, range(0, width + 1)) if is_sym(ln) else ln
                return SBytes([o.at(binop("+", s_eff, i)) for i in range(ll)], o.kind == "bytearray")
            return LBytes(o.arr, binop("+", o.off, s_eff), ln, o.kind == "bytearray")
        # index
        if not is_intlike(k):
            ctx.raise_builtin(TypeError, "indices must be integers")
        if ctx.branch(bv(k) < 0):
            k = binop("+", k, o.n)
        if not truth(And(compare(">=", k, 0), compare("<", k, o.n))):
            ctx.raise_builtin(IndexError, "index out of range")
        return byte_to_int(o.at(k))

    def lbytes_setitem(self, interp, o, k, v):
        raise Unsupported("item assignment on symbolic-length bytes")

    def lbytes_delitem(self, interp, o, k):
        ctx = interp.ctx
        if not o.mutable:
            ctx.raise_builtin(TypeError, "'bytes' object doesn't support item deletion")
        if isinstance(k, slice) and k.start is None and k.step is None and k.stop is not None:
            stop = k.stop
            if is_sym(stop) and ctx.branch(bv(stop) < 0):
                raise Unsupported("negative del bound")
            if not is_sym(stop) and stop < 0:
                raise Unsupported("negative del bound")
            kk = ite(compare(">", stop, o.n), o.n, stop)
            o.off = binop("+", o.off, kk)
            o.n = binop("-", o.n, kk)
            return
        raise Unsupported("del on symbolic-length bytes other than prefix")

    def lbytes_eq(self, interp, a, b):
        # structural equality on (arr, off, n) when both symbolic-length; otherwise length-fork
        if isinstance(a, LBytes) and isinstance(b, LBytes):
            if a.arr is b.arr or a.arr.eq(b.arr):
                same = And(compare("==", a.off, b.off), compare("==", a.n, b.n))
                if same is True:
                    return True
            raise Unsupported("equality of two symbolic-length byte strings")
        if isinstance(a, SBytes):
            a, b = b, a
        # a LBytes, b SBytes
        n = len(b.items)
        return And([compare("==", a.n, n)] + [mk_bool(a.at(i) == b8(b.items[i])) for i in range(n)])

    def bytes_binop(self, interp, op, a, b, inplace):
        ctx = interp.ctx
        if op == "+":
            if isinstance(a, (SBytes, LBytes)) and isinstance(b, (SBytes, LBytes)):
                if isinstance(a, SBytes) and isinstance(b, SBytes):
                    if inplace and a.mutable:
                        a.items.extend(b.items)
                        return a
                    return SBytes(a.items + b.items, a.kind == "bytearray")
                if isinstance(a, LBytes) and isinstance(b, SBytes):
                    r = a.copy() if not (inplace and a.mutable) else a
                    self._lb_extend(r, b)
                    return r
                raise Unsupported("concatenation with symbolic-length right operand")
            ctx.raise_builtin(TypeError, "can't concat %s to %s" % (interp.tname(b), interp.tname(a)))
        if op == "*":
            if isinstance(b, (SBytes, LBytes)):
                a, b = b, a
            if isinstance(a, SBytes) and is_intlike(b):
                n = b
                if is_sym(n):
                    if ctx.branch(bv(n) <= 0):
                        n = 0
                    else:
                        n = ctx.choose(n, range(1, 65))
                n = max(0, int(n))
                return SBytes(a.items * n, a.kind == "bytearray")
            raise Unsupported("bytes * on %r" % (type(b).__name__,))
        if op == "%":
            raise Unsupported("bytes % formatting")
        ctx.raise_builtin(TypeError, "unsupported operand type(s) for %s: '%s' and '%s'"
                          % (op, interp.tname(a), interp.tname(b)))

    def _lb_extend(self, lb, chunk):
        arr = lb.arr
        base = binop("+", lb.off, lb.n)
        for i, it in enumerate(chunk.items):
            arr = z3.Store(arr, bv(binop("+", base, i)), b8(it))
        lb.arr = arr
        lb.n = binop("+", lb.n, len(chunk.items))

    # ---------------------------------------------------------------- formatting
    def format(self, interp, val, spec, conv):
        ctx = interp.ctx
        if conv == ord("r") or conv == ord("s") or conv == ord("a"):
            if spec and any(c in spec for c in "xXdbo"):
                ctx.raise_builtin(ValueError, "Unknown format code for object of type 'str'")
            if is_sym(val) or isinstance(val, (SBytes, LBytes, SObj, Opaque, I.SList, I.SDict, RealObj)):
                return Opaque("str")
            try:
                s = repr(val) if conv == ord("r") else str(val)
                return format(s, spec)
            except Exception:
                return Opaque("str")
        typ = spec[-1] if spec else ""
        if typ in ("x", "X", "d", "b", "o", "c", "n") and typ:
            if isinstance(val, (SInt, SBool)) or (isinstance(val, int)):
                if is_sym(val):
                    if typ in ("X", "x") and spec in ("X", "x", "02X", "02x", "04X", "04x"):
                        return Opaque("hexdigits", val)
                    return Opaque("str")
                return format(val, spec)
            if isinstance(val, float) and typ == "d":
                ctx.raise_builtin(ValueError, "Unknown format code 'd' for object of type 'float'")
            if val is None:
                ctx.raise_builtin(TypeError, "unsupported format string passed to NoneType.__format__")
            if isinstance(val, str):
                ctx.raise_builtin(ValueError, "Unknown format code '%s' for object of type 'str'" % typ)
            if isinstance(val, (SBytes, LBytes, SObj, I.SList, I.SDict, tuple)):
                ctx.raise_builtin(TypeError, "unsupported format string passed to %s.__format__" % interp.tname(val))
            raise Unsupported("format %r of %r" % (spec, type(val).__name__))
        if is_sym(val) or isinstance(val, (SBytes, LBytes, Opaque, I.SList, I.SDict, RealObj)):
            if spec and isinstance(val, (SBytes, LBytes, I.SList, I.SDict)):
                ctx.raise_builtin(TypeError, "unsupported format string passed to %s.__format__" % interp.tname(val))
            return Opaque("str")
        if isinstance(val, SObj):
            if spec:
                ctx.raise_builtin(TypeError, "unsupported format string passed to object.__format__")
            f = interp.find_class_attr(val.cls, "__str__")
            if f is not _NOTFOUND and interp.loader.interpretable(f[0].__module__):
                return interp.call(interp.bind(f, val, val.cls), [], {})
            return Opaque("str")
        if val is None and spec:
            ctx.raise_builtin(TypeError, "unsupported format string passed to NoneType.__format__")
        try:
            return format(val, spec)
        except (TypeError, ValueError) as e:
            ctx.raise_builtin(type(e), str(e))

    def str_percent(self, interp, fmt, arg):
        args = arg if isinstance(arg, tuple) else (arg,)
        if any(is_sym(a) or isinstance(a, (SBytes, LBytes, SObj, Opaque, I.SList, I.SDict, RealObj)) for a in args):
            return Opaque("str")
        try:
            return fmt % arg
        except (TypeError, ValueError) as e:
            interp.ctx.raise_builtin(type(e), str(e))

    # ---------------------------------------------------------------- installation
    def _install(self):
        B = I.Builtin
        b = {}
        self._builtins = b

        def reg(name):
            def deco(fn):
                b[name] = B(name, fn)
                return fn
            return deco

        def meth(cls, name):
            def deco(fn):
                self.methods[(cls, name)] = B("%s.%s" % (cls.__name__, name), fn)
                return fn
            return deco

        models = self

        @reg("len")
        def _len(interp, x):
            if isinstance(x, SBytes):
                return len(x.items)
            if isinstance(x, LBytes):
                return x.n
            if isinstance(x, (tuple, str, range, frozenset)):
                return len(x)
            if isinstance(x, I.SList):
                if x.base is not None:
                    return binop("+", x.base.length, len(x.items))
                return len(x.items)
            if isinstance(x, I.SDict):
                return len(x.whole("len"))
            if isinstance(x, SObj):
                f = interp.find_class_attr(x.cls, "__len__")
                if f is not _NOTFOUND:
                    return interp.call(interp.bind(f, x, x.cls), [], {})
            if isinstance(x, RealObj) and isinstance(x.obj, (dict, list, tuple)):
                return len(x.obj)
            interp.ctx.raise_builtin(TypeError, "object of type '%s' has no len()" % interp.tname(x))

        @reg("isinstance")
        def _isinstance(interp, v, cls):
            return interp.isinstance_(v, cls)

        @reg("issubclass")
        def _issubclass(interp, c, cls):
            def real(x):
                if isinstance(x, tuple):
                    return tuple(real(y) for y in x)
                return x.cls
            return issubclass(real(c), real(cls))

        @reg("callable")
        def _callable(interp, v):
            return isinstance(v, (I.FuncVal, I.BoundMethod, I.Builtin, I.ClassVal)) or \
                (isinstance(v, SObj) and interp.find_class_attr(v.cls, "__call__") is not _NOTFOUND)

        @reg("hasattr")
        def _hasattr(interp, o, name):
            try:
                return interp.getattr_opt(o, name) is not _NOTFOUND
            except PyRaise as e:
                if issubclass(e.exc.cls, AttributeError):
                    return False
                raise

        @reg("getattr")
        def _getattr(interp, o, name, *default):
            r = interp.getattr_opt(o, name)
            if r is _NOTFOUND:
                if default:
                    return default[0]
                interp.ctx.raise_builtin(AttributeError, name)
            return r

        @reg("setattr")
        def _setattr(interp, o, name, v):
            interp.setattr(o, name, v)

        @reg("int")
        def _int(interp, x=0, base=None):
            ctx = interp.ctx
            if base is not None:
                if isinstance(x, Opaque) and x.what == "inttext":
                    # trusted axiom about CPython: int(text_of(n), 0) == n for the spellings text_of produces;
                    # "0x" followed by the hex digits of a NEGATIVE number ("0x-5") is rejected
                    v, style = x.payload
                    if style == "0x%X" and truth(compare("<", v, 0)):
                        ctx.raise_builtin(ValueError, "invalid literal for int() with base 0")
                    return v
                if isinstance(x, Opaque):
                    raise Unsupported("int() of opaque string")
                if isinstance(x, str):
                    try:
                        return int(x, base)
                    except ValueError as e:
                        ctx.raise_builtin(ValueError, str(e))
                ctx.raise_builtin(TypeError, "int() can't convert non-string with explicit base")
            if isinstance(x, SBool):
                return mk_int(bv(x))
            if isinstance(x, bool):
                return int(x)
            if isinstance(x, (SInt, int)):
                return x
            if isinstance(x, float):
                try:
                    return int(x)
                except (ValueError, OverflowError) as e:
                    ctx.raise_builtin(type(e), str(e))
            if isinstance(x, str):
                try:
                    return int(x)
                except ValueError as e:
                    ctx.raise_builtin(ValueError, str(e))
            if isinstance(x, Opaque):
                raise Unsupported("int() of opaque %s" % x.what)
            if isinstance(x, (SBytes, LBytes)):
                raise Unsupported("int(bytes)")
            if isinstance(x, SObj):
                f = interp.find_class_attr(x.cls, "__int__")
                if f is not _NOTFOUND:
                    return interp.call(interp.bind(f, x, x.cls), [], {})
            ctx.raise_builtin(TypeError, "int() argument must be a string, a bytes-like object or a real number, not '%s'"
                              % interp.tname(x))

        @reg("bool")
        def _bool(interp, x=False):
            if isinstance(x, (SBytes, LBytes, I.SList, I.SDict)):
                return x.py_truth()
            return truth_val(x)

        @reg("float")
        def _float(interp, x=0.0):
            if isinstance(x, (int, float, str)):
                try:
                    return float(x)
                except (ValueError, OverflowError) as e:
                    interp.ctx.raise_builtin(type(e), str(e))
            if is_sym(x):
                raise Unsupported("float() of symbolic int")
            if isinstance(x, Opaque) and x.what == "float":
                return x
            interp.ctx.raise_builtin(TypeError, "float() argument must be a string or a real number")

        @reg("str")
        def _str(interp, x=""):
            if isinstance(x, str):
                return x
            if isinstance(x, (int, float)) and not is_sym(x) or x is None:
                return str(x)
            if isinstance(x, SInt):
                return Opaque("inttext", (x, "%d"))       # decimal text of a symbolic integer
            return Opaque("str")

        @reg("repr")
        def _repr(interp, x):
            if isinstance(x, (int, float, str)) or x is None:
                return repr(x)
            return Opaque("str")

        @reg("hex")
        def _hex(interp, x):
            if isinstance(x, bool):
                return hex(x)
            if isinstance(x, int):
                return hex(x)
            if isinstance(x, (SInt, SBool)):
                return Opaque("str")
            interp.ctx.raise_builtin(TypeError, "'%s' object cannot be interpreted as an integer" % interp.tname(x))

        @reg("abs")
        def _abs(interp, x):
            if is_sym(x):
                return ite(compare("<", x, 0), V.unop("-", x), x)
            return abs(x)

        @reg("min")
        def _min(interp, *xs, **kw):
            if kw:
                raise Unsupported("min with key")
            if len(xs) == 1:
                xs = interp.iterate(xs[0])
            r = xs[0]
            for x in xs[1:]:
                r = ite(compare("<", x, r), x, r) if (is_sym(x) or is_sym(r)) else min(x, r)
            return r

        @reg("max")
        def _max(interp, *xs, **kw):
            if kw:
                raise Unsupported("max with key")
            if len(xs) == 1:
                xs = interp.iterate(xs[0])
            r = xs[0]
            for x in xs[1:]:
                r = ite(compare(">", x, r), x, r) if (is_sym(x) or is_sym(r)) else max(x, r)
            return r

        @reg("sum")
        def _sum(interp, xs, start=0):
            r = start
            for x in interp.iterate(xs):
                r = interp.binary("+", r, x)
            return r

        @reg("any")
        def _any(interp, xs):
            for x in interp.iterate(xs):
                if truth(x):
                    return True
            return False

        @reg("all")
        def _all(interp, xs):
            for x in interp.iterate(xs):
                if not truth(x):
                    return False
            return True

        @reg("divmod")
        def _divmod(interp, a, b):
            return (binop("//", a, b), binop("%", a, b))

        @reg("round")
        def _round(interp, x, nd=None):
            if isinstance(x, (int, float)):
                return round(x, nd) if nd is not None else round(x)
            if is_sym(x) and nd is None:
                return x
            raise Unsupported("round of %r" % type(x).__name__)

        @reg("range")
        def _range(interp, *a):
            if any(is_sym(x) for x in a):
                if len(a) == 1:
                    return I._RangeVal(0, a[0], 1)
                if len(a) == 2:
                    return I._RangeVal(a[0], a[1], 1)
                return I._RangeVal(a[0], a[1], a[2])
            try:
                return range(*a)
            except (TypeError, ValueError) as e:
                interp.ctx.raise_builtin(type(e), str(e))

        @reg("enumerate")
        def _enumerate(interp, xs, start=0):
            return I._IterVal([(start + i, x) for i, x in enumerate(interp.iterate(xs))])

        @reg("zip")
        def _zip(interp, *xs):
            return I._IterVal(list(zip(*[interp.iterate(x) for x in xs])))

        @reg("reversed")
        def _reversed(interp, xs):
            return I._IterVal(list(reversed(interp.iterate(xs))))

        @reg("sorted")
        def _sorted(interp, xs, key=None, reverse=False):
            items = interp.iterate(xs)
            if key is not None or any(is_sym(x) or not isinstance(x, (int, str, float, tuple)) for x in items):
                raise Unsupported("sorted on symbolic/keyed items")
            return I.SList(sorted(items, reverse=reverse))

        @reg("iter")
        def _iter(interp, xs):
            return I._IterVal(interp.iterate(xs))

        @reg("list")
        def _list(interp, xs=()):
            return I.SList(interp.iterate(xs))

        @reg("tuple")
        def _tuple(interp, xs=()):
            return tuple(interp.iterate(xs))

        @reg("dict")
        def _dict(interp, xs=None, **kw):
            d = {}
            if isinstance(xs, I.SDict):
                d.update(xs.d)
            elif xs is not None:
                for k, v in interp.iterate(xs):
                    d[k] = v
            d.update(kw)
            return I.SDict(d)

        @reg("set")
        def _set(interp, xs=()):
            items = interp.iterate(xs)
            if any(is_sym(x) for x in items):
                raise Unsupported("set of symbolic")
            return frozenset(items)

        @reg("frozenset")
        def _frozenset(interp, xs=()):
            return _set(interp, xs)

        @reg("slice")
        def _slice(interp, *a):
            return slice(*a)

        @reg("type")
        def _type(interp, x):
            if isinstance(x, SObj):
                return I.ClassVal(x.cls)
            if isinstance(x, RealObj):
                return I.ClassVal(type(x.obj))
            if isinstance(x, (SInt,)):
                return I.ClassVal(int)
            if isinstance(x, SBool):
                return I.ClassVal(bool)
            if isinstance(x, (SBytes, LBytes)):
                return I.ClassVal({"bytes": bytes, "bytearray": bytearray, "memoryview": memoryview}[x.kind])
            if isinstance(x, I.SList):
                return I.ClassVal(list)
            if isinstance(x, I.SDict):
                return I.ClassVal(dict)
            return I.ClassVal(type(x))

        @reg("id")
        def _id(interp, x):
            return id(x)

        @reg("print")
        def _print(interp, *a, **k):
            return None

        @reg("bytes")
        def _bytes(interp, x=None, *enc):
            ctx = interp.ctx
            if x is None:
                return SBytes([], False)
            if isinstance(x, SBytes):
                return SBytes(x.items, False)
            if isinstance(x, LBytes):
                return x.copy(mutable=False)
            if isinstance(x, bool):
                return SBytes([0] * int(x), False)
            if is_intlike(x):
                if is_sym(x):
                    if ctx.branch(bv(x) < 0):
                        ctx.raise_builtin(ValueError, "negative count")
                    # zero-filled buffer of symbolic length: no fork on the length
                    zero = z3.K(z3.BitVecSort(W), z3.BitVecVal(0, 8))
                    return LBytes(zero, 0, x, False)
                if x < 0:
                    ctx.raise_builtin(ValueError, "negative count")
                return SBytes([0] * x, False)
            if isinstance(x, str):
                if not enc:
                    ctx.raise_builtin(TypeError, "string argument without an encoding")
                return SBytes(list(x.encode(enc[0])), False)
            if isinstance(x, (I.SList, tuple, range, I._IterVal)):
                return SBytes([models.check_byte(interp, v) for v in interp.iterate(x)], False)
            if isinstance(x, Opaque) or isinstance(x, float) or x is None:
                ctx.raise_builtin(TypeError, "cannot convert '%s' object to bytes" % interp.tname(x))
            if isinstance(x, SObj):
                ctx.raise_builtin(TypeError, "cannot convert '%s' object to bytes" % interp.tname(x))
            raise Unsupported("bytes(%s)" % type(x).__name__)

        @reg("bytearray")
        def _bytearray(interp, x=None, *enc):
            r = _bytes(interp, x, *enc)
            if isinstance(r, LBytes):
                return r.copy(mutable=True)
            return SBytes(r.items, True)

        @reg("memoryview")
        def _memoryview(interp, x):
            if isinstance(x, SBytes):
                # shares storage with the underlying object
                mv = SBytes.__new__(SBytes)
                mv.items = x.items
                mv.mutable = x.mutable
                mv.kind = "memoryview"
                return mv
            raise Unsupported("memoryview of %s" % type(x).__name__)

        @reg("object")
        def _object(interp):
            return SObj(object)

        @reg("super")
        def _super(interp, *a):
            raise Unsupported("super with arguments")

        @reg("NotImplemented")
        def _ni(interp):
            raise Unsupported("NotImplemented")
        b["NotImplemented"] = NotImplemented
        b["True"], b["False"], b["None"] = True, False, None
        b["__debug__"] = True
        b["property"] = I.ClassVal(property)
        b["staticmethod"] = I.ClassVal(staticmethod)

        # ------------------------------------------------------------ int / float methods
        @meth(int, "bit_length")
        def _bit_length(interp, x):
            if is_sym(x):
                # number of bits of |x| as a chain of comparisons against the powers of two (|x| < 2**120 by A1)
                a = ite(compare("<", x, 0), binop("-", 0, x), x)
                r = 120
                for k in range(119, -1, -1):
                    r = ite(compare("<", a, 1 << k), k, r)
                return r
            return int(x).bit_length()

        @meth(int, "to_bytes")
        def _to_bytes(interp, x, length=1, byteorder="big", signed=False):
            ctx = interp.ctx
            length = ctx.choose(length, range(0, 33)) if is_sym(length) else length
            lo, hi = (-(1 << (8 * length - 1)) if length else 0, (1 << (8 * length - 1)) - 1 if length else 0) if signed \
                else (0, (1 << (8 * length)) - 1)
            if not truth(And(compare(">=", x, lo), compare("<=", x, hi))):
                ctx.raise_builtin(OverflowError, "int too big to convert")
            if is_sym(x):
                t = bv(x)
                items = [z3.simplify(z3.Extract(8 * i + 7, 8 * i, t)) if 8 * i + 7 < W else
                         (z3.If(t < 0, z3.BitVecVal(255, 8), z3.BitVecVal(0, 8))) for i in range(length)]
            else:
                items = list((int(x) & ((1 << (8 * length)) - 1)).to_bytes(length, "little")) if length else []
            if byteorder == "big":
                items = items[::-1]
            return SBytes(items, False)

        def _from_bytes(interp, data, byteorder="big", signed=False):
            b_ = as_sbytes(interp, data, 16)
            if b_ is None:
                interp.ctx.raise_builtin(TypeError, "cannot convert '%s' object to bytes" % interp.tname(data))
            items = list(b_.items)
            if byteorder == "big":
                items = items[::-1]
            n = len(items)
            if n == 0:
                return 0
            if n > 15:
                raise Unsupported("int.from_bytes wider than 120 bits")
            if all(isinstance(i, int) for i in items):
                return int.from_bytes(bytes(items), "little", signed=signed)
            t = z3.Concat(*[b8(x) for x in reversed(items)]) if n > 1 else b8(items[0])
            t = z3.SignExt(W - 8 * n, t) if signed else z3.ZeroExt(W - 8 * n, t)
            return mk_int(t)
        self.methods[(int, "from_bytes")] = B("int.from_bytes", _from_bytes)
        self.callables[int.from_bytes] = self.methods[(int, "from_bytes")]

        @meth(float, "is_integer")
        def _is_integer(interp, x):
            return x.is_integer()

        # ------------------------------------------------------------ bytes methods
        @meth(bytes, "ljust")
        def _ljust(interp, s, width, fill=None):
            ctx = interp.ctx
            s = as_sbytes(interp, s)
            width = ctx.choose(width, range(0, 65)) if is_sym(width) else width
            f = 0x20 if fill is None else as_sbytes(interp, fill).items[0]
            items = list(s.items)
            if len(items) < width:
                items += [f] * (width - len(items))
            return SBytes(items, s.kind == "bytearray")

        @meth(bytes, "hex")
        def _bhex(interp, s, *a):
            if isinstance(s, SBytes) and s.is_concrete():
                return bytes(s.items).hex(*a)
            return Opaque("str")

        @meth(bytes, "decode")
        def _decode(interp, s, encoding="utf-8", errors="strict"):
            if isinstance(s, SBytes) and s.is_concrete():
                try:
                    return bytes(s.items).decode(encoding, errors)
                except (UnicodeDecodeError, LookupError) as e:
                    interp.ctx.raise_builtin(type(e) if not isinstance(e, UnicodeDecodeError) else ValueError, str(e))
            return Opaque("str")

        @meth(bytes, "tobytes")
        def _tobytes(interp, s):
            if isinstance(s, LBytes):
                return s.copy(mutable=False)
            return SBytes(s.items, False)

        @meth(bytes, "startswith")
        def _bstartswith(interp, s, prefix):
            s = as_sbytes(interp, s)
            p = as_sbytes(interp, prefix)
            if len(p.items) > len(s.items):
                return False
            return V.bytes_eq(SBytes(s.items[:len(p.items)]), p)

        @meth(bytes, "__len__")
        def _blen(interp, s):
            return _len(interp, s)

        @meth(bytes, "count")
        def _bcount(interp, s, x):
            raise Unsupported("bytes.count")

        @meth(bytearray, "extend")
        def _extend(interp, s, other):
            if isinstance(other, LBytes):
                other = models.lbytes_concretize(interp, other, 64)
            if isinstance(other, (I.SList, tuple)):
                other = SBytes([models.check_byte(interp, v) for v in interp.iterate(other)])
            if not isinstance(other, SBytes):
                interp.ctx.raise_builtin(TypeError, "can't extend bytearray with %s" % interp.tname(other))
            if isinstance(s, LBytes):
                models._lb_extend(s, other)
            else:
                s.items.extend(other.items)

        @meth(bytearray, "append")
        def _append(interp, s, v):
            it = models.check_byte(interp, v)
            if isinstance(s, LBytes):
                models._lb_extend(s, SBytes([it]))
            else:
                s.items.append(it)

        @meth(bytearray, "clear")
        def _clear(interp, s):
            if isinstance(s, LBytes):
                s.n = 0
            else:
                del s.items[:]

        # ------------------------------------------------------------ str methods (concrete strings only)
        def strm(name):
            def fn(interp, s, *a, **k):
                if any(isinstance(x, Opaque) for x in a):
                    return Opaque("str")
                a = [x.to_native() if isinstance(x, SBytes) else x for x in a]
                if any(is_sym(x) for x in a):
                    raise Unsupported("str.%s with symbolic arg" % name)
                try:
                    r = getattr(s, name)(*a, **k)
                except (TypeError, ValueError, LookupError, UnicodeError) as e:
                    interp.ctx.raise_builtin(type(e) if not isinstance(e, UnicodeError) else ValueError, str(e))
                return interp.lift(r) if not isinstance(r, list) else I.SList(r)
            self.methods[(str, name)] = B("str." + name, fn)
        for n_ in ("lower", "upper", "strip", "rstrip", "lstrip", "replace", "startswith", "endswith", "split",
                   "rsplit", "join", "find", "rfind", "index", "isdigit", "islower", "isupper", "encode", "title",
                   "capitalize", "count", "partition", "rpartition", "zfill", "isalnum", "isalpha", "splitlines",
                   "casefold", "ljust", "rjust"):
            strm(n_)

        @meth(str, "format")
        def _sformat(interp, s, *a, **k):
            if any(is_sym(x) or isinstance(x, (SBytes, LBytes, SObj, Opaque, I.SList, I.SDict, RealObj))
                   for x in list(a) + list(k.values())):
                return Opaque("str")
            try:
                return s.format(*a, **k)
            except (TypeError, ValueError, LookupError) as e:
                interp.ctx.raise_builtin(type(e), str(e))

        # join needs iterables of engine values
        def _join(interp, s, xs):
            items = interp.iterate(xs)
            if any(isinstance(x, Opaque) for x in items):
                return Opaque("str")
            if not all(isinstance(x, str) for x in items):
                interp.ctx.raise_builtin(TypeError, "sequence item: expected str instance")
            return s.join(items)
        self.methods[(str, "join")] = B("str.join", _join)

        # ------------------------------------------------------------ list methods
        @meth(list, "append")
        def _lappend(interp, l, x):
            l.items.append(x)

        @meth(list, "extend")
        def _lextend(interp, l, xs):
            l.items.extend(interp.iterate(xs))

        @meth(list, "insert")
        def _linsert(interp, l, i, x):
            i = interp.ctx.choose(i, range(-len(l.items) - 1, len(l.items) + 2)) if is_sym(i) else i
            l.items.insert(i, x)

        @meth(list, "pop")
        def _lpop(interp, l, i=-1):
            if not l.items:
                interp.ctx.raise_builtin(IndexError, "pop from empty list")
            i = interp.norm_index(i, len(l.items), "pop index")
            return l.items.pop(i)

        @meth(list, "remove")
        def _lremove(interp, l, x):
            if l.base is not None and truth(interp.opaque_contains(l.base, x)):
                l.base = interp.opaque_remove_first(l.base, x)
                return
            for i, y in enumerate(l.items):
                if truth(interp.equals(y, x)):
                    del l.items[i]
                    return
            interp.ctx.raise_builtin(ValueError, "list.remove(x): x not in list")

        @meth(list, "index")
        def _lindex(interp, l, x):
            for i, y in enumerate(l.items):
                if truth(interp.equals(y, x)):
                    return i
            interp.ctx.raise_builtin(ValueError, "x is not in list")

        @meth(list, "clear")
        def _lclear(interp, l):
            del l.items[:]

        @meth(list, "copy")
        def _lcopy(interp, l):
            return I.SList(l.items)

        @meth(list, "count")
        def _lcount(interp, l, x):
            r = 0
            for y in l.items:
                r = binop("+", r, ite(interp.equals(y, x), 1, 0))
            return r

        @meth(list, "sort")
        def _lsort(interp, l, key=None, reverse=False):
            if key is not None or any(is_sym(x) or not isinstance(x, (int, str, float, tuple)) for x in l.items):
                raise Unsupported("sort on symbolic/keyed items")
            l.items.sort(reverse=reverse)

        @meth(list, "reverse")
        def _lreverse(interp, l):
            l.items.reverse()

        @meth(tuple, "index")
        def _tindex(interp, t, x):
            for i, y in enumerate(t):
                if truth(interp.equals(y, x)):
                    return i
            interp.ctx.raise_builtin(ValueError, "tuple.index(x): x not in tuple")

        @meth(tuple, "count")
        def _tcount(interp, t, x):
            return _lcount(interp, I.SList(t), x)

        # ------------------------------------------------------------ dict methods
        @meth(dict, "get")
        def _dget(interp, d, k, default=None):
            return interp.dict_get(d, k, default, False)

        @meth(dict, "setdefault")
        def _dsetdefault(interp, d, k, default=None):
            if d.base is not None:
                r = interp.pdict_lookup(d, k)
                if r is I.ABSENT:
                    interp.pdict_store(d, k, default)
                    return default
                return r
            r = interp.dict_get(d, k, _NOTFOUND, False)
            if r is _NOTFOUND:
                interp.setitem(d, k, default)
                return default
            return r

        @meth(dict, "keys")
        def _dkeys(interp, d):
            return I._IterVal(list(d.whole("keys").keys()))

        @meth(dict, "values")
        def _dvalues(interp, d):
            return I._IterVal(list(d.whole("values").values()))

        @meth(dict, "items")
        def _ditems(interp, d):
            return I._IterVal([(k, v) for k, v in d.whole("items").items()])

        @meth(dict, "pop")
        def _dpop(interp, d, k, *default):
            r = interp.dict_get(d, k, _NOTFOUND, False)
            if r is _NOTFOUND:
                if default:
                    return default[0]
                raise PyRaise(SObj(KeyError, {"args": (k,)}))
            interp.delitem(d, k)
            return r

        @meth(dict, "update")
        def _dupdate(interp, d, other=None, **kw):
            if isinstance(other, I.SDict):
                d.d.update(other.whole("update from"))
            elif other is not None:
                for k, v in interp.iterate(other):
                    d.d[k] = v
            d.d.update(kw)

        @meth(dict, "clear")
        def _dclear(interp, d):
            d.d.clear()
            del d.sym[:]
            d.base = None

        @meth(dict, "copy")
        def _dcopy(interp, d):
            return I.SDict(d.whole("copy"))

        @meth(dict, "__contains__")
        def _dcontains(interp, d, k):
            return interp.contains(d, k)

        # ------------------------------------------------------------ struct
        def struct_fmt(s):
            if isinstance(s, RealObj):
                return s.obj.format
            if isinstance(s, SObj):
                return s.fields["format"]
            raise Unsupported("struct object %r" % (s,))

        def m_pack(interp, s, *vals):
            return SBytes(pack_values(interp, struct_fmt(s), list(vals)), False)

        def m_unpack(interp, s, buf):
            fmt = struct_fmt(s)
            size = fmt_size(fmt)
            ctx = interp.ctx
            if isinstance(buf, LBytes):
                if not truth(compare("==", buf.n, size)):
                    struct_error(ctx, "unpack requires a buffer of %d bytes" % size)
                items = [buf.at(i) for i in range(size)]
            elif isinstance(buf, SBytes):
                if len(buf.items) != size:
                    struct_error(ctx, "unpack requires a buffer of %d bytes" % size)
                items = buf.items
            else:
                ctx.raise_builtin(TypeError, "a bytes-like object is required, not '%s'" % interp.tname(buf))
            return unpack_items(interp, fmt, list(items))

        def m_unpack_from(interp, s, buf, offset=0):
            fmt = struct_fmt(s)
            size = fmt_size(fmt)
            ctx = interp.ctx
            if isinstance(buf, LBytes):
                buf = models.lbytes_concretize(interp, buf, 64)
            if not isinstance(buf, SBytes):
                ctx.raise_builtin(TypeError, "a bytes-like object is required, not '%s'" % interp.tname(buf))
            n = len(buf.items)
            if is_sym(offset):
                if ctx.branch(z3.Or(bv(offset) < -n, bv(offset) > n)):
                    struct_error(ctx, "offset out of range")
                offset = ctx.choose(offset, range(-n, n + 1))
            if offset < 0:
                if offset + n < 0:
                    struct_error(ctx, "offset %d out of range for %d-byte buffer" % (offset, n))
                offset += n
            if n - offset < size:
                struct_error(ctx, "unpack_from requires a buffer of at least %d bytes" % (size + offset))
            return unpack_items(interp, fmt, buf.items[offset:offset + size])

        def m_pack_into(interp, s, buf, offset, *vals):
            fmt = struct_fmt(s)
            size = fmt_size(fmt)
            ctx = interp.ctx
            if not isinstance(buf, SBytes):
                if isinstance(buf, LBytes):
                    raise Unsupported("pack_into symbolic-length buffer")
                ctx.raise_builtin(TypeError, "argument must be read-write bytes-like object, not %s" % interp.tname(buf))
            if not buf.mutable:
                ctx.raise_builtin(TypeError, "argument must be read-write bytes-like object, not bytes")
            n = len(buf.items)
            if is_sym(offset):
                if ctx.branch(z3.Or(bv(offset) < -n, bv(offset) > n)):
                    struct_error(ctx, "offset out of range")
                offset = ctx.choose(offset, range(-n, n + 1))
            if offset < 0:
                if offset + n < 0:
                    struct_error(ctx, "offset out of range")
                offset += n
            if n - offset < size:
                struct_error(ctx, "pack_into requires a buffer of at least %d bytes" % (size + offset))
            _, codes = parse_fmt(fmt)
            if len(vals) != sum(1 for c, n in codes if c != "x"):
                struct_error(ctx, "pack_into expected %d items for packing" % len(codes))
            done = []
            try:
                pack_values(interp, fmt, list(vals), done)
            except PyRaise:
                # CPython zero-fills the target region, then writes item by item until the failing one
                buf.items[offset:offset + size] = (done + [0] * size)[:size]
                raise
            buf.items[offset:offset + size] = done

        for nm, fn in (("pack", m_pack), ("unpack", m_unpack), ("unpack_from", m_unpack_from),
                       ("pack_into", m_pack_into)):
            self.methods[(_struct.Struct, nm)] = B("Struct." + nm, fn)

        def m_struct_size(interp, s):
            return fmt_size(struct_fmt(s))

        def struct_ctor(interp, fmt):
            if not isinstance(fmt, str):
                raise Unsupported("Struct(non-literal)")
            parse_fmt(fmt)
            return RealObj(_struct.Struct(fmt))
        self.ctors[_struct.Struct] = struct_ctor

        def mod_pack(interp, fmt, *vals):
            return SBytes(pack_values(interp, fmt, list(vals)), False)

        def mod_unpack(interp, fmt, buf):
            return m_unpack(interp, RealObj(_struct.Struct(fmt)), buf)

        def mod_unpack_from(interp, fmt, buf, offset=0):
            return m_unpack_from(interp, RealObj(_struct.Struct(fmt)), buf, offset)

        def mod_pack_into(interp, fmt, buf, offset, *vals):
            return m_pack_into(interp, RealObj(_struct.Struct(fmt)), buf, offset, *vals)

        def mod_calcsize(interp, fmt):
            return fmt_size(fmt)
        for nm, fn in (("pack", mod_pack), ("unpack", mod_unpack), ("unpack_from", mod_unpack_from),
                       ("pack_into", mod_pack_into), ("calcsize", mod_calcsize)):
            self.modattrs[("struct", nm)] = B("struct." + nm, fn)
            self.callables[getattr(_struct, nm)] = self.modattrs[("struct", nm)]
        self.modattrs[("struct", "Struct")] = I.ClassVal(_struct.Struct)
        self.modattrs[("struct", "error")] = I.ClassVal(_struct.error)

        # ------------------------------------------------------------ binascii / math / time / copy
        def hexlify(interp, data, *a):
            if isinstance(data, SBytes) and data.is_concrete():
                return SBytes(list(_binascii.hexlify(bytes(data.items))), False)
            if isinstance(data, (SBytes, LBytes)):
                return Opaque("bytes-hex")
            interp.ctx.raise_builtin(TypeError, "a bytes-like object is required, not '%s'" % interp.tname(data))
        self.modattrs[("binascii", "hexlify")] = B("binascii.hexlify", hexlify)
        self.callables[_binascii.hexlify] = self.modattrs[("binascii", "hexlify")]

        def crc_hqx(interp, data, value):
            if isinstance(data, SBytes) and data.is_concrete() and not is_sym(value):
                return _binascii.crc_hqx(bytes(data.items), value)
            return interp.models.crc16(interp, data, value)
        self.modattrs[("binascii", "crc_hqx")] = B("binascii.crc_hqx", crc_hqx)
        self.callables[_binascii.crc_hqx] = self.modattrs[("binascii", "crc_hqx")]

        def m_ceil(interp, x):
            if isinstance(x, (int, float)):
                return _math.ceil(x)
            if isinstance(x, Opaque) and x.what == "ratio":
                num, den = x.payload
                # ceil(num/den) for positive concrete den and 0 <= num < 2**53 (exact in double)
                V._exact(z3.And(bv(num) >= 0, bv(num) < (1 << 53)))
                return binop("//", binop("+", num, den - 1), den)
            raise Unsupported("math.ceil of %r" % (x,))
        self.modattrs[("math", "ceil")] = B("math.ceil", m_ceil)
        self.callables[_math.ceil] = self.modattrs[("math", "ceil")]

        import time as _time

        def t_time(interp):
            if getattr(interp, "frozen_time", False):
                # contract assumption "the peer reacts before any deadline": the clock does not advance ...
                patience = getattr(interp, "clock_patience", None)
                if patience is not None:
                    # ... but only for `patience` reads: code that has consulted the clock that often without finishing
                    # is not making progress, and from then on every deadline has expired (so a stalled wait loop
                    # ends the way it does in real time — by its time-out — instead of exhausting the unrolling budget)
                    interp.clock_reads = getattr(interp, "clock_reads", 0) + 1
                    if interp.clock_reads > patience:
                        interp.ctx.notes.append("clock: %d reads without completion, deadlines expire" % patience)
                        return V.STime(z3.BitVecVal(10 ** 15, W)) if interp.ctx.mode == "sym" else 1e9
                return V.STime(z3.BitVecVal(0, W)) if interp.ctx.mode == "sym" else 0.0
            # time as integer ticks, monotone along a path (real-time behaviour is not decided)
            last = interp.ctx.__dict__.get("_now")
            now = interp.ctx.fresh_int("now", 0 if last is None else None, 1 << 60)
            if last is not None:
                interp.ctx.assume(compare(">=", now, last))
            interp.ctx.__dict__["_now"] = now
            return V.STime(now.t) if isinstance(now, SInt) else now / 1000000.0
        for nm in ("time", "monotonic", "perf_counter"):
            self.modattrs[("time", nm)] = B("time." + nm, t_time)
            self.callables[getattr(_time, nm)] = self.modattrs[("time", nm)]
        self.modattrs[("time", "sleep")] = B("time.sleep", lambda interp, s: None)
        self.callables[_time.sleep] = self.modattrs[("time", "sleep")]

        import copy as _copy

        def c_copy(interp, x):
            if isinstance(x, SObj):
                o = SObj(x.cls, dict(x.fields))
                return o
            if isinstance(x, I.SList):
                return I.SList(x.items)
            if isinstance(x, I.SDict):
                return I.SDict(x.d)
            if isinstance(x, SBytes):
                return SBytes(x.items, x.mutable)
            return x
        self.modattrs[("copy", "copy")] = B("copy.copy", c_copy)
        self.callables[_copy.copy] = self.modattrs[("copy", "copy")]

        import bisect as _bisect

        def _bis(right):
            def pos(interp, lst, x, lo=0, hi=None):
                if not isinstance(lst, I.SList) or lst.base is not None or lo != 0 or hi is not None:
                    raise Unsupported("bisect on a list with unknown prefix / with bounds")
                for i, y in enumerate(lst.items):
                    if truth(compare("<", x, y) if right else compare("<=", x, y)):
                        return i
                return len(lst.items)
            return pos

        def _ins(right):
            p = _bis(right)

            def ins(interp, lst, x, lo=0, hi=None):
                lst.items.insert(p(interp, lst, x, lo, hi), x)
            return ins
        for nm, fn in (("bisect_left", _bis(False)), ("bisect_right", _bis(True)), ("bisect", _bis(True)),
                       ("insort_left", _ins(False)), ("insort_right", _ins(True)), ("insort", _ins(True))):
            self.modattrs[("bisect", nm)] = B("bisect." + nm, fn)
            self.callables[getattr(_bisect, nm)] = self.modattrs[("bisect", nm)]

    def crc16(self, interp, data, value):
        """binascii.crc_hqx as a byte-wise fold of an uninterpreted step function (the fold structure is the trusted
        axiom crc(a ++ b, v) = crc(b, crc(a, v)); the polynomial itself is CPython's)"""
        if isinstance(data, LBytes):
            data = self.lbytes_concretize(interp, data, 64)
        if not isinstance(data, SBytes):
            interp.ctx.raise_builtin(TypeError, "a bytes-like object is required")
        return crc_fold(value, [byte_to_int(x) for x in data.items])

"""pyvc values: symbolic / concrete value wrappers and the path context.

Python ints are modelled as signed 128-bit bit-vectors; every +,-,*,<<,neg records a no-wrap side
condition ("exact") so that the BV value provably equals Python's unbounded integer on every
reachable state once the per-path `exact` obligation is discharged (DESIGN §2.3).
"""
import z3

W = 128
_MIN = -(1 << (W - 1))
_MAX = (1 << (W - 1)) - 1


class Unsupported(Exception):
    """Construct outside the accepted subset -> UNDECIDED, never PASS / VIOLATION."""


class PathAbort(Exception):
    """Path is infeasible / assumption false: silently drop this path."""


# --------------------------------------------------------------------------------------------
CTX = None


def ctx():
    return CTX


def set_ctx(c):
    global CTX
    CTX = c


class SInt:
    __slots__ = ("t",)

    def __init__(self, t):
        self.t = t

    def __repr__(self):
        return "SInt(%s)" % (self.t,)

    # operators (for specs and models); the interpreter goes through binop() as well
    def __add__(s, o): return binop("+", s, o)
    def __radd__(s, o): return binop("+", o, s)
    def __sub__(s, o): return binop("-", s, o)
    def __rsub__(s, o): return binop("-", o, s)
    def __mul__(s, o): return binop("*", s, o)
    def __rmul__(s, o): return binop("*", o, s)
    def __and__(s, o): return binop("&", s, o)
    def __rand__(s, o): return binop("&", o, s)
    def __or__(s, o): return binop("|", s, o)
    def __ror__(s, o): return binop("|", o, s)
    def __xor__(s, o): return binop("^", s, o)
    def __rxor__(s, o): return binop("^", o, s)
    def __lshift__(s, o): return binop("<<", s, o)
    def __rlshift__(s, o): return binop("<<", o, s)
    def __rshift__(s, o): return binop(">>", s, o)
    def __rrshift__(s, o): return binop(">>", o, s)
    def __floordiv__(s, o): return binop("//", s, o)
    def __mod__(s, o): return binop("%", s, o)
    def __neg__(s): return unop("-", s)
    def __invert__(s): return unop("~", s)
    def __eq__(s, o): return compare("==", s, o)
    def __ne__(s, o): return compare("!=", s, o)
    def __lt__(s, o): return compare("<", s, o)
    def __le__(s, o): return compare("<=", s, o)
    def __gt__(s, o): return compare(">", s, o)
    def __ge__(s, o): return compare(">=", s, o)
    __hash__ = None

    def __bool__(s):
        return truth(s)

    def __index__(s):
        raise Unsupported("symbolic int used as native index")


class STime(SInt):
    """a point in time / duration in microseconds (time.time(), time.monotonic()); adding a number of seconds
    scales it, so deadlines can be compared.  Real-time behaviour itself is not decided."""
    __slots__ = ()


class SBool:
    __slots__ = ("t",)

    def __init__(self, t):
        self.t = t

    def __repr__(self):
        return "SBool(%s)" % (self.t,)

    def __bool__(self):
        return CTX.branch(self.t)

    def __and__(s, o): return And(s, o)
    def __rand__(s, o): return And(o, s)
    def __or__(s, o): return Or(s, o)
    def __ror__(s, o): return Or(o, s)
    def __invert__(s): return Not(s)
    def __eq__(s, o): return compare("==", s, o)
    def __ne__(s, o): return compare("!=", s, o)
    __hash__ = None


def is_sym(v):
    return isinstance(v, (SInt, SBool))


def is_intlike(v):
    return isinstance(v, (SInt, SBool)) or (isinstance(v, int))


def bv(v):
    """value -> z3 BV128 term (ints, bools)."""
    if isinstance(v, SInt):
        return v.t
    if isinstance(v, SBool):
        return z3.If(v.t, z3.BitVecVal(1, W), z3.BitVecVal(0, W))
    if isinstance(v, bool):
        return z3.BitVecVal(int(v), W)
    if isinstance(v, int):
        if not (_MIN <= v <= _MAX):
            raise Unsupported("integer constant beyond 128 bits")
        return z3.BitVecVal(v, W)
    raise Unsupported("bv() of %r" % type(v).__name__)


def zb(v):
    """value -> z3 Bool (for SBool / bool)."""
    if isinstance(v, SBool):
        return v.t
    if isinstance(v, bool):
        return z3.BoolVal(v)
    raise Unsupported("zb() of %r" % type(v).__name__)


def mk_int(t):
    t = z3.simplify(t)
    if z3.is_bv_value(t):
        return t.as_signed_long()
    return SInt(t)


def mk_bool(t):
    t = z3.simplify(t)
    if z3.is_true(t):
        return True
    if z3.is_false(t):
        return False
    return SBool(t)


def truth(v):
    """Python truthiness as native bool, forking if needed."""
    b = truth_val(v)
    if isinstance(b, SBool):
        return CTX.branch(b.t)
    return b


def truth_val(v):
    """Python truthiness as bool / SBool without forking."""
    if isinstance(v, SBool):
        return v
    if isinstance(v, SInt):
        return mk_bool(v.t != z3.BitVecVal(0, W))
    if v is None:
        return False
    if isinstance(v, (bool, int, float, str, tuple, list, dict, bytes, set, frozenset, range)):
        return bool(v)
    if hasattr(v, "py_truth"):
        return v.py_truth()
    return True


def And(*xs):
    if len(xs) == 1 and isinstance(xs[0], (list, tuple)):
        xs = xs[0]
    ts = []
    for x in xs:
        x = truth_val(x)
        if x is False:
            return False
        if x is True:
            continue
        ts.append(x.t)
    if not ts:
        return True
    return mk_bool(z3.And(*ts)) if len(ts) > 1 else SBool(ts[0])


def Or(*xs):
    if len(xs) == 1 and isinstance(xs[0], (list, tuple)):
        xs = xs[0]
    ts = []
    for x in xs:
        x = truth_val(x)
        if x is True:
            return True
        if x is False:
            continue
        ts.append(x.t)
    if not ts:
        return False
    return mk_bool(z3.Or(*ts)) if len(ts) > 1 else SBool(ts[0])


def Not(x):
    x = truth_val(x)
    if isinstance(x, bool):
        return not x
    return mk_bool(z3.Not(x.t))


def Implies(a, b):
    return Or(Not(a), b)


def Iff(a, b):
    a = truth_val(a)
    b = truth_val(b)
    if isinstance(a, bool) and isinstance(b, bool):
        return a == b
    return mk_bool(zb(a) == zb(b))


def ite(c, a, b):
    """If-then-else on ints/bools (no forking)."""
    c = truth_val(c)
    if c is True:
        return a
    if c is False:
        return b
    if isinstance(a, (SBool, bool)) and isinstance(b, (SBool, bool)):
        return mk_bool(z3.If(c.t, zb(a), zb(b)))
    return mk_int(z3.If(c.t, bv(a), bv(b)))


def _exact(cond):
    c = z3.simplify(cond)
    if z3.is_true(c):
        return
    CTX.exact.append(c)


def _pow2(n):
    return n > 0 and (n & (n - 1)) == 0


def binop(op, a, b):
    if isinstance(a, float) or isinstance(b, float):
        if is_sym(a) or is_sym(b):
            raise Unsupported("float arithmetic on symbolic value")
    if not (is_sym(a) or is_sym(b)):
        return _native_binop(op, a, b)
    if not (is_intlike(a) and is_intlike(b)):
        raise Unsupported("binop %s on %s,%s" % (op, type(a).__name__, type(b).__name__))
    if isinstance(a, SBool) and isinstance(b, (SBool, bool)) and op in "&|^":
        x, y = zb(a), zb(b)
        return mk_bool({"&": z3.And, "|": z3.Or, "^": z3.Xor}[op](x, y))
    if isinstance(b, SBool) and isinstance(a, bool) and op in "&|^":
        x, y = zb(a), zb(b)
        return mk_bool({"&": z3.And, "|": z3.Or, "^": z3.Xor}[op](x, y))
    x, y = bv(a), bv(b)
    if op == "+":
        _exact(z3.And(z3.BVAddNoOverflow(x, y, True), z3.BVAddNoUnderflow(x, y)))
        return mk_int(x + y)
    if op == "-":
        _exact(z3.And(z3.BVSubNoOverflow(x, y), z3.BVSubNoUnderflow(x, y, True)))
        return mk_int(x - y)
    if op == "*":
        _exact(z3.And(z3.BVMulNoOverflow(x, y, True), z3.BVMulNoUnderflow(x, y)))
        return mk_int(x * y)
    if op == "&":
        return mk_int(x & y)
    if op == "|":
        return mk_int(x | y)
    if op == "^":
        return mk_int(x ^ y)
    if op == "<<":
        if CTX.branch(y < 0):
            CTX.raise_builtin(ValueError, "negative shift count")
        r = x << y
        _exact(z3.And(z3.ULT(y, W), (r >> y) == x))
        return mk_int(r)
    if op == ">>":
        if CTX.branch(y < 0):
            CTX.raise_builtin(ValueError, "negative shift count")
        # python: arithmetic shift; shift counts >= W saturate like bvashr does
        return mk_int(z3.If(z3.UGE(y, W), z3.If(x < 0, z3.BitVecVal(-1, W), z3.BitVecVal(0, W)), x >> y))
    if op in ("//", "%"):
        if isinstance(b, int) and not isinstance(b, bool) and _pow2(b):
            k = b.bit_length() - 1
            if op == "//":
                return mk_int(x >> k)
            return mk_int(x & (b - 1))
        if CTX.branch(y == 0):
            CTX.raise_builtin(ZeroDivisionError, "integer division or modulo by zero")
        q = x / y      # bvsdiv truncates toward zero
        r = z3.SRem(x, y)
        adj = z3.And(r != 0, (r < 0) != (y < 0))
        _exact(z3.Not(z3.And(x == z3.BitVecVal(_MIN, W), y == z3.BitVecVal(-1, W))))
        if op == "//":
            return mk_int(z3.If(adj, q - 1, q))
        return mk_int(z3.If(adj, r + y, r))
    if op == "/":
        raise Unsupported("true division on symbolic int")
    if op == "**":
        raise Unsupported("power on symbolic int")
    raise Unsupported("binop " + op)


def _native_binop(op, a, b):
    import operator
    f = {"+": operator.add, "-": operator.sub, "*": operator.mul, "&": operator.and_, "|": operator.or_,
         "^": operator.xor, "<<": operator.lshift, ">>": operator.rshift, "//": operator.floordiv,
         "%": operator.mod, "/": operator.truediv, "**": operator.pow, "@": operator.matmul}[op]
    try:
        return f(a, b)
    except (TypeError, ValueError, ZeroDivisionError, OverflowError) as e:
        CTX.raise_builtin(type(e), str(e))


def unop(op, a):
    if not is_sym(a):
        try:
            if op == "-":
                return -a
            if op == "~":
                return ~a
            if op == "+":
                return +a
        except TypeError as e:
            CTX.raise_builtin(TypeError, str(e))
    x = bv(a)
    if op == "-":
        _exact(z3.BVSNegNoOverflow(x))
        return mk_int(-x)
    if op == "~":
        return mk_int(~x)
    if op == "+":
        return mk_int(x)
    raise Unsupported("unop " + op)


def compare(op, a, b):
    """Comparison on ints/bools (symbolic) -> bool | SBool.  Non-int kinds handled by caller."""
    if isinstance(a, (SBool, bool)) and isinstance(b, (SBool, bool)) and op in ("==", "!="):
        if isinstance(a, bool) and isinstance(b, bool):
            return (a == b) if op == "==" else (a != b)
        r = zb(a) == zb(b)
        return mk_bool(r if op == "==" else z3.Not(r))
    if is_intlike(a) and is_intlike(b):
        if not (is_sym(a) or is_sym(b)):
            return {"==": a == b, "!=": a != b, "<": a < b, "<=": a <= b, ">": a > b, ">=": a >= b}[op]
        x, y = bv(a), bv(b)
        if op == "==":
            return mk_bool(x == y)
        if op == "!=":
            return mk_bool(x != y)
        if op == "<":
            return mk_bool(x < y)
        if op == "<=":
            return mk_bool(x <= y)
        if op == ">":
            return mk_bool(x > y)
        if op == ">=":
            return mk_bool(x >= y)
    raise Unsupported("compare %s on %s,%s" % (op, type(a).__name__, type(b).__name__))


# --------------------------------------------------------------------------------------------
# bytes


def b8(v):
    """byte item -> z3 BV8"""
    if isinstance(v, int):
        return z3.BitVecVal(v & 0xFF, 8)
    return v


def byte_to_int(item):
    """byte item (int | BV8 term) -> int | SInt"""
    if isinstance(item, int):
        return item
    return mk_int(z3.ZeroExt(W - 8, item))


def int_to_byte(v):
    """int|SInt (already known 0..255) -> byte item"""
    if isinstance(v, bool):
        return int(v)
    if isinstance(v, int):
        return v & 0xFF
    t = z3.simplify(z3.Extract(7, 0, bv(v)))
    if z3.is_bv_value(t):
        return t.as_long()
    return t


class SBytes:
    """bytes / bytearray / memoryview of *concrete length*; items are ints or z3 BV8 terms."""
    __slots__ = ("items", "mutable", "kind")

    def __init__(self, items, mutable=False, kind=None):
        self.items = list(items)
        self.mutable = mutable
        self.kind = kind or ("bytearray" if mutable else "bytes")

    def __repr__(self):
        return "%s<%s>" % (self.kind, " ".join(("%02x" % i) if isinstance(i, int) else "??" for i in self.items))

    def __len__(self):
        return len(self.items)

    def py_truth(self):
        return len(self.items) > 0

    def is_concrete(self):
        return all(isinstance(i, int) for i in self.items)

    def to_native(self):
        if not self.is_concrete():
            raise Unsupported("symbolic bytes to native")
        b = bytes(self.items)
        return bytearray(b) if self.mutable else b

    def copy(self, mutable=None):
        return SBytes(self.items, self.mutable if mutable is None else mutable)


def bytes_eq(a, b):
    """SBytes == SBytes -> bool|SBool"""
    if len(a.items) != len(b.items):
        return False
    return And([mk_bool(b8(x) == b8(y)) if not (isinstance(x, int) and isinstance(y, int)) else x == y
                for x, y in zip(a.items, b.items)])


class LBytes:
    """bytes-like with *symbolic length*: bytes are arr[off+i] for 0 <= i < n."""
    __slots__ = ("arr", "off", "n", "mutable", "kind")

    def __init__(self, arr, off, n, mutable=False):
        self.arr = arr
        self.off = off
        self.n = n
        self.mutable = mutable
        self.kind = "bytearray" if mutable else "bytes"

    def __repr__(self):
        return "LBytes(n=%r)" % (self.n,)

    def py_truth(self):
        return compare(">", self.n, 0)

    def at(self, i):
        """byte item at index i (int|SInt) relative to start; no bounds check."""
        return z3.simplify(z3.Select(self.arr, bv(binop("+", self.off, i))))

    def copy(self, mutable=None):
        return LBytes(self.arr, self.off, self.n, self.mutable if mutable is None else mutable)


# --------------------------------------------------------------------------------------------
# objects


class MissingField(KeyError, Unsupported):
    """a contract (clause, invariant or havoc) refers to a PRIVATE attribute that the object does not have: the
    implementation detail was renamed or removed; the contract cannot be evaluated (undecided, never a violation)"""

    def __str__(self):
        return "the contract refers to private state %r that the object does not have (renamed or removed?)" % (self.args[0],)


def _private(k):
    return isinstance(k, str) and k.startswith("_") and not k.startswith("__")


HAVOC_ACTIVE = [False]


class FieldDict(dict):
    def __missing__(self, k):
        if _private(k):
            raise MissingField(k)
        raise KeyError(k)

    def __setitem__(self, k, v):
        if HAVOC_ACTIVE[0] and _private(k) and k not in self:
            raise MissingField(k)
        dict.__setitem__(self, k, v)


class SObj:
    """Instance of a (real) class; fields live here.  Per-path object (paths are re-executed)."""
    _next = [0]

    def __init__(self, cls, fields=None, name=None):
        self.cls = cls
        self.fields = FieldDict(fields or {})
        SObj._next[0] += 1
        self.oid = SObj._next[0]
        self.name = name

    def __repr__(self):
        return "<%s#%s>" % (getattr(self.cls, "__name__", self.cls), self.name or self.oid)

    def get(self, k, default=None):
        return self.fields.get(k, default)


class RealObj:
    """Immutable real object from the imported repo (e.g. IntegerN(24) in STRUCT_TYPES)."""
    __slots__ = ("obj",)

    def __init__(self, obj):
        self.obj = obj

    def __repr__(self):
        return "RealObj(%r)" % (self.obj,)


class _Absent:
    def __repr__(self):
        return "ABSENT"


ABSENT = _Absent()


class Opaque:
    """Opaque value (formatted string, float from symbolic bytes, hexlify result...)."""
    __slots__ = ("what", "payload")

    def __init__(self, what, payload=None):
        self.what = what
        self.payload = payload

    def __repr__(self):
        return "Opaque(%s)" % self.what

"""Spec-side helper functions (dual mode: symbolic or concrete engine values)."""
import z3
from . import values as V
from .values import (SInt, SBool, SBytes, LBytes, SObj, And, Or, Not, Implies, Iff, ite, compare, binop, bv, b8,
                     mk_int, mk_bool, byte_to_int, truth_val, is_sym, W)


def items_of(b):
    if isinstance(b, SBytes):
        return b.items
    if isinstance(b, (bytes, bytearray)):
        return list(b)
    raise V.Unsupported("items_of(%r)" % (type(b).__name__,))


def is_bytes(v, n=None):
    """v is a bytes-like of concrete length n"""
    if not isinstance(v, SBytes):
        return False
    return n is None or len(v.items) == n


def le_uint(b):
    """unsigned little-endian integer of a concrete-length bytes value -> int|SInt"""
    its = items_of(b)
    if not its:
        return 0
    if len(its) > 15:
        raise V.Unsupported("le_uint wider than 120 bits")
    if all(isinstance(i, int) for i in its):
        return int.from_bytes(bytes(its), "little")
    t = z3.Concat(*[b8(x) for x in reversed(its)]) if len(its) > 1 else b8(its[0])
    return mk_int(z3.ZeroExt(W - 8 * len(its), t))


def sext(v, bits):
    """interpret the low `bits` of v (0 <= v < 2**bits) as two's complement"""
    if not is_sym(v) and not is_sym(bits):
        v &= (1 << bits) - 1
        return v - (1 << bits) if v >> (bits - 1) else v
    sign = compare("!=", binop("&", binop(">>", v, binop("-", bits, 1)), 1), 0)
    return ite(sign, binop("-", v, binop("<<", 1, bits)), v)


def umod(v, bits):
    """v mod 2**bits (python semantics, non-negative)"""
    return binop("&", v, (1 << bits) - 1) if not is_sym(bits) else binop("&", v, binop("-", binop("<<", 1, bits), 1))


def inrange(v, lo, hi):
    """lo <= v <= hi"""
    return And(compare(">=", v, lo), compare("<=", v, hi))


def eq(a, b):
    if isinstance(a, (SBytes,)) and isinstance(b, SBytes):
        return V.bytes_eq(a, b)
    return compare("==", a, b)


def byte(b, i):
    return byte_to_int(items_of(b)[i])


def bytes_are(b, expected):
    """b is a concrete-length bytes value whose items equal `expected` (list of int|SInt 0..255)"""
    if not isinstance(b, SBytes) or len(b.items) != len(expected):
        return False
    return And([compare("==", byte_to_int(x), e) for x, e in zip(b.items, expected)])


def le_bytes(v, n):
    """list of n little-endian byte values (int|SInt) of v mod 256**n"""
    return [binop("&", binop(">>", v, 8 * i), 0xFF) for i in range(n)]


def is_int(v):
    return isinstance(v, (int, SInt)) and not isinstance(v, bool)


def is_bool(v):
    return isinstance(v, (bool, SBool))


def is_none(v):
    return v is None

"""Spec-side helper functions (dual mode: symbolic or concrete engine values)."""
import z3
from . import values as V
from .values import (SInt, SBool, SBytes, LBytes, SObj, And, Or, Not, Implies, Iff, ite, compare, binop, bv, b8,
                     mk_int, mk_bool, byte_to_int, truth_val, is_sym, W)


def items_of(b):
    if isinstance(b, SBytes):
        return b.items
    if isinstance(b, (bytes, bytearray)):
        return list(b)
    raise V.Unsupported("items_of(%r)" % (type(b).__name__,))


def is_bytes(v, n=None):
    """v is a bytes-like of concrete length n"""
    if not isinstance(v, SBytes):
        return False
    return n is None or len(v.items) == n


def le_uint(b):
    """unsigned little-endian integer of a concrete-length bytes value -> int|SInt"""
    its = items_of(b)
    if not its:
        return 0
    if len(its) > 15:
        raise V.Unsupported("le_uint wider than 120 bits")
    if all(isinstance(i, int) for i in its):
        return int.from_bytes(bytes(its), "little")
    t = z3.Concat(*[b8(x) for x in reversed(its)]) if len(its) > 1 else b8(its[0])
    return mk_int(z3.ZeroExt(W - 8 * len(its), t))


def sext(v, bits):
    """interpret the low `bits` of v (0 <= v < 2**bits) as two's complement"""
    if not is_sym(v) and not is_sym(bits):
        v &= (1 << bits) - 1
        return v - (1 << bits) if v >> (bits - 1) else v
    sign = compare("!=", binop("&", binop(">>", v, binop("-", bits, 1)), 1), 0)
    return ite(sign, binop("-", v, binop("<<", 1, bits)), v)


def umod(v, bits):
    """v mod 2**bits (python semantics, non-negative)"""
    return binop("&", v, (1 << bits) - 1) if not is_sym(bits) else binop("&", v, binop("-", binop("<<", 1, bits), 1))


def inrange(v, lo, hi):
    """lo <= v <= hi"""
    return And(compare(">=", v, lo), compare("<=", v, hi))


def eq(a, b):
    if isinstance(a, (SBytes,)) and isinstance(b, SBytes):
        return V.bytes_eq(a, b)
    return compare("==", a, b)


def byte(b, i):
    return byte_to_int(items_of(b)[i])


def bytes_are(b, expected):
    """b is a concrete-length bytes value whose items equal `expected` (list of int|SInt 0..255)"""
    if not isinstance(b, SBytes) or len(b.items) != len(expected):
        return False
    return And([compare("==", byte_to_int(x), e) for x, e in zip(b.items, expected)])


def le_bytes(v, n):
    """list of n little-endian byte values (int|SInt) of v mod 256**n"""
    return [binop("&", binop(">>", v, 8 * i), 0xFF) for i in range(n)]


def is_int(v):
    return isinstance(v, (int, SInt)) and not isinstance(v, bool)


def is_bool(v):
    return isinstance(v, (bool, SBool))


def is_none(v):
    return v is None


def le_bytes_items(v, n):
    """byte items (for building a bytes value) of v mod 256**n, little endian"""
    return [V.int_to_byte(binop("&", binop(">>", v, 8 * i), 0xFF)) for i in range(n)]


# ---------------------------------------------------------------------------------------------
# lists with unknown prefix, events

def snap(lst):
    """snapshot of an engine list (old-state view)"""
    return lst.snapshot()


def appended(new, old, k):
    """`new` is `old` with exactly k more elements at the end (same unknown prefix, same known elements,
    by identity). -> (bool, [the k new elements])"""
    from .interp import SList
    if not isinstance(new, SList) or not isinstance(old, SList):
        return False, []
    if (new.base is None) != (old.base is None) or (new.base is not None and new.base.name != old.base.name):
        return False, []
    n0 = len(old.items)
    if len(new.items) != n0 + k:
        return False, []
    if not all(a is b for a, b in zip(new.items, old.items)):
        return False, []
    return True, new.items[n0:]


def same_list(new, old):
    ok, _ = appended(new, old, 0)
    return ok


def is_empty_list(v):
    from .interp import SList
    return isinstance(v, SList) and v.base is None and len(v.items) == 0


def expected_calls(lst, args):
    """events produced by calling every element of lst once, in order, with args"""
    from .interp import Builtin
    ev = []
    if lst.base is not None:
        ev.append(("foreach-call", lst.base.name, tuple(args)))
    for it in lst.items:
        if not (isinstance(it, Builtin) and it.name.startswith("cb:")):
            raise V.Unsupported("expected_calls over non-callback element %r" % (it,))
        ev.append(("cb", it.name[3:], tuple(args)))
    return ev


def ev_eq(interp, a, b):
    """structural equality of event payloads -> bool|SBool"""
    if isinstance(a, (tuple, list)) and isinstance(b, (tuple, list)):
        if len(a) != len(b):
            return False
        return And([ev_eq(interp, x, y) for x, y in zip(a, b)])
    if isinstance(a, (tuple, list)) != isinstance(b, (tuple, list)):
        return False
    return truth_val(interp.equals(a, b))


def events_are(s, expected, kinds=None):
    """the emitted events (optionally only of the given kinds) equal `expected`"""
    ev = [e for e in s.ev if kinds is None or e[0] in kinds]
    return ev_eq(s.w.interp, ev, list(expected))


def sub(b, lo, hi):
    """sub-range of a concrete-length bytes value"""
    return SBytes(items_of(b)[lo:hi], False)

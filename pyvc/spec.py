"""Spec-side helper functions (dual mode: symbolic or concrete engine values)."""
import z3
from . import values as V
from .values import (SInt, SBool, SBytes, LBytes, SObj, And, Or, Not, Implies, Iff, ite, compare, binop, bv, b8,
                     mk_int, mk_bool, byte_to_int, truth_val, is_sym, W)


def items_of(b):
    if isinstance(b, SBytes):
        return b.items
    if isinstance(b, (bytes, bytearray)):
        return list(b)
    raise V.Unsupported("items_of(%r)" % (type(b).__name__,))


def is_bytes(v, n=None):
    """v is a bytes-like of concrete length n"""
    if not isinstance(v, SBytes):
        return False
    return n is None or len(v.items) == n


def le_uint(b):
    """unsigned little-endian integer of a concrete-length bytes value -> int|SInt"""
    its = items_of(b)
    if not its:
        return 0
    if len(its) > 15:
        raise V.Unsupported("le_uint wider than 120 bits")
    if all(isinstance(i, int) for i in its):
        return int.from_bytes(bytes(its), "little")
    t = z3.Concat(*[b8(x) for x in reversed(its)]) if len(its) > 1 else b8(its[0])
    return mk_int(z3.ZeroExt(W - 8 * len(its), t))


def sext(v, bits):
    """interpret the low `bits` of v (0 <= v < 2**bits) as two's complement"""
    if not is_sym(v) and not is_sym(bits):
        v &= (1 << bits) - 1
        return v - (1 << bits) if v >> (bits - 1) else v
    sign = compare("!=", binop("&", binop(">>", v, binop("-", bits, 1)), 1), 0)
    return ite(sign, binop("-", v, binop("<<", 1, bits)), v)


def umod(v, bits):
    """v mod 2**bits (python semantics, non-negative)"""
    return binop("&", v, (1 << bits) - 1) if not is_sym(bits) else binop("&", v, binop("-", binop("<<", 1, bits), 1))


def inrange(v, lo, hi):
    """lo <= v <= hi"""
    return And(compare(">=", v, lo), compare("<=", v, hi))


def eq(a, b):
    """equality that is simply False for values of different kinds (specs evaluate all conjuncts eagerly)"""
    if isinstance(a, (SBytes,)) and isinstance(b, SBytes):
        return V.bytes_eq(a, b)
    if isinstance(a, (SBytes, LBytes)) or isinstance(b, (SBytes, LBytes)):
        if isinstance(a, (SBytes, LBytes)) and isinstance(b, (SBytes, LBytes)):
            return same_bytes(a, b)
        return False
    if a is None or b is None:
        return a is b
    if not (V.is_intlike(a) and V.is_intlike(b)):
        return False
    return compare("==", a, b)


def byte(b, i):
    return byte_to_int(items_of(b)[i])


def bytes_are(b, expected):
    """b is a concrete-length bytes value whose items equal `expected` (list of int|SInt 0..255)"""
    if not isinstance(b, SBytes) or len(b.items) != len(expected):
        return False
    return And([compare("==", byte_to_int(x), e) for x, e in zip(b.items, expected)])


def le_bytes(v, n):
    """list of n little-endian byte values (int|SInt) of v mod 256**n"""
    return [binop("&", binop(">>", v, 8 * i), 0xFF) for i in range(n)]


def is_int(v):
    return isinstance(v, (int, SInt)) and not isinstance(v, bool)


def is_bool(v):
    return isinstance(v, (bool, SBool))


def is_true(v):
    """v is the boolean True (also when the code computed it symbolically, e.g. `return cs == X`)"""
    if isinstance(v, SBool):
        return v
    return v is True


def is_false(v):
    if isinstance(v, SBool):
        return Not(v)
    return v is False


def is_none(v):
    return v is None


def le_bytes_items(v, n):
    """byte items (for building a bytes value) of v mod 256**n, little endian"""
    return [V.int_to_byte(binop("&", binop(">>", v, 8 * i), 0xFF)) for i in range(n)]


# ---------------------------------------------------------------------------------------------
# lists with unknown prefix, events

def snap(lst):
    """snapshot of an engine list (old-state view)"""
    return lst.snapshot()


def appended(new, old, k):
    """`new` is `old` with exactly k more elements at the end (same unknown prefix, same known elements,
    by identity). -> (bool, [the k new elements])"""
    from .interp import SList
    if not isinstance(new, SList) or not isinstance(old, SList):
        return False, []
    if (new.base is None) != (old.base is None) or (new.base is not None and new.base.name != old.base.name):
        return False, []
    n0 = len(old.items)
    if len(new.items) != n0 + k:
        return False, []
    if not all(a is b for a, b in zip(new.items, old.items)):
        return False, []
    return True, new.items[n0:]


def same_list(new, old):
    ok, _ = appended(new, old, 0)
    return ok


def is_empty_list(v):
    from .interp import SList
    return isinstance(v, SList) and v.base is None and len(v.items) == 0


def expected_calls(lst, args, kwargs=None):
    """events produced by calling every element of lst once, in order, with args (and keyword arguments)"""
    from .interp import Builtin
    ev = []
    kw = (tuple(sorted(kwargs.items())),) if kwargs else ()
    if lst.base is not None:
        ev.append(("foreach-call", lst.base.name, tuple(args)) + kw)
    for it in lst.items:
        if not (isinstance(it, Builtin) and it.name.startswith("cb:")):
            raise V.Unsupported("expected_calls over non-callback element %r" % (it,))
        ev.append(("cb", it.name[3:], tuple(args)) + kw)
    return ev


def ev_eq(interp, a, b):
    """structural equality of event payloads -> bool|SBool"""
    if isinstance(a, (tuple, list)) and isinstance(b, (tuple, list)):
        if len(a) != len(b):
            return False
        return And([ev_eq(interp, x, y) for x, y in zip(a, b)])
    if isinstance(a, (tuple, list)) != isinstance(b, (tuple, list)):
        return False
    return truth_val(interp.equals(a, b))


def events_are(s, expected, kinds=None):
    """the emitted events (optionally only of the given kinds) equal `expected`"""
    ev = [e for e in s.ev if kinds is None or e[0] in kinds]
    return ev_eq(s.w.interp, ev, list(expected))


def sub(b, lo, hi):
    """sub-range of a concrete-length bytes value"""
    return SBytes(items_of(b)[lo:hi], False)


# ---------------------------------------------------------------------------------------------
# byte strings of symbolic or concrete length

def blen(b):
    if isinstance(b, LBytes):
        return b.n
    return len(items_of(b))


def bat(b, i):
    """byte i (int|SInt index, assumed in range) as int|SInt"""
    if isinstance(b, LBytes):
        return byte_to_int(b.at(i))
    its = items_of(b)
    if not is_sym(i):
        return byte_to_int(its[i])
    r = 0
    for k in range(len(its) - 1, -1, -1):
        r = ite(compare("==", i, k), byte_to_int(its[k]), r)
    return r


def same_bytes(a, b, ctx=None, tag="j"):
    """a and b hold the same byte string (any mix of concrete/symbolic length).  For two symbolic-length values the
    claim `forall j < len: a[j] == b[j]` is proved for a fresh (skolem) index."""
    if isinstance(a, SBytes) and isinstance(b, SBytes):
        return V.bytes_eq(a, b)
    if isinstance(a, SBytes):
        a, b = b, a
    if isinstance(b, SBytes):
        n = len(b.items)
        return And([compare("==", a.n, n)] + [compare("==", byte_to_int(a.at(i)), byte_to_int(b.items[i])) for i in range(n)])
    if not (isinstance(a, LBytes) and isinstance(b, LBytes)):
        return False
    c = ctx or V.ctx()
    j = c.fresh_int(tag, 0, 1 << 33)
    return And(compare("==", a.n, b.n), Implies(compare("<", j, a.n), compare("==", bat(a, j), bat(b, j))))


def is_suffix_from(new, old, k):
    """new == old[k:]"""
    if isinstance(new, LBytes) and isinstance(old, LBytes):
        c = V.ctx()
        j = c.fresh_int("js", 0, 1 << 33)
        return And(compare("==", new.n, binop("-", old.n, k)),
                   Implies(compare("<", j, new.n), compare("==", bat(new, j), bat(old, binop("+", j, k)))))
    if isinstance(new, SBytes) and isinstance(old, SBytes):
        return V.bytes_eq(new, SBytes(old.items[k:]))
    return False


def is_extended_by(new, old, chunk_items):
    """new == old ++ chunk (chunk: list of byte values int|SInt)"""
    m = len(chunk_items)
    if isinstance(new, LBytes) and isinstance(old, LBytes):
        c = V.ctx()
        j = c.fresh_int("je", 0, 1 << 33)
        return And([compare("==", new.n, binop("+", old.n, m)),
                    Implies(compare("<", j, old.n), compare("==", bat(new, j), bat(old, j)))]
                   + [compare("==", bat(new, binop("+", old.n, i)), chunk_items[i]) for i in range(m)])
    if isinstance(new, SBytes) and isinstance(old, SBytes):
        if len(new.items) != len(old.items) + m:
            return False
        return And([V.bytes_eq(SBytes(new.items[:len(old.items)]), old)]
                   + [compare("==", byte_to_int(new.items[len(old.items) + i]), chunk_items[i]) for i in range(m)])
    return False


def is_byteslike(v):
    return isinstance(v, (SBytes, LBytes))


def int_item(v):
    """int|SInt in 0..255 -> byte item"""
    return V.int_to_byte(v)

"""Loads function bodies from the *current working tree* source with ast (never cached between runs)
and resolves real classes / functions of the imported package to those ASTs."""
import ast
import importlib
import inspect
import os
import sys

REPO = os.environ.get("PYVC_REPO", "/repo")
VERIF = os.path.dirname(os.path.dirname(os.path.abspath(__file__)))


class FuncDef:
    __slots__ = ("node", "module", "qualname", "cls_name", "file")

    def __init__(self, node, module, qualname, cls_name, file):
        self.node = node
        self.module = module
        self.qualname = qualname
        self.cls_name = cls_name
        self.file = file

    def __repr__(self):
        return "<FuncDef %s:%s>" % (self.module, self.qualname)


class Loader:
    def __init__(self):
        self.funcs = {}      # (module, qualname) -> FuncDef
        self.modules = {}    # module name -> real module
        self.files = {}
        self.parsed = set()

    def interpretable(self, modname):
        return modname is not None and (modname == "canopen" or modname.startswith("canopen.")
                                        or modname.startswith("env.") or modname == "env")

    def module(self, modname):
        if modname not in self.modules:
            m = importlib.import_module(modname)
            self.modules[modname] = m
            self._parse(modname, m)
        return self.modules[modname]

    def _parse(self, modname, m):
        if modname in self.parsed:
            return
        self.parsed.add(modname)
        f = getattr(m, "__file__", None)
        if not f or not f.endswith(".py"):
            return
        with open(f) as fh:
            src = fh.read()
        tree = ast.parse(src, f)
        self.files[modname] = f
        self._walk(tree.body, modname, "", None, f)

    def _walk(self, body, modname, prefix, cls_name, f):
        for node in body:
            if isinstance(node, (ast.FunctionDef,)):
                q = prefix + node.name
                key = (modname, q)
                # property setters share the name with the getter: keep both under distinct keys
                deco = [self._deco_name(d) for d in node.decorator_list]
                if any(d.endswith(".setter") for d in deco):
                    key = (modname, q + ".setter")
                elif any(d.endswith(".deleter") for d in deco):
                    key = (modname, q + ".deleter")
                self.funcs[key] = FuncDef(node, modname, q, cls_name, f)
            elif isinstance(node, ast.ClassDef):
                self._walk(node.body, modname, prefix + node.name + ".", node.name, f)
            elif isinstance(node, (ast.If, ast.Try)):
                self._walk(getattr(node, "body", []), modname, prefix, cls_name, f)

    @staticmethod
    def _deco_name(d):
        try:
            return ast.unparse(d)
        except Exception:
            return ""

    def lookup(self, modname, qualname):
        self.module(modname)
        return self.funcs.get((modname, qualname))

    def func_of(self, pyfunc, setter=False):
        """real python function object -> FuncDef (or None if not interpretable)."""
        pyfunc = inspect.unwrap(pyfunc) if callable(pyfunc) else pyfunc
        mod = getattr(pyfunc, "__module__", None)
        if not self.interpretable(mod):
            return None
        q = pyfunc.__qualname__
        if "<locals>" in q:
            return None
        fd = self.lookup(mod, q + (".setter" if setter else ""))
        return fd


def setup_paths():
    if VERIF not in sys.path:
        sys.path.insert(0, VERIF)
    # the repo package must be the working tree under test
    if REPO not in sys.path:
        sys.path.insert(0, REPO)
    import canopen
    got = os.path.dirname(os.path.dirname(os.path.abspath(canopen.__file__)))
    if os.path.realpath(got) != os.path.realpath(REPO):
        raise RuntimeError("canopen imported from %s, expected %s" % (got, REPO))

"""Models of third-party / stdlib classes used by the anchored code, and the env.rt intrinsics."""
import z3

from . import values as V
from .values import SInt, SBool, SBytes, LBytes, SObj, RealObj, Opaque, Unsupported, PathAbort, truth, truth_val
from .context import PyRaise
from . import interp as I


def install(models):
    B = I.Builtin
    import can
    import threading
    import queue

    # ---- can.Message: record of its keyword arguments (trusted model of python-can) -----------------
    def msg_ctor(interp, timestamp=0.0, arbitration_id=0, is_extended_id=True, is_remote_frame=False,
                 is_error_frame=False, channel=None, dlc=None, data=None, is_fd=False, is_rx=True,
                 bitrate_switch=False, error_state_indicator=False, check=False):
        if data is None or truth(is_remote_frame):
            # python-can drops the payload of a remote frame (a CAN remote frame carries none)
            d = SBytes([], True)
        elif isinstance(data, SBytes) and data.kind == "bytearray":
            d = data                      # python-can keeps a bytearray argument itself (shared, not copied)
        elif isinstance(data, SBytes):
            d = SBytes(data.items, True)
        elif isinstance(data, LBytes):
            d = interp.models.lbytes_concretize(interp, data, 64)
            d = SBytes(d.items, True)
        elif isinstance(data, (I.SList, tuple)):
            d = SBytes([interp.models.check_byte(interp, x) for x in interp.iterate(data)], True)
        else:
            interp.ctx.raise_builtin(TypeError, "Couldn't create message from %s" % interp.tname(data))
        return SObj(can.Message, {"timestamp": timestamp, "arbitration_id": arbitration_id,
                                  "is_extended_id": is_extended_id, "is_remote_frame": is_remote_frame,
                                  "is_error_frame": is_error_frame, "channel": channel,
                                  "dlc": len(d.items) if dlc is None else dlc, "data": d, "is_fd": is_fd,
                                  "is_rx": is_rx})
    models.ctors[can.Message] = msg_ctor

    # ---- threading primitives: sequential execution (A4) -------------------------------------------
    def lock_ctor(interp, *a, **k):
        return SObj(LockModel, {})
    for cls in (threading.Lock, threading.RLock):
        models.ctors[cls] = lock_ctor
        try:
            models.callables[cls] = B("threading.Lock", lock_ctor)
        except TypeError:
            pass
    models.modattrs[("threading", "Lock")] = B("threading.Lock", lock_ctor)
    models.modattrs[("threading", "RLock")] = B("threading.RLock", lock_ctor)

    def cond_ctor(interp, lock=None):
        return SObj(CondModel, {})
    models.ctors[threading.Condition] = cond_ctor
    models.modattrs[("threading", "Condition")] = B("threading.Condition", cond_ctor)

    def m_enter(interp, s, *a):
        return s

    def m_exit(interp, s, *a):
        return False
    for cls in (LockModel, CondModel):
        models.methods[(cls, "__enter__")] = B("lock.__enter__", m_enter)
        models.methods[(cls, "__exit__")] = B("lock.__exit__", m_exit)
        models.methods[(cls, "acquire")] = B("lock.acquire", lambda interp, s, *a, **k: True)
        models.methods[(cls, "release")] = B("lock.release", lambda interp, s: None)
    models.methods[(CondModel, "notify_all")] = B("cond.notify_all", lambda interp, s: interp.ctx.emit("notify_all"))
    models.methods[(CondModel, "notify")] = B("cond.notify", lambda interp, s, n=1: interp.ctx.emit("notify_all"))

    def cond_wait(interp, s, timeout=None):
        h = interp.cond_wait_hook if hasattr(interp, "cond_wait_hook") else None
        if h is None:
            raise Unsupported("Condition.wait without a havoc hook")
        return h(interp, s, timeout)
    models.methods[(CondModel, "wait")] = B("cond.wait", cond_wait)

    # ---- collections.abc.Mapping mixin methods (defined through __iter__ / __getitem__) ----------
    from collections.abc import Mapping

    def mp_keys(interp, s):
        return I._IterVal(interp.iterate(s))

    def mp_values(interp, s):
        return I._IterVal([interp.getitem(s, k) for k in interp.iterate(s)])

    def mp_items(interp, s):
        return I._IterVal([(k, interp.getitem(s, k)) for k in interp.iterate(s)])

    def mp_get(interp, s, k, default=None):
        try:
            return interp.getitem(s, k)
        except PyRaise as e:
            if issubclass(e.exc.cls, KeyError):
                return default
            raise

    def mp_contains(interp, s, k):
        try:
            interp.getitem(s, k)
            return True
        except PyRaise as e:
            if issubclass(e.exc.cls, KeyError):
                return False
            raise
    for nm, fn in (("keys", mp_keys), ("values", mp_values), ("items", mp_items), ("get", mp_get),
                   ("__contains__", mp_contains)):
        models.methods[(Mapping, nm)] = B("Mapping." + nm, fn)

    # ---- io.RawIOBase / IOBase: close / closed / context manager / readall ---------------------
    import io
    import _io

    def io_close(interp, s):
        if not truth(s.fields.get("__closed", False)):
            s.fields["__closed"] = True

    def io_enter(interp, s):
        if truth(s.fields.get("__closed", False)):
            interp.ctx.raise_builtin(ValueError, "I/O operation on closed file.")
        return s

    def io_exit(interp, s, *a):
        interp.call(interp.getattr(s, "close"), [], {})
        return None

    def io_readall(interp, s):
        """RawIOBase.readall: concatenates successive read() results until an empty one (needs a bounded loop)"""
        out = SBytes([], False)
        n = 0
        while True:
            n += 1
            if n > 64:
                raise Unsupported("readall over more than 64 chunks (needs the upload lemma)")
            d = interp.call(interp.getattr(s, "read"), [8192], {})
            if d is None:
                return out if out.items else None
            if isinstance(d, LBytes):
                raise Unsupported("readall over symbolic-length chunks")
            if len(d.items) == 0:
                return out
            out = SBytes(out.items + d.items, False)

    def io_flush(interp, s):
        return None
    for nm, fn in (("close", io_close), ("__enter__", io_enter), ("__exit__", io_exit), ("readall", io_readall),
                   ("flush", io_flush)):
        models.methods[(_io._IOBase, nm)] = B("IOBase." + nm, fn)
    models.methods[(_io._IOBase, "closed")] = B("IOBase.closed", lambda interp, s: s.fields.get("__closed", False))

    # ---- queue.Queue (FIFO; an empty queue asks the environment hook for the next item) -----------
    def queue_ctor(interp, maxsize=0):
        return SObj(QueueModel, {"items": I.SList([])})
    models.ctors[queue.Queue] = queue_ctor
    models.modattrs[("queue", "Queue")] = B("queue.Queue", queue_ctor)
    models.modattrs[("queue", "Empty")] = I.ClassVal(queue.Empty)

    def q_put(interp, q, item, block=True, timeout=None):
        q.fields["items"].items.append(item)

    def q_empty(interp, q):
        lst = q.fields["items"]
        if lst.base is not None:
            return V.compare("==", interp.models.builtin("len").fn(interp, lst), 0)
        return len(lst.items) == 0

    def q_get(interp, q, block=True, timeout=None):
        lst = q.fields["items"]
        if lst.base is not None:
            if truth(V.compare("==", lst.base.length, 0)):
                lst.base = None              # known to be empty on this path
            else:
                raise Unsupported("get from a queue with unknown content")
        if lst.items:
            return lst.items.pop(0)
        h = getattr(interp, "queue_get_hook", None)
        if h is not None:
            return h(interp, q, block, timeout)
        raise PyRaise(SObj(queue.Empty, {"args": ()}))

    def q_get_nowait(interp, q):
        return q_get(interp, q, False)
    for nm, fn in (("put", q_put), ("put_nowait", q_put), ("empty", q_empty), ("get", q_get), ("get_nowait", q_get_nowait)):
        models.methods[(QueueModel, nm)] = B("Queue." + nm, fn)

    # real Lock / Condition objects found in pre-built real state
    def lift_foreign(interp, v):
        if isinstance(v, type(threading.Lock())) or isinstance(v, type(threading.RLock())):
            return SObj(LockModel, {})
        if isinstance(v, threading.Condition):
            return SObj(CondModel, {})
        return None
    models.foreign_lifters.append(lift_foreign)


class LockModel:
    pass


class QueueModel:
    pass


class CondModel:
    pass


def install_stubs(it):
    """env.rt intrinsics (engine side)."""
    def emit(interp, fv, args, kwargs):
        interp.ctx.emit(*args)

    def choose_int(interp, fv, args, kwargs):
        return interp.ctx.fresh_int(*args, **kwargs)

    def choose_bool(interp, fv, args, kwargs):
        return interp.ctx.fresh_bool(*args)

    def choose_bytes(interp, fv, args, kwargs):
        return interp.ctx.fresh_bytes(*args)

    def assume(interp, fv, args, kwargs):
        interp.ctx.assume(truth_val(args[0]))

    def snapshot(interp, fv, args, kwargs):
        b = args[0]
        if isinstance(b, SBytes):
            return SBytes(b.items, False)
        if isinstance(b, LBytes):
            return b.copy(mutable=False)
        if isinstance(b, (I.SList, tuple)):
            return SBytes([interp.models.check_byte(interp, x) for x in interp.iterate(b)], False)
        if b is None:
            interp.ctx.raise_builtin(TypeError, "cannot convert 'NoneType' object to bytes")
        raise Unsupported("snapshot of %r" % (b,))
    def crc_of(interp, fv, args, kwargs):
        from .models import crc_prefix
        b = args[0]
        if isinstance(b, SBytes):
            from .models import crc_fold
            from .values import byte_to_int
            return crc_fold(0, [byte_to_int(x) for x in b.items])
        return crc_prefix(b, b.n)
    it.stubs[("env.rt", "crc_of")] = crc_of

    def segment7(interp, fv, args, kwargs):
        from .values import LBytes, binop, compare, ite, byte_to_int, int_to_byte, truth_val
        b, start = args
        if isinstance(b, LBytes):
            return SBytes([int_to_byte(ite(compare("<", binop("+", start, i), b.n), byte_to_int(b.at(binop("+", start, i))), 0))
                           for i in range(7)], False)
        sl = interp.getitem(b, slice(start, binop("+", start, 7), None))
        return SBytes(list(sl.items) + [0] * (7 - len(sl.items)), False)
    it.stubs[("env.rt", "segment7")] = segment7
    it.stubs.update({("env.rt", "emit"): emit, ("env.rt", "choose_int"): choose_int,
                     ("env.rt", "choose_bool"): choose_bool, ("env.rt", "choose_bytes"): choose_bytes,
                     ("env.rt", "assume"): assume, ("env.rt", "snapshot"): snapshot})

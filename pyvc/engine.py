"""Contract registry, path exploration, obligation discharge, counter-model replay."""
import json
import os
import subprocess
import tempfile
import time
import traceback
import random

import z3

from . import values as V
from .values import SInt, SBool, SBytes, LBytes, SObj, Unsupported, PathAbort, truth_val, And, Or, Not
from .context import Ctx, PyRaise, Stats, model_to_oracle
from .interp import Interp, Builtin
from .models import Models
from .loader import Loader
from . import worlds as Wd

REGISTRY = {}


def contract(cls):
    inst = cls()
    inst.id = cls.__name__ if not getattr(cls, "id", None) else cls.id
    REGISTRY[inst.id] = inst
    return cls


class Contract:
    id = None
    target = ""            # "module:Qual.name" of the function under contract
    functions = ()         # further real functions executed (inlined) under this contract
    props = ()
    cases = {"-": None}
    ensures = {}
    regions = {}           # known-finding regions: name -> predicate(s)
    exits = ("return",)    # exit kinds that must be covered by >=1 path (vacuity guard)
    assumed = ()           # names of assumed (environment) contracts this contract relies on
    max_paths = 4000
    xcheck = True          # contract can be run natively (cross-check / replay)

    def setup(self, w, case):
        raise NotImplementedError

    def observe(self, w):
        return {}

    def stubs(self, interp):
        return {}


class Outcome:
    def __init__(self, w, ret, exc, events):
        self.w = w
        self.pre = w.pre
        self.ret = ret
        self.exc = exc
        self.ev = events

    @property
    def returned(self):
        return self.exc is None

    def raised(self, *classes):
        if self.exc is None:
            return False
        cl = self.exc.cls if isinstance(self.exc, SObj) else type(self.exc)
        if not classes:
            return True
        return any(issubclass(cl, Wd.resolve_class(c) if isinstance(c, str) else c) for c in classes)

    @property
    def code(self):
        """abort code carried by the escaping exception (None when there is none)"""
        if isinstance(self.exc, SObj):
            return self.exc.fields.get("code")
        return getattr(self.exc, "code", None)

    def exit_kind(self):
        if self.exc is None:
            return "return"
        cl = self.exc.cls if isinstance(self.exc, SObj) else type(self.exc)
        return "raise:" + cl.__name__

    def sent(self):
        return [e for e in self.ev if e[0] == "send"]


_LOADER = None
_MODELS = None


def get_loader():
    global _LOADER, _MODELS
    if _LOADER is None:
        from .loader import setup_paths
        setup_paths()
        _LOADER = Loader()
        _MODELS = Models()
        from . import libmodels
        libmodels.install(_MODELS)
    return _LOADER, _MODELS


def new_interp(ctx, contract_obj):
    loader, models = get_loader()
    it = Interp(ctx, loader, models)
    from . import libmodels
    libmodels.install_stubs(it)
    it.stubs.update(contract_obj.stubs(it) or {})
    it.loop_cuts.update(getattr(contract_obj, "loop_cuts", {}) or {})
    it.loop_specs.update(getattr(contract_obj, "loop_specs", {}) or {})
    it.fn_summaries.update(getattr(contract_obj, "fn_summaries", {}) or {})
    it.frozen_time = bool(getattr(contract_obj, "frozen_time", False))
    it.clock_patience = getattr(contract_obj, "clock_patience", None)
    return it


def run_once(contract_obj, case, ctx):
    """Execute setup + call in an engine world. -> Outcome (or raises PathAbort/Unsupported)."""
    V.set_ctx(ctx)
    it = new_interp(ctx, contract_obj)
    w = Wd.EngineWorld(ctx, it)
    call = contract_obj.setup(w, case)
    ret = exc = None
    try:
        ret = w.run(call)
    except PyRaise as e:
        exc = e.exc
    return Outcome(w, ret, exc, ctx.events)


def eval_clauses(contract_obj, s, extra_regions=None):
    out = []
    for name, fn in contract_obj.ensures.items():
        try:
            val = fn(s)
        except V.MissingField:
            raise
        except (KeyError, IndexError, AttributeError, TypeError, ValueError) as e:
            # the outcome does not even have the shape the clause talks about (a field, an event, a result is
            # missing): the clause does not hold on this path
            s.w.ctx.notes.append("clause %s not evaluable: %r" % (name, e))
            val = False
        out.append((name, truth_val(val) if not isinstance(val, (bool, SBool)) else val))
    return out


def discharge(pc, goal, timeout_ms, stats, use_cvc5=True, both=False, inc=None):
    """prove pc => goal. -> (status, model|None, backend).  status in proved/refuted/unknown
    `inc`: the path's incremental solver (pc already asserted): tried first with a short budget, because creating a
    fresh solver per obligation dominates the run time for the many easy obligations"""
    if goal is True:
        return "proved", None, "syntactic"
    neg = z3.BoolVal(True) if goal is False else z3.Not(goal.t)
    if inc is not None and not both and os.environ.get("PYVC_INC") == "1":     # measured slower for bit-vector goals: off
        t0 = time.time()
        inc.push()
        try:
            inc.set("timeout", 2000)
            inc.add(neg)
            r = inc.check()
            m = inc.model() if r == z3.sat else None
        finally:
            inc.pop()
            inc.set("timeout", 5000)
        stats.solver_s += time.time() - t0
        stats.queries = getattr(stats, "queries", 0) + 1
        if r == z3.unsat:
            return "proved", None, "z3-inc"
        if r == z3.sat:
            return "refuted", m, "z3-inc"
    def attempt(ms, intblast=False):
        sv = z3.SimpleSolver() if intblast else z3.Solver()
        sv.set("timeout", int(ms))
        if intblast:
            sv.set("smt.bv.solver", 2)          # z3's int-blasting: bit-vector terms as linear integer arithmetic
        else:
            sv.set("random_seed", 1)
        for c in pc:
            sv.add(c)
        sv.add(neg)
        t0 = time.time()
        try:
            res = sv.check()
        except z3.Z3Exception:
            res = z3.unknown                  # (int-blasting does not implement every operator)
        stats.solver_s += time.time() - t0
        stats.queries = getattr(stats, "queries", 0) + 1
        if os.environ.get("PYVC_DUMP") and time.time() - t0 > 5:
            with open(os.path.join(os.environ["PYVC_DUMP"], "q%d_%s.smt2" % (stats.queries, res)), "w") as _f:
                _f.write(sv.to_smt2())
        return res, sv
    # bit-blasting first with a short budget (decides almost everything in milliseconds), then int-blasting (linear index
    # arithmetic over several symbolic counts is hopeless for the bit-blaster and trivial for the arithmetic solver),
    # then bit-blasting with the full budget
    backend = "z3"
    r, s = attempt(min(timeout_ms, 4000))
    if r == z3.unknown:
        r2, s2 = attempt(min(timeout_ms, 15000), intblast=True)
        if r2 != z3.unknown:
            r, s, backend = r2, s2, "z3-intblast"
        elif timeout_ms > 4000:
            r, s = attempt(timeout_ms)
    if r == z3.unsat:
        if both:
            r2 = cvc5_check(s.to_smt2(), min(timeout_ms, 30000))
            if r2 == "sat":
                return "unknown", None, "z3-unsat/cvc5-sat DISAGREE"
            return "proved", None, backend + "+cvc5" if r2 == "unsat" else backend
        return "proved", None, backend
    if r == z3.sat:
        return "refuted", s.model(), backend
    if use_cvc5:
        r2 = cvc5_check(s.to_smt2(), timeout_ms * 3)
        if r2 == "unsat":
            return "proved", None, "cvc5"
        if r2 == "sat":
            # get a model from z3 with a longer budget; otherwise report without model
            s.set("timeout", timeout_ms * 6)
            if s.check() == z3.sat:
                return "refuted", s.model(), "cvc5+z3"
            return "refuted", None, "cvc5"
    return "unknown", None, "-"


def cvc5_check(smt2, timeout_ms):
    exe = "/usr/bin/cvc5"
    if not os.path.exists(exe):
        return "unknown"
    d = os.path.join(os.path.dirname(os.path.dirname(os.path.abspath(__file__))), ".scratch")
    os.makedirs(d, exist_ok=True)
    fd, path = tempfile.mkstemp(suffix=".smt2", dir=d)
    try:
        with os.fdopen(fd, "w") as f:
            f.write("(set-logic QF_AUFBV)\n" + smt2 + "\n")
        try:
            p = subprocess.run([exe, "--lang=smt2", "--tlimit=%d" % timeout_ms, path], capture_output=True,
                               text=True, timeout=timeout_ms / 1000.0 + 5)
        except subprocess.TimeoutExpired:
            return "unknown"
        out = p.stdout.strip().splitlines()
        if out and out[0] in ("sat", "unsat"):
            return out[0]
        return "unknown"
    finally:
        try:
            os.unlink(path)
        except OSError:
            pass


def case_value(c, case_id):
    """cases: the quick family; cases_thorough: further members explored only by the thorough tier"""
    extra = getattr(c, "cases_thorough", None) or {}
    if isinstance(c.cases, dict):
        return c.cases[case_id] if case_id in c.cases else extra[case_id]
    return case_id


def case_ids(c, tier):
    ids = list(c.cases)
    if tier == "thorough":
        ids += [k for k in (getattr(c, "cases_thorough", None) or {}) if k not in c.cases]
    return ids


def run_case(cid, case_id, tier="quick", known_regions=None, seed=0):
    """Explore all paths of one contract case, discharge every clause on every path."""
    t_start = time.time()
    c = REGISTRY[cid]
    case = case_value(c, case_id)
    timeout = 20000 if tier == "quick" else 90000
    budget_s = getattr(c, "budget_s", 600)
    if tier != "quick":
        budget_s = max(1800, 4 * budget_s)      # both back ends on every obligation
    both = tier == "thorough"
    stats = Stats()
    stats.queries = 0
    stats.deadline = t_start + budget_s
    stats.intblast = bool(getattr(c, "intblast", False))
    res = {"contract": cid, "case": case_id, "target": c.target, "paths": 0, "clauses": {}, "exits": {},
           "undecided": None, "by_backend": {}, "exact": "proved", "sample_pre": None}
    for name in c.ensures:
        res["clauses"][name] = {"status": "proved", "paths": 0}
    known_regions = known_regions or {}
    work = [[]]
    npaths = 0
    try:
        while work:
            dec = work.pop()
            ctx = Ctx("sym", decisions=dec, stats=stats)
            try:
                s = run_once(c, case, ctx)
                clauses = eval_clauses(c, s)
                regions = {}
                for cname, rnames in known_regions.items():
                    regions[cname] = [truth_val(c.regions[r](s)) for r in rnames]
            except PathAbort:
                work.extend(ctx.new_alternatives)
                side_obligations(res, ctx, timeout, stats, both)
                continue
            work.extend(ctx.new_alternatives)
            side_obligations(res, ctx, timeout, stats, both)
            npaths += 1
            if npaths > c.max_paths:
                raise Unsupported("path budget exceeded (%d)" % c.max_paths)
            if time.time() - t_start > budget_s:
                raise Unsupported("time budget exceeded (%ds, %d paths)" % (budget_s, npaths))
            k = s.exit_kind()
            res["exits"][k] = res["exits"].get(k, 0) + 1
            if res["sample_pre"] is None:
                res["sample_pre"] = sample_model(ctx)
            # exactness of the arithmetic model on this path
            if ctx.exact and res["exact"] == "proved":
                st, m, be = discharge(ctx.pc, V.mk_bool(z3.And(*ctx.exact)), timeout, stats, inc=ctx.solver)
                if st != "proved":
                    res["exact"] = "failed"
                    res["exact_detail"] = {"decisions": dec_str(ctx), "status": st,
                                           "oracle": jsonable(model_to_oracle(m, ctx.symbols)) if m is not None else None}
            for name, goal in clauses:
                ent = res["clauses"][name]
                ent["paths"] += 1
                if name in regions and goal is not True:
                    goal = Or(*(regions[name] + [goal]))
                    if not isinstance(goal, (bool, SBool)):
                        goal = truth_val(goal)
                _t0 = time.time()
                st, m, be = discharge(ctx.pc, goal, timeout, stats, both=both, inc=ctx.solver)
                ent["max_s"] = round(max(ent.get("max_s", 0.0), time.time() - _t0), 2)
                res["by_backend"][be] = res["by_backend"].get(be, 0) + 1
                if st == "proved":
                    continue
                if st == "refuted":
                    if ent["status"] != "refuted":
                        ent["status"] = "refuted"
                        ent["cex"] = []
                    if len(ent["cex"]) < 3:
                        oracle = model_to_oracle(m, ctx.symbols) if m is not None else None
                        ent["cex"].append({"oracle": jsonable(oracle), "exit": k, "decisions": dec_str(ctx),
                                           "backend": be})
                elif ent["status"] == "proved":
                    ent["status"] = "unknown"
                    ent["unknown_at"] = dec_str(ctx)
    except Unsupported as e:
        res["undecided"] = "unsupported: %s" % e
    except PyRaise as e:
        res["undecided"] = "exception in contract setup/spec: %r" % (e.exc,)
    except Exception as e:
        res["undecided"] = "engine error: %s" % traceback.format_exc(limit=8)
        res["crash"] = True
    res["paths"] = npaths
    res["feas_queries"] = stats.feas_queries
    res["queries"] = stats.queries
    res["solver_s"] = round(stats.solver_s, 3)
    res["wall_s"] = round(time.time() - t_start, 3)
    missing = [e for e in c.exits if e not in res["exits"]]
    if missing and not res["undecided"]:
        res["uncovered_exits"] = missing
    return res


def side_obligations(res, ctx, timeout, stats, both):
    for name, goal, pc in ctx.side_obligations:
        ent = res["clauses"].setdefault(name, {"status": "proved", "paths": 0, "side": True})
        ent["paths"] += 1
        _t0 = time.time()
        st, m, be = discharge(pc, goal, timeout, stats, both=both)
        ent["max_s"] = round(max(ent.get("max_s", 0.0), time.time() - _t0), 2)
        res["by_backend"][be] = res["by_backend"].get(be, 0) + 1
        if st == "proved":
            continue
        if st == "refuted":
            if ent["status"] != "refuted":
                ent["status"] = "refuted"
                ent["cex"] = []
            if len(ent["cex"]) < 2:
                ent["cex"].append({"oracle": jsonable(model_to_oracle(m, ctx.symbols)) if m is not None else None,
                                   "exit": "loop", "decisions": dec_str(ctx), "backend": be,
                                   "replay": {"status": "no-concretiser", "why": "loop obligation over a havoc'd state"}})
        elif ent["status"] == "proved":
            ent["status"] = "unknown"
            ent["unknown_at"] = dec_str(ctx)


def dec_str(ctx):
    return "".join("T" if d else "F" for d in ctx.decisions)


def jsonable(o):
    if o is None:
        return None
    out = {}
    for k, v in o.items():
        out[k] = v.hex() if isinstance(v, (bytes, bytearray)) else v
        if isinstance(v, (bytes, bytearray)):
            out[k] = {"hex": v.hex()}
    return out


def unjson(o):
    out = {}
    for k, v in (o or {}).items():
        out[k] = bytes.fromhex(v["hex"]) if isinstance(v, dict) and "hex" in v else v
    return out


def sample_model(ctx):
    s = z3.Solver()
    s.set("timeout", 3000)
    for c in ctx.pc:
        s.add(c)
    if s.check() == z3.sat:
        o = jsonable(model_to_oracle(s.model(), ctx.symbols))
        return {k: o[k] for k in list(o)[:12]}
    return None


# --------------------------------------------------------------------------------------------
# concrete runs: engine (conc mode) and native

class _TimeLimit:
    """wall-clock limit for concrete / native executions (a changed tree may not terminate)"""

    def __init__(self, seconds):
        self.seconds = seconds

    def __enter__(self):
        import signal
        import threading
        self.active = threading.current_thread() is threading.main_thread()
        if self.active:
            def _raise(signum, frame):
                raise Unsupported("concrete execution exceeded %d s (non-terminating?)" % self.seconds)
            self.old = signal.signal(signal.SIGALRM, _raise)
            signal.setitimer(signal.ITIMER_REAL, self.seconds)
        return self

    def __exit__(self, *a):
        if self.active:
            import signal
            signal.setitimer(signal.ITIMER_REAL, 0)
            signal.signal(signal.SIGALRM, self.old)
        return False


def run_conc(cid, case_id, oracle, seed=0):
    """Engine in concrete mode. -> dict(outcome, clauses{name: bool}, oracle)"""
    c = REGISTRY[cid]
    case = case_value(c, case_id)
    ctx = Ctx("conc", oracle=dict(oracle or {}), rng=random.Random(seed))
    with _TimeLimit(30):
        s = run_once(c, case, ctx)
    clauses = {}
    for name, goal in eval_clauses(c, s):
        if isinstance(goal, SBool):
            raise Unsupported("clause %s symbolic in concrete mode" % name)
        clauses[name] = bool(goal)
    regions = {}
    for name, fn in c.regions.items():
        regions[name] = bool(truth_val(fn(s)))
    obs = c.observe(s.w)
    out = {"exit": s.exit_kind(), "ret": Wd.normalize(s.ret), "exc": Wd.normalize(s.exc),
           "events": Wd.normalize(list(s.ev)), "observe": Wd.normalize(obs)}
    return {"outcome": out, "clauses": clauses, "regions": regions, "oracle": ctx.oracle}


def run_native(cid, case_id, oracle):
    """Real code under CPython with the same pre-state. -> outcome dict"""
    c = REGISTRY[cid]
    case = case_value(c, case_id)
    get_loader()
    w = Wd.NativeWorld(dict(oracle))
    # contracts with a patient clock: natively the wait loop spins until its REAL deadline and asks the environment more
    # often than the proof-world path did; the environment then repeats its last answer (env/rt.py).  Every other contract
    # keeps the strict rule (a name the oracle lacks ends the native run: sample skipped / replay not reproduced)
    Wd.NativeRT.repeat_last = getattr(c, "clock_patience", None) is not None
    call = c.setup(w, case)
    ret = exc = None
    try:
        with _TimeLimit(30):
            ret = w.run(call)
    except Wd.NativeAbort:
        raise
    except Unsupported:
        raise
    except Exception as e:
        exc = e
    kind = "return" if exc is None else "raise:" + type(exc).__name__
    return {"exit": kind, "ret": Wd.normalize(ret), "exc": Wd.normalize(exc),
            "events": Wd.normalize(list(Wd.NativeRT.events)), "observe": Wd.normalize(c.observe(w))}


def same_outcome(a, b):
    return all(Wd.strip_unknown(a[k], b[k]) for k in ("exit", "ret", "exc", "events", "observe"))


def xcheck(cid, case_id, n, seed):
    """CPython cross-check: n random pre-states, engine(conc) vs native. -> (runs, mismatches[])"""
    c = REGISTRY[cid]
    if not c.xcheck:
        return 0, []
    n = min(n, getattr(c, "xcheck_n", n)) if n <= 20 else min(n, 10 * getattr(c, "xcheck_n", n))
    rng = random.Random(seed)
    runs = 0
    bad = []
    attempts = 0
    while runs < n and attempts < n * 6:
        attempts += 1
        try:
            r = run_conc(cid, case_id, {}, seed=rng.randrange(1 << 30))
        except PathAbort:
            continue
        except Unsupported as e:
            bad.append({"error": "engine unsupported in concrete mode: %s" % e})
            break
        try:
            nat = run_native(cid, case_id, r["oracle"])
        except Wd.NativeAbort:
            continue
        except Unsupported as e:
            bad.append({"error": "native run: %s" % e})
            break
        runs += 1
        if not same_outcome(r["outcome"], nat):
            bad.append({"oracle": jsonable(r["oracle"]), "engine": r["outcome"], "native": nat})
            if len(bad) >= 3:
                break
    return runs, bad


def search_witness(cid, case_id, trials=300, seed=0, budget_s=25):
    """Bounded concrete search for a failing input of the SAME contract case after the solver refuted an obligation
    whose counter-model does not replay (typically a loop-step obligation: its model is a havoc'd loop-head state, not
    an input): random small pre-states, engine in concrete mode; a run on which an ensures clause is false and on which
    CPython agrees with the engine is a genuine failing input.  -> cex dict | None"""
    c = REGISTRY[cid]
    rng = random.Random(seed * 7919 + 13)
    t0 = time.time()
    for i in range(trials):
        if time.time() - t0 > budget_s:
            break
        try:
            r = run_conc(cid, case_id, {}, seed=rng.randrange(1 << 30))
        except (PathAbort, Unsupported, PyRaise):
            continue
        except Exception:
            continue
        failed = [k for k, v in r["clauses"].items() if v is False and not any(r["regions"].get(x) for x in ())]
        if not failed:
            continue
        rep = {"engine": r["outcome"], "clause_value": False, "regions": r["regions"]}
        if c.xcheck:
            try:
                nat = run_native(cid, case_id, r["oracle"])
            except Exception:
                continue
            if not same_outcome(r["outcome"], nat):
                continue
            rep["native"] = nat
            rep["status"] = "reproduced"
        else:
            rep["status"] = "reproduced-engine-only"
        return {"oracle": jsonable(r["oracle"]), "exit": r["outcome"]["exit"], "backend": "concrete-search", "replay": rep,
                "clause_override": failed[0],
                "found_by": "bounded concrete search of the same contract case (trial %d of at most %d)" % (i + 1, trials)}
    return None


def replay(cid, case_id, clause, oracle):
    """Validate a counter-model: engine(conc) must falsify the clause, native must agree with engine.
    -> dict(status: reproduced|engine-mismatch|model-not-confirmed, ...)"""
    try:
        r = run_conc(cid, case_id, oracle)
    except PathAbort:
        return {"status": "model-not-confirmed", "why": "pre-state rejected in concrete mode"}
    except Unsupported as e:
        return {"status": "model-not-confirmed", "why": "unsupported in concrete mode: %s" % e}
    out = {"engine": r["outcome"], "clause_value": r["clauses"].get(clause), "regions": r["regions"]}
    if r["clauses"].get(clause) is not False:
        out["status"] = "model-not-confirmed"
        out["why"] = "clause holds on the model in concrete mode"
        return out
    c = REGISTRY[cid]
    if not c.xcheck:
        out["status"] = "reproduced-engine-only"
        return out
    try:
        nat = run_native(cid, case_id, r["oracle"])
    except Wd.NativeAbort as e:
        out["status"] = "model-not-confirmed"
        out["why"] = "native world rejected the pre-state: %s" % e
        return out
    except Unsupported as e:
        out["status"] = "model-not-confirmed"
        out["why"] = "native run: %s" % e
        return out
    out["native"] = nat
    out["status"] = "reproduced" if same_outcome(r["outcome"], nat) else "engine-mismatch"
    return out

"""Worlds: one contract `setup` text builds the pre-state in three worlds
   - SymWorld  : engine values, fresh symbols                       (proof)
   - ConcWorld : engine values, concrete values from an oracle      (model validation / xcheck)
   - NativeWorld: real objects of the real classes, same oracle     (native replay / xcheck)
and `normalize` maps outcomes of all worlds to one comparable JSON-able form."""
import importlib
import random

from . import values as V
from .values import SInt, SBool, SBytes, LBytes, SObj, RealObj, Opaque, PathAbort, Unsupported
from . import interp as I
from .context import PyRaise


class Call:
    """What to run: a method of an object, or a module-level function."""

    def __init__(self, target, args=(), kwargs=None, name=None):
        self.target = target      # ("method", obj, "name") | ("func", "module", "qualname") | ("setattr", obj, name)
        self.args = list(args)
        self.kwargs = dict(kwargs or {})


class EngineWorld:
    native = False

    def __init__(self, ctx, interp):
        self.ctx = ctx
        self.interp = interp
        self.pre = {}

    # inputs
    def int(self, name, lo=None, hi=None):
        return self.ctx.fresh_int(name, lo, hi)

    def bool(self, name):
        return self.ctx.fresh_bool(name)

    def bytes(self, name, n, mutable=False):
        return self.ctx.fresh_bytes(name, n, mutable)

    def lbytes(self, name, nlo=0, nhi=(1 << 32) - 1, mutable=False):
        return self.ctx.fresh_lbytes(name, nlo, nhi, mutable)

    def assume(self, c):
        self.ctx.assume(c)

    def choose(self, v, domain):
        """concretise a small symbolic int by forking"""
        return self.ctx.choose(v, domain)

    # construction
    def obj(self, cls, **fields):
        if isinstance(cls, str):
            cls = resolve_class(cls)
        check_private_fields(cls, fields)
        o = SObj(cls, {k: self.val(v) for k, v in fields.items()})
        return o

    def val(self, v):
        """native literal -> engine value"""
        if isinstance(v, (bytes, bytearray)):
            return SBytes(list(v), isinstance(v, bytearray))
        if isinstance(v, list):
            return I.SList([self.val(x) for x in v])
        if isinstance(v, dict):
            return I.SDict({k: self.val(x) for k, x in v.items()})
        if isinstance(v, tuple):
            return tuple(self.val(x) for x in v)
        return v

    def bytearray(self, items):
        return SBytes(list(items.items) if isinstance(items, SBytes) else list(items), True)

    def bytes_of(self, items):
        its = list(items.items) if isinstance(items, SBytes) else list(items)
        return SBytes([V.int_to_byte(x) if isinstance(x, (SInt, SBool)) else x for x in its], False)

    def empty_prefix_of(self, data):
        """an empty bytearray; in the proof world it is represented as the length-0 prefix of `data`'s own array, so that
        appending data[0:k] keeps it structurally a prefix of data"""
        if isinstance(data, LBytes):
            return LBytes(data.arr, data.off, 0, True)
        return SBytes([], True)

    def inttext(self, v, style="0x%X"):
        """the text of integer v in the given spelling ("0x%X" or "%d")"""
        if isinstance(v, int):
            return style % v if v >= 0 or style == "%d" else "0x-%X" % -v
        return Opaque("inttext", (v, style))

    def memoryview(self, b):
        mv = SBytes(b.items, False)
        mv.kind = "memoryview"
        return mv

    def list(self, items):
        return I.SList(items)

    def dict(self, d):
        return I.SDict(d)

    def real(self, x):
        """a real (immutable) object from the imported repo, e.g. a class attribute"""
        return self.interp.lift(x)

    def cls(self, dotted):
        return I.ClassVal(resolve_class(dotted))

    def func(self, module, qualname):
        mod = self.interp.loader.module(module)
        o = mod
        for part in qualname.split("."):
            if not hasattr(o, part):
                raise MissingTarget("%s:%s" % (module, qualname))
            o = getattr(o, part)
        return self.interp.lift(o)

    def callback(self, name, ret=None):
        """a user callback: records ('cb', name, args) and returns ret"""
        def fn(interp, *a, **k):
            if k:
                interp.ctx.emit("cb", name, tuple(a), tuple(sorted(k.items())))
            else:
                interp.ctx.emit("cb", name, tuple(a))
            return ret
        return I.Builtin("cb:" + name, fn)

    def snap(self, lst):
        return lst.snapshot()

    def lookup(self, d, k):
        """value bound to k in a (possibly opaque) dict, or ABSENT"""
        if d.base is not None:
            return self.interp.pdict_lookup(d, k)
        if V.is_sym(k):
            raise Unsupported("symbolic key on concrete dict in setup")
        return d.d.get(k, V.ABSENT)

    def pick(self, lst, name):
        """a callback that may or may not be a member of lst (concrete worlds: the first element or a new one)"""
        if lst is not V.ABSENT and lst.base is None and lst.items and self.ctx.fresh_bool(name + ".member"):
            return lst.items[0]
        return self.callback(name)

    def new_condition(self):
        from .libmodels import CondModel
        return SObj(CondModel, {})

    def new_lock(self):
        from .libmodels import LockModel
        return SObj(LockModel, {})

    def new_queue(self, items=()):
        from .libmodels import QueueModel
        if isinstance(items, I.SList):
            return SObj(QueueModel, {"items": items})
        return SObj(QueueModel, {"items": I.SList(list(items))})

    def plist(self, name, maxn=3, elem=None, silent=False):
        """an arbitrary list (history abstraction): unknown prefix in the proof world, 0..maxn concrete
        elements (callbacks unless `elem(i)` builds something else) in the concrete worlds; silent: every element,
        when called, returns None (the elements built by `elem` must do so too)"""
        if self.ctx.mode == "sym":
            return I.SList([], I.PBase(name, self.ctx.fresh_int(name + ".len", 0, 1 << 31), silent))
        n = self.ctx.fresh_int(name + ".len", 0, maxn)
        mk = elem or (lambda i: self.callback("%s[%d]" % (name, i)))
        return I.SList([mk(i) for i in range(n)])

    def pdict(self, name, near, value, maxn=3):
        """an arbitrary int-keyed map: opaque in the proof world; in the concrete worlds each key in `near`
        (plus a few random ones) is present or not by the oracle. value(tag) builds the value for a key."""
        if self.ctx.mode == "sym":
            return I.SDict({}, base=name, valfactory=lambda interp, tag: value(tag))
        d = {}
        for i, k in enumerate(near):
            if self.ctx.fresh_bool("%s.has%d" % (name, i)):
                d[k] = value("%s[%d]" % (name, i))
        for j in range(self.ctx.fresh_int(name + ".extra", 0, maxn)):
            k = self.ctx.fresh_int("%s.k%d" % (name, j), 0, 0x7FF)
            if k not in d:
                d[k] = value("%s[x%d]" % (name, j))
        return I.SDict(d)

    # running
    def run(self, call):
        it = self.interp
        t = call.target
        if t[0] == "method":
            if isinstance(t[1], SObj) and it.find_class_attr(t[1].cls, t[2]) is I._NOTFOUND and t[2] not in t[1].fields:
                raise MissingTarget("%s.%s" % (getattr(t[1].cls, "__name__", t[1].cls), t[2]))
            f = it.getattr(t[1], t[2])
            return it.call(f, call.args, call.kwargs)
        if t[0] == "func":
            return it.call(self.func(t[1], t[2]), call.args, call.kwargs)
        if t[0] == "setattr":
            it.setattr(t[1], t[2], call.args[0])
            return None
        if t[0] == "getattr":
            return it.getattr(t[1], t[2])
        if t[0] == "new":
            return it.instantiate(resolve_class(t[1]) if isinstance(t[1], str) else t[1], call.args, call.kwargs)
        if t[0] == "getitem":
            return it.getitem(t[1], call.args[0])
        if t[0] == "setitem":
            return it.setitem(t[1], call.args[0], call.args[1])
        raise Unsupported("call target %r" % (t,))

    def setfield(self, obj, name, v):
        if isinstance(obj, SObj):
            check_private_fields(obj.cls, [name])
        obj.fields[name] = v

    def get(self, obj, name):
        """read a field for specs (no property evaluation)"""
        if isinstance(obj, SObj):
            if name not in obj.fields and V._private(name):
                raise V.MissingField(name)
            return obj.fields.get(name)
        return self.interp.getattr(obj, name)


class MissingTarget(Unsupported):
    """the function or method a contract is written for does not exist (any more): undecided, never a violation"""

    def __str__(self):
        return "the contracted function %s does not exist in the current source (renamed or removed?)" % (self.args[0],)


_DECLARED = {}


def declared_attrs(cls):
    """names a real (canopen) class gives its instances: `self.<name> = ...` anywhere in the class or its canopen bases,
    class-level names, methods and properties - read from the current source"""
    if cls in _DECLARED:
        return _DECLARED[cls]
    import ast, inspect, sys
    names = set()
    for k in cls.__mro__:
        mod = getattr(k, "__module__", "") or ""
        if not (mod == "canopen" or mod.startswith("canopen.") or mod.startswith("env.")):
            names.update(n for n in vars(k))
            continue
        try:
            tree = ast.parse(inspect.getsource(sys.modules[mod]))
        except (OSError, TypeError, KeyError):
            return None
        for node in ast.walk(tree):
            if isinstance(node, ast.ClassDef) and node.name == k.__name__:
                for n in ast.walk(node):
                    if isinstance(n, ast.Attribute) and isinstance(n.ctx, ast.Store):
                        names.add(n.attr)        # self.x = ... (also other.x = ...: over-approximation is harmless)
                    elif isinstance(n, (ast.FunctionDef, ast.AsyncFunctionDef, ast.ClassDef)):
                        names.add(n.name)
                    elif isinstance(n, ast.Name) and isinstance(n.ctx, ast.Store):
                        names.add(n.id)
    _DECLARED[cls] = names
    return names


def check_private_fields(cls, fields):
    """a contract builds its pre-state through attribute names; a PRIVATE name the class no longer uses means the
    implementation detail was renamed or removed: the contract is not applicable as written (undecided)"""
    if not any((getattr(k, "__module__", "") or "").split(".")[0] == "canopen" for k in cls.__mro__):
        return
    names = declared_attrs(cls)
    if names is None:
        return
    for k in fields:
        if V._private(k) and k not in names:
            raise V.MissingField(k)


def resolve_class(dotted):
    mod, _, name = dotted.rpartition(":") if ":" in dotted else dotted.rpartition(".")
    m = importlib.import_module(mod)
    o = m
    for part in name.split("."):
        o = getattr(o, part)
    return o


class NativeRT:
    """runtime used by env models when executed natively"""
    events = []
    oracle = {}
    names = {}
    repeat_last = False
    rng = random.Random(0)

    @classmethod
    def reset(cls, oracle):
        cls.events = []
        cls.oracle = oracle
        cls.names = {}

    @classmethod
    def uniq(cls, name):
        k = cls.names.get(name, 0)
        cls.names[name] = k + 1
        return name if k == 0 else "%s#%d" % (name, k)


class NativeAbort(Exception):
    pass


class NativeCond:
    """native stand-in for threading.Condition recording the same events as the engine model"""

    def __enter__(self):
        return self

    def __exit__(self, *a):
        return False

    def notify_all(self):
        NativeRT.events.append(("notify_all",))

    notify = notify_all

    def wait(self, timeout=None):
        raise NativeAbort("Condition.wait is modelled only in the proof world")


class NativeWorld:
    """Builds real objects; values come from the oracle (all names must be present)."""
    native = True

    def __init__(self, oracle):
        self.oracle = oracle
        self.pre = {}
        NativeRT.reset(oracle)

    def _get(self, name):
        name = NativeRT.uniq(name)
        if name not in self.oracle:
            raise NativeAbort("oracle has no value for " + name)
        return self.oracle[name]

    def int(self, name, lo=None, hi=None):
        v = int(self._get(name))
        if (lo is not None and v < lo) or (hi is not None and v > hi):
            raise NativeAbort("oracle value out of range")
        return v

    def bool(self, name):
        return bool(self._get(name))

    def bytes(self, name, n, mutable=False):
        b = bytes(self._get(name))
        b = (b + bytes(n))[:n]
        return bytearray(b) if mutable else b

    def lbytes(self, name, nlo=0, nhi=(1 << 32) - 1, mutable=False):
        b = bytes(self._get(name))
        if not (nlo <= len(b) <= nhi):
            raise NativeAbort("oracle length out of range")
        return bytearray(b) if mutable else b

    def assume(self, c):
        if not c:
            raise NativeAbort("assumption false")

    def choose(self, v, domain):
        return v

    def obj(self, cls, **fields):
        if isinstance(cls, str):
            cls = resolve_class(cls)
        check_private_fields(cls, fields)
        o = cls.__new__(cls)
        for k, v in fields.items():
            try:
                object.__setattr__(o, k, v)
            except AttributeError:
                o.__dict__[k] = v
        return o

    def val(self, v):
        return v

    def bytearray(self, items):
        return bytearray(items)

    def bytes_of(self, items):
        return bytes(items)

    def empty_prefix_of(self, data):
        return bytearray()

    def inttext(self, v, style="0x%X"):
        return style % v if v >= 0 or style == "%d" else "0x-%X" % -v

    def memoryview(self, b):
        return memoryview(b)

    def list(self, items):
        return list(items)

    def dict(self, d):
        return dict(d)

    def real(self, x):
        return x

    def cls(self, dotted):
        return resolve_class(dotted)

    def func(self, module, qualname):
        o = importlib.import_module(module)
        for part in qualname.split("."):
            o = getattr(o, part)
        return o

    def callback(self, name, ret=None):
        def fn(*a, **k):
            if k:
                NativeRT.events.append(("cb", name, tuple(a), tuple(sorted(k.items()))))
            else:
                NativeRT.events.append(("cb", name, tuple(a)))
            return ret
        return fn

    def snap(self, lst):
        return list(lst)

    def lookup(self, d, k):
        return d.get(k, V.ABSENT)

    def pick(self, lst, name):
        if lst is not V.ABSENT and lst and self.bool(name + ".member"):
            return lst[0]
        return self.callback(name)

    def new_condition(self):
        return NativeCond()

    def new_lock(self):
        import threading
        return threading.Lock()

    def new_queue(self, items=()):
        import queue
        q = queue.Queue()
        for x in items:
            q.put(x)
        return q

    def plist(self, name, maxn=3, elem=None, silent=False):
        n = self.int(name + ".len", 0, maxn)
        mk = elem or (lambda i: self.callback("%s[%d]" % (name, i)))
        return [mk(i) for i in range(n)]

    def pdict(self, name, near, value, maxn=3):
        d = {}
        for i, k in enumerate(near):
            if self.bool("%s.has%d" % (name, i)):
                d[k] = value("%s[%d]" % (name, i))
        for j in range(self.int(name + ".extra", 0, maxn)):
            k = self.int("%s.k%d" % (name, j), 0, 0x7FF)
            if k not in d:
                d[k] = value("%s[x%d]" % (name, j))
        return d

    def run(self, call):
        t = call.target
        if t[0] == "method":
            return getattr(t[1], t[2])(*call.args, **call.kwargs)
        if t[0] == "func":
            return self.func(t[1], t[2])(*call.args, **call.kwargs)
        if t[0] == "setattr":
            setattr(t[1], t[2], call.args[0])
            return None
        if t[0] == "getattr":
            return getattr(t[1], t[2])
        if t[0] == "new":
            c = resolve_class(t[1]) if isinstance(t[1], str) else t[1]
            return c(*call.args, **call.kwargs)
        if t[0] == "getitem":
            return t[1][call.args[0]]
        if t[0] == "setitem":
            t[1][call.args[0]] = call.args[1]
            return None
        raise Unsupported("call target %r" % (t,))

    def setfield(self, obj, name, v):
        check_private_fields(type(obj), [name])
        setattr(obj, name, v)

    def get(self, obj, name):
        return getattr(obj, name)


MSG_FIELDS = ("arbitration_id", "channel", "data", "dlc", "is_error_frame", "is_extended_id", "is_fd",
              "is_remote_frame", "is_rx", "timestamp")


# --------------------------------------------------------------------------------------------
def normalize(v, depth=3, seen=None):
    """engine value or native value -> comparable JSON-able structure."""
    if type(v).__name__ == "_UninitializedNetwork":
        return ["obj", "_UninitializedNetwork"]
    if v is V.ABSENT:
        return ["absent"]
    if v is None or isinstance(v, (bool, str)):
        return v
    if isinstance(v, int):
        return v
    if isinstance(v, float):
        return ["float", repr(v)]
    if isinstance(v, (SInt, SBool)):
        return ["sym"]
    if isinstance(v, SBytes):
        if v.is_concrete():
            return ["bytes", bytes(v.items).hex()]
        return ["bytes", "sym"]
    if isinstance(v, (bytes, bytearray, memoryview)):
        return ["bytes", bytes(v).hex()]
    if isinstance(v, LBytes):
        return ["bytes", "symlen"]
    if isinstance(v, Opaque):
        if v.what == "str":
            return ["str?"]
        if v.what == "float":
            return ["float?"]
        return ["opaque", v.what]
    if isinstance(v, I.SList):
        return ["list"] + [normalize(x, depth - 1) for x in v.items]
    if isinstance(v, list):
        return ["list"] + [normalize(x, depth - 1) for x in v]
    if isinstance(v, tuple):
        return ["tuple"] + [normalize(x, depth - 1) for x in v]
    if isinstance(v, I.SDict):
        return ["dict"] + [[normalize(k), normalize(x, depth - 1)] for k, x in v.d.items()]
    if isinstance(v, dict):
        return ["dict"] + [[normalize(k), normalize(x, depth - 1)] for k, x in v.items()]
    if isinstance(v, (I.FuncVal, I.BoundMethod, I.Builtin)) or callable(v) and not isinstance(v, type):
        return ["callable"]
    if isinstance(v, I.ClassVal):
        return ["class", v.cls.__name__]
    if isinstance(v, type):
        return ["class", v.__name__]
    if isinstance(v, RealObj):
        if type(v.obj).__name__ == "_UninitializedNetwork":
            return ["obj", "_UninitializedNetwork"]
        return normalize(v.obj, depth)
    if isinstance(v, SObj) and v.cls.__name__ == "QueueModel":
        return ["queue"] + [normalize(x, depth - 1) for x in v.fields["items"].items]
    if type(v).__name__ == "Queue" and type(v).__module__ == "queue":
        return ["queue"] + [normalize(x, depth - 1) for x in list(v.queue)]
    if isinstance(v, SObj) and v.cls.__name__ in ("LockModel", "CondModel"):
        return ["obj", "lock"]
    if type(v).__name__ in ("lock", "RLock", "NativeCond", "Condition"):
        return ["obj", "lock"]
    if type(v).__name__ == "Message" and type(v).__module__.startswith("can"):
        if depth <= 0:
            return ["obj", "Message"]
        return ["obj", "Message", {k: normalize(getattr(v, k), depth - 1) for k in MSG_FIELDS}]
    if isinstance(v, SObj):
        if issubclass(v.cls, BaseException):
            return ["exc", v.cls.__name__] + ([normalize(v.fields.get("code"))] if "code" in v.fields else [])
        if depth <= 0:
            return ["obj", v.cls.__name__]
        return ["obj", v.cls.__name__, {k: normalize(x, depth - 1) for k, x in sorted(v.fields.items())
                                       if not k.startswith("__")}]
    if isinstance(v, BaseException):
        return ["exc", type(v).__name__] + ([normalize(getattr(v, "code"))] if hasattr(v, "code") else [])
    import struct
    if isinstance(v, struct.Struct):
        return ["struct", v.format]
    if isinstance(v, (frozenset, set)):
        return ["set"] + sorted(normalize(x) for x in v)
    if isinstance(v, range):
        return ["list"] + list(v)
    if depth <= 0:
        return ["obj", type(v).__name__]
    d = getattr(v, "__dict__", None)
    if d is not None:
        return ["obj", type(v).__name__, {k: normalize(x, depth - 1) for k, x in sorted(d.items())
                                          if not k.startswith("__")}]
    return ["obj", type(v).__name__]


def strip_unknown(a, b):
    """compare two normalized values, treating 'str?'/'float?' as wildcards for str/float."""
    if a == b:
        return True
    if a == ["str?"]:
        return isinstance(b, str) or b == ["str?"]
    if b == ["str?"]:
        return isinstance(a, str)
    if a == ["float?"]:
        return isinstance(b, list) and b[:1] == ["float"] or b == ["float?"]
    if b == ["float?"]:
        return isinstance(a, list) and a[:1] == ["float"]
    if isinstance(a, list) and isinstance(b, list):
        return len(a) == len(b) and all(strip_unknown(x, y) for x, y in zip(a, b))
    if isinstance(a, dict) and isinstance(b, dict):
        return a.keys() == b.keys() and all(strip_unknown(a[k], b[k]) for k in a)
    return False

"""./check driver: runs every obligation of a property, handles known findings, replays
counter-models natively, writes evidence, sets the exit code (0 held / 1 violation / 2 undecided / 3 crash)."""
import argparse
import importlib
import json
import multiprocessing as mp
import os
import sys
import time
import traceback

VERIF = os.path.dirname(os.path.dirname(os.path.abspath(__file__)))
if VERIF not in sys.path:
    sys.path.insert(0, VERIF)

TRUSTED_BASE = [
    "T1 pyvc interpreter + BV128 encoding of Python ints (exactness obligations discharged per path; cross-checked against CPython on seeded inputs every run)",
    "T2 models of CPython builtins / struct / bytes / list / dict / queue / threading / can.Message (pyvc/models.py, pyvc/libmodels.py), differential-tested, not proved",
    "T3 z3 5.1.0 (cvc5 1.0.3 CLI as second back end for unknowns; both in the thorough tier)",
    "T4 spec transcriptions of CiA 301/305/402 in /verif/spec and in the contract files",
    "A2 closed world: calls resolve to /repo's own definitions (no monkey-patching/subclass overrides)",
    "A4 sequential execution inside a contracted function; A7 logging is effect-free and dropped",
]


def _worker(task):
    kind = task[0]
    try:
        if kind == "case":
            _, modules, cid, case_id, tier, known_regions, seed, nx = task
            for m in modules:
                importlib.import_module(m)
            from pyvc import engine
            r = engine.run_case(cid, case_id, tier, known_regions, seed)
            # counter-model replay for refuted clauses
            for cname, ent in r["clauses"].items():
                if ent["status"] == "refuted":
                    for cex in ent.get("cex", []):
                        if "replay" in cex:
                            continue
                        if cex.get("oracle") is None:
                            cex["replay"] = {"status": "no-model"}
                            continue
                        try:
                            cex["replay"] = engine.replay(cid, case_id, cname, engine.unjson(cex["oracle"]))
                        except Exception:
                            cex["replay"] = {"status": "replay-crashed", "why": traceback.format_exc(limit=6)}
            # refuted, but no counter-model replays (inductive obligations): look for a concrete failing input
            for cname, ent in r["clauses"].items():
                if ent["status"] == "refuted" and not any(isinstance(x, dict) and x.get("replay", {}).get("status", "").startswith("reproduced")
                                                          for x in ent.get("cex", [])):
                    if "_searched" not in r:
                        try:
                            r["_searched"] = engine.search_witness(cid, case_id, 300 if tier == "quick" else 3000, seed,
                                                                   25 if tier == "quick" else 240)
                        except Exception:
                            r["_searched"] = None
                    if r["_searched"] is not None:
                        ent.setdefault("cex", []).insert(0, r["_searched"])
            # CPython cross-check
            try:
                runs, bad = engine.xcheck(cid, case_id, nx, seed) if not r["undecided"] else (0, [])
            except Exception:
                runs, bad = 0, [{"error": traceback.format_exc(limit=6)}]
            r["xcheck_runs"] = runs
            r["xcheck_mismatches"] = bad
            return r
        if kind == "witness":
            _, modules, cid, case_id, clause, oracle = task
            for m in modules:
                importlib.import_module(m)
            from pyvc import engine
            return {"witness": True, "contract": cid, "case": case_id, "clause": clause,
                    "replay": engine.replay(cid, case_id, clause, engine.unjson(oracle))}
        if kind == "lemma":
            _, module, name, tier = task
            mod = importlib.import_module(module)
            from pyvc import lemma
            return lemma.run(mod, name, tier)
        if kind == "bounded":
            _, module, name, tier, seed = task
            mod = importlib.import_module(module)
            return getattr(mod, name)(tier, seed)
    except Exception:
        return {"crash": traceback.format_exc(limit=10), "task": repr(task)[:300]}


def scan_assumptions(modules):
    """mechanical scan, on every run, of what the proofs of this property assume rather than prove: every `assume(`
    in the contract modules of the property and in the environment models (pre-state constraints of contract families,
    facts of assumed environment contracts, axioms such as the CRC recursion instances), every loop cut, stub and callee
    contract.  -> {file: [line numbers]} plus counts"""
    import re
    files = [os.path.join(VERIF, m.replace(".", os.sep) + ".py") for m in modules]
    files += sorted(os.path.join(VERIF, "env", f) for f in os.listdir(os.path.join(VERIF, "env")) if f.endswith(".py"))
    out = {"assume": {}, "loop_cuts": {}, "fn_summaries": {}, "stubs": {}}
    pats = {"assume": re.compile(r"\bassume\("), "loop_cuts": re.compile(r"\bloop_cuts\s*="), "fn_summaries": re.compile(r"\bfn_summaries\s*="),
            "stubs": re.compile(r"def stubs\(")}
    for f in files:
        try:
            lines = open(f).read().splitlines()
        except OSError:
            continue
        for k, pat in pats.items():
            hits = [i + 1 for i, l in enumerate(lines) if pat.search(l) and not l.lstrip().startswith("#")]
            if hits:
                out[k][os.path.relpath(f, VERIF)] = hits
    out["counts"] = {k: sum(len(v) for v in out[k].values()) for k in pats}
    return out


def load_known():
    p = os.path.join(VERIF, "known_findings.json")
    if not os.path.exists(p):
        return []
    with open(p) as f:
        return json.load(f).get("findings", [])


def main(argv=None):
    ap = argparse.ArgumentParser()
    ap.add_argument("prop")
    ap.add_argument("--tier", default=os.environ.get("VERIF_TIER", "quick"))
    ap.add_argument("--replay")
    ap.add_argument("--jobs", type=int, default=int(os.environ.get("VERIF_JOBS", "16")))
    ap.add_argument("--only", help="restrict to contracts whose id contains this")
    ap.add_argument("-v", action="store_true")
    args = ap.parse_args(argv)
    if args.tier not in ("quick", "thorough"):
        args.tier = "quick"
    seed = int(os.environ.get("VERIF_SEED", "0") or 0)
    t0 = time.time()
    import logging
    logging.disable(logging.CRITICAL)       # the repo's log output is not part of any verdict
    from pyvc.loader import setup_paths
    setup_paths()
    import props
    if args.replay:
        return do_replay(args.replay)
    P = props.PROPS[args.prop]
    modules = P["modules"]
    for m in modules:
        importlib.import_module(m)
    from pyvc import engine
    cids = [c for c in P["contracts"]]
    if args.only:
        cids = [c for c in cids if args.only in c]
    for c in cids:
        if c not in engine.REGISTRY:
            print("CHECKER-ERROR: contract %s not registered" % c)
            return 3
    known = [k for k in load_known() if k.get("status", "open") == "open"
             and k["property"] in (args.prop, "*") or args.prop in k.get("also", [])]
    known = [k for k in known if k.get("status", "open") == "open"]
    nx = 12 if args.tier == "quick" else 200
    tasks = []
    for cid in cids:
        c = engine.REGISTRY[cid]
        for case_id in engine.case_ids(c, args.tier):
            kr = {}
            for k in known:
                if k["contract"] == cid and (k.get("cases", "*") == "*" or case_id in k["cases"]):
                    kr.setdefault(k["clause"], []).append(k["region"])
            tasks.append(("case", modules, cid, case_id, args.tier, kr, seed, nx))
    for k in known:
        if k["contract"] in cids and k.get("witness"):
            tasks.append(("witness", modules, k["contract"], k["witness"]["case"], k["clause"], k["witness"]["oracle"]))
    for (module, name) in P.get("lemmas", []):
        tasks.append(("lemma", module, name, args.tier))
    for (module, name) in P.get("bounded", []):
        tasks.append(("bounded", module, name, args.tier, seed))
    # biggest first for load balance is unknown; just run
    if args.jobs > 1 and len(tasks) > 1:
        with mp.get_context("fork").Pool(min(args.jobs, len(tasks))) as pool:
            results = pool.map(_worker, tasks, chunksize=1)
    else:
        results = [_worker(t) for t in tasks]
    return report(args, P, results, known, seed, t0)


def report(args, P, results, known, seed, t0):
    prop = args.prop
    from pyvc import engine
    obligations = discharged = 0
    violations = []
    undecided = []
    crashes = []
    samples = []
    functions = set()
    by_backend = {}
    solver_s = 0.0
    queries = 0
    paths = 0
    xruns = 0
    known_lines = []
    known_seen = set()
    lemma_res = []
    bounded_res = []
    notes = []
    for r in results:
        if r is None:
            crashes.append("worker returned nothing")
            continue
        if "crash" in r and "contract" not in r:
            crashes.append(r["crash"])
            continue
        if r.get("witness"):
            rp = r["replay"]
            k = [k for k in known if k["contract"] == r["contract"] and k["clause"] == r["clause"]][0]
            if rp.get("status") == "reproduced":
                known_lines.append("KNOWN-FINDING: property=%s %s" % (prop, k["what"]))
            elif rp.get("status") == "engine-mismatch":
                crashes.append("known-finding witness: engine and CPython disagree: %r" % (rp,))
            else:
                notes.append("known finding %s/%s: witness no longer fails (%s)" % (k["contract"], k["clause"], rp.get("why")))
            continue
        if r.get("kind") == "lemma":
            lemma_res.append(r)
            obligations += r["obligations"]
            discharged += r["discharged"]
            solver_s += r.get("solver_s", 0)
            queries += r.get("queries", 0)
            for name, st in r["failed"]:
                if st == "refuted":
                    violations.append({"obligation": "lemma:%s/%s" % (r["name"], name), "cex": None,
                                       "detail": r.get("detail", {}).get(name)})
                else:
                    undecided.append(("lemma:%s/%s" % (r["name"], name), st))
            samples.extend(r.get("samples", [])[:2])
            continue
        if r.get("kind") == "bounded":
            bounded_res.append(r)
            if r.get("failures"):
                violations.append({"obligation": "bounded:%s" % r["name"], "cex": {"oracle": r["failures"][:5]}, "bounded": True})
            continue
        cid, case_id = r["contract"], r["case"]
        c = engine.REGISTRY[cid]
        functions.add(c.target)
        functions.update(c.functions)
        solver_s += r.get("solver_s", 0)
        queries += r.get("queries", 0) + r.get("feas_queries", 0)
        paths += r.get("paths", 0)
        xruns += r.get("xcheck_runs", 0)
        for be, n in r.get("by_backend", {}).items():
            by_backend[be] = by_backend.get(be, 0) + n
        if r.get("crash"):
            crashes.append("%s[%s]: %s" % (cid, case_id, r["undecided"]))
            continue
        if r.get("xcheck_mismatches"):
            crashes.append("engine/CPython cross-check mismatch in %s[%s]: %s" % (cid, case_id,
                           json.dumps(r["xcheck_mismatches"][0], default=str)[:1500]))
        base = "%s:%s" % (c.target, cid)
        if r["undecided"]:
            n = len(r["clauses"]) + 2
            obligations += n
            undecided.append(("%s/*[%s]" % (base, case_id), r["undecided"]))
            continue
        # exactness + cover obligations
        obligations += 2
        if r["exact"] == "proved":
            discharged += 1
        else:
            undecided.append(("%s/exact[%s]" % (base, case_id), "arithmetic model inexact: %s" % json.dumps(r.get("exact_detail"))[:300]))
        if r.get("uncovered_exits") or r["paths"] == 0:
            undecided.append(("%s/cover[%s]" % (base, case_id), "vacuity guard: exits not reached %s (paths=%d)"
                              % (r.get("uncovered_exits"), r["paths"])))
        else:
            discharged += 1
        for cname, ent in r["clauses"].items():
            obligations += 1
            oname = "%s/%s[%s]" % (base, cname, case_id)
            if ent["status"] == "proved":
                discharged += 1
                if len(samples) < 6:
                    samples.append({"obligation": oname, "paths": ent["paths"], "sample_pre_state": r.get("sample_pre")})
            elif ent["status"] == "refuted":
                violations.append({"obligation": oname, "contract": cid, "case": case_id, "clause": cname,
                                   "cex": ent.get("cex", [])})
            else:
                undecided.append((oname, "solver unknown on path %s" % ent.get("unknown_at")))
    # ---------------------------------------------------------------- verdict
    out_lines = []
    exit_code = 0
    OUT = os.environ.get("PYVC_OUT", VERIF)      # seeded-change runs write their evidence and replays elsewhere
    replay_dir = os.path.join(OUT, "replays", prop)
    if os.path.isdir(replay_dir) and not args.only:
        for fn in os.listdir(replay_dir):            # replay files always describe the current run
            try:
                os.unlink(os.path.join(replay_dir, fn))
            except OSError:
                pass
    vcount = 0
    for v in violations:
        os.makedirs(replay_dir, exist_ok=True)
        safe = "".join(ch if ch.isalnum() or ch in "-_." else "_" for ch in v["obligation"])[:150]
        path = os.path.join(replay_dir, safe + ".json")
        reproduced = None
        mismatch = None
        for cex in v.get("cex") or []:
            if isinstance(cex, dict) and cex.get("replay", {}).get("status") in ("reproduced", "reproduced-engine-only"):
                reproduced = cex
                break
            if isinstance(cex, dict) and cex.get("replay", {}).get("status") == "engine-mismatch":
                mismatch = cex
        if v.get("bounded"):
            reproduced = v["cex"]
        if reproduced is None and mismatch is not None:
            crashes.append("counter-model of %s: engine and CPython disagree: %s" % (v["obligation"],
                           json.dumps(mismatch, default=str)[:1500]))
            continue
        doc = {"property": prop, "obligation": v["obligation"], "contract": v.get("contract"), "case": v.get("case"),
               "clause": v.get("clause"), "tier": args.tier,
               "rerun": "./check %s --replay %s" % (prop, os.path.relpath(path, VERIF))}
        if isinstance(reproduced, dict) and reproduced.get("clause_override"):
            doc["refuted_obligation"] = v.get("clause")
            doc["clause"] = reproduced["clause_override"]
            doc["found_by"] = reproduced.get("found_by")
        if reproduced is not None:
            doc["failing_input"] = reproduced.get("oracle") if isinstance(reproduced, dict) else reproduced
            doc["replay"] = reproduced.get("replay") if isinstance(reproduced, dict) else None
            doc["what"] = ("bounded stand-in failed on the real code under CPython: concrete witnesses in failing_input"
                           if v.get("bounded") else
                           ("the solver refuted the obligation (its model is a loop-head state, not an input); failing input found by "
                            "bounded concrete search and replayed on the real code under CPython: clause is false"
                            if doc.get("found_by") else "counter-model replayed on the real code under CPython: clause is false"))
            line = "VIOLATION property=%s replay=%s" % (prop, os.path.relpath(path, VERIF))
        else:
            doc["solver_output"] = v.get("cex") or v.get("detail")
            doc["what"] = "obligation refuted by the solver; no model reproduced natively"
            line = "VIOLATION property=%s replay=%s no-failing-input-found" % (prop, os.path.relpath(path, VERIF))
        with open(path, "w") as f:
            json.dump(doc, f, indent=1, default=str)
        out_lines.append(line)
        out_lines.append("  obligation %s" % v["obligation"])
        vcount += 1
    if vcount:
        exit_code = 1
    for name, why in undecided:
        out_lines.append("UNDECIDED property=%s obligation=%s reason=%s" % (prop, name, str(why)[:400]))
    if undecided and exit_code == 0:
        exit_code = 2
    for c in crashes:
        out_lines.append("CHECKER-ERROR property=%s %s" % (prop, str(c)[:2500]))
    if crashes:
        exit_code = 3 if exit_code != 1 else 1
    if obligations == 0:
        out_lines.append("CHECKER-ERROR property=%s zero obligations generated" % prop)
        exit_code = 3
    for l in known_lines:
        print(l)
    for l in out_lines:
        print(l)
    for n in notes:
        print("NOTE: " + n)
    wall = time.time() - t0
    bounded_summary = [{k: b[k] for k in b if k != "failures"} for b in bounded_res]
    ev = {
        "property_id": prop, "tier": args.tier, "seed": seed, "level": "proof",
        "coverage": {
            "obligations": obligations, "discharged": discharged,
            "checker_cmd": "./check %s --tier %s" % (prop, args.tier),
            "trusted_base": TRUSTED_BASE + P.get("assumed", []),
            "samples": samples[:8] or [{"note": "no proved obligation to sample"}],
            "functions_under_contract": sorted(functions),
            "paths_explored": paths, "solver_queries": queries, "solver_s": round(solver_s, 2),
            "by_backend": by_backend, "xcheck_runs_engine_vs_cpython": xruns,
            "lemmas": [{"name": l["name"], "obligations": l["obligations"], "discharged": l["discharged"],
                        "premises": l.get("premises")} for l in lemma_res],
            "bounded": bounded_summary,
            "assumed_contracts": P.get("assumed", []),
            "assumption_sites": scan_assumptions(P["modules"]),
            "known_findings": [k["what"] for k in known if k["contract"] in P["contracts"]],
            "not_decided": P.get("not_decided", []),
            "undecided": [list(u) for u in undecided][:20],
            "exhaustive": False,
        },
        "assumptions": TRUSTED_BASE + P.get("assumed", []),
        "wall_s": round(wall, 2), "violations": vcount,
    }
    os.makedirs(os.path.join(OUT, "evidence"), exist_ok=True)
    with open(os.path.join(OUT, "evidence", prop + ".json"), "w") as f:
        json.dump(ev, f, indent=1, default=str)
    print("%s tier=%s obligations=%d discharged=%d violations=%d undecided=%d paths=%d solver_s=%.1f wall=%.1fs exit=%d"
          % (prop, args.tier, obligations, discharged, vcount, len(undecided), paths, solver_s, wall, exit_code))
    return exit_code


def do_replay(path):
    if not os.path.isabs(path):
        path = os.path.join(VERIF, path)
    doc = json.load(open(path))
    import props
    P = props.PROPS[doc["property"]]
    for m in P["modules"]:
        importlib.import_module(m)
    from pyvc import engine
    if not doc.get("failing_input") or not doc.get("contract"):
        print(json.dumps(doc, indent=1)[:3000])
        print("no failing input recorded (obligation-level violation)")
        return 1
    r = engine.replay(doc["contract"], doc["case"], doc["clause"], engine.unjson(doc["failing_input"]))
    print(json.dumps(r, indent=1, default=str))
    return 1 if r["status"].startswith("reproduced") else 0


if __name__ == "__main__":
    sys.exit(main())

"""Path context: path condition, decision list (DFS by re-execution), fresh symbols, events."""
import random
import z3
from . import values as V
from .values import SInt, SBool, SBytes, LBytes, SObj, Unsupported, PathAbort, W


class PyRaise(Exception):
    """An interpreted Python exception in flight; .exc is an SObj whose cls is the exception class."""

    def __init__(self, exc):
        Exception.__init__(self, repr(exc))
        self.exc = exc


class Stats:
    def __init__(self):
        self.feas_queries = 0
        self.solver_s = 0.0
        self.paths = 0


class Ctx:
    """One execution path.  mode: 'sym' (symbols), 'conc' (values from oracle, engine run),
    the native world (real objects) lives in worlds.py and does not use Ctx."""

    def __init__(self, mode, decisions=None, oracle=None, stats=None, feas_timeout_ms=1500, rng=None):
        self.mode = mode
        self.pc = []
        self.exact = []
        self.decisions = list(decisions or [])
        self.pos = 0
        self.new_alternatives = []     # decision prefixes to explore
        self.events = []
        self.oracle = oracle or {}
        self.names = {}
        self.symbols = {}              # name -> (kind, term(s))
        self.stats = stats or Stats()
        self.solver = z3.Solver()
        self.solver.set("timeout", feas_timeout_ms)
        self.rng = rng or random.Random(0)
        self.notes = []
        self.cover = set()
        self.fork_sites = getattr(stats, "fork_sites", None)
        self.deadline = getattr(stats, "deadline", None)
        self.side_obligations = []     # (name, goal, pc snapshot): loop-init / loop-step / loop-variant
        self._model = None             # a model of the current path condition, when one is at hand (saves feasibility queries)

    # -- naming ------------------------------------------------------------------------------
    def uniq(self, name):
        k = self.names.get(name, 0)
        self.names[name] = k + 1
        return name if k == 0 else "%s#%d" % (name, k)

    # -- assumptions / branching -------------------------------------------------------------
    def assume(self, c):
        c = V.truth_val(c)
        if c is True:
            return
        if c is False:
            raise PathAbort()
        self.pc.append(c.t)
        self.solver.add(c.t)
        if self._model is not None and not z3.is_true(self._model.eval(c.t, model_completion=True)):
            self._model = None

    def _check(self, extra):
        import time
        t0 = time.time()
        self._last_model = None

        def default():
            res = self.solver.check(extra)
            if res == z3.sat:
                self._last_model = self.solver.model()
            return res

        def intblast():
            # int-blasting (bit-vector terms as linear integer arithmetic) in a fresh non-incremental solver
            try:
                sv = z3.SimpleSolver()
                sv.set("timeout", 4000)
                sv.set("smt.bv.solver", 2)
                for c in self.pc:
                    sv.add(c)
                sv.add(extra)
                res = sv.check()
                if res == z3.sat:
                    self._last_model = sv.model()
                return res
            except z3.Z3Exception:
                return z3.unknown
        def fresh():
            # the same query in a fresh non-incremental solver (tactic pipeline + bit-blasting): often decides in
            # milliseconds what the incremental core gives up on
            sv = z3.Solver()
            sv.set("timeout", 5000)
            for c in self.pc:
                sv.add(c)
            sv.add(extra)
            res = sv.check()
            if res == z3.sat:
                self._last_model = sv.model()
            return res
        prof = self.stats.__dict__.setdefault("feas_prof", {})

        def timed(name, fn):
            t1 = time.time()
            res = fn()
            e = prof.setdefault(name + ":" + str(res), [0, 0.0])
            e[0] += 1
            e[1] += time.time() - t1
            return res
        r = timed("inc", default)
        if r == z3.unknown:
            r = timed("fresh", fresh)
        if r == z3.unknown:
            r = timed("intblast", intblast)
            import os
            if os.environ.get("PYVC_HARD"):
                with open(os.environ["PYVC_HARD"], "a") as f:
                    f.write("%s %s :: %s\n" % (r, getattr(self, "site", None), z3.simplify(extra).sexpr().replace("\n", " ")[:600]))
        self.stats.feas_queries += 1
        self.stats.solver_s += time.time() - t0
        import os
        if os.environ.get("PYVC_DUMP_FEAS") and time.time() - t0 > float(os.environ.get("PYVC_DUMP_MIN", "0.5")):
            with open(os.path.join(os.environ["PYVC_DUMP_FEAS"], "f%d_%s_%.2f.smt2" % (self.stats.feas_queries, r, time.time() - t0)), "w") as f:
                f.write(self.solver.to_smt2().replace("(check-sat)", "") + "(assert %s)\n(check-sat)\n" % extra.sexpr())
        return r

    def branch(self, cond):
        """cond: z3 Bool.  Returns python bool; explores both sides over re-executions."""
        cond = z3.simplify(cond)
        if z3.is_true(cond):
            return True
        if z3.is_false(cond):
            return False
        if self.pos < len(self.decisions):
            d = self.decisions[self.pos]
            self.pos += 1
        else:
            # the model of the path condition kept from an earlier query witnesses one side: only the other is asked
            val = None
            if self._model is not None:
                v = self._model.eval(cond, model_completion=True)
                val = True if z3.is_true(v) else (False if z3.is_false(v) else None)
            mt = mf = None
            if val is True:
                can_t, mt = True, self._model
            else:
                rt = self._check(cond)
                can_t = rt != z3.unsat
                if rt == z3.sat:
                    mt = self._last_model
            if val is False:
                can_f, mf = True, self._model
            else:
                rf = self._check(z3.Not(cond))
                can_f = rf != z3.unsat
                if rf == z3.sat:
                    mf = self._last_model
            self._model = mt if can_t else mf
            if can_t and can_f:
                self.new_alternatives.append(self.decisions[:self.pos] + [False])
                d = True
                if self.fork_sites is not None:
                    k = getattr(self, "site", None)
                    self.fork_sites[k] = self.fork_sites.get(k, 0) + 1
            elif can_t:
                d = True
            elif can_f:
                d = False
            else:
                raise PathAbort()
            self.decisions.append(d)
            self.pos += 1
        c = cond if d else z3.Not(cond)
        self.pc.append(c)
        self.solver.add(c)
        return d

    def choose(self, v, domain):
        """Concretise int value v over the finite domain (iterable of ints) by forking."""
        if not isinstance(v, (SInt, SBool)):
            return v
        if isinstance(v, SBool):
            return self.branch(v.t)
        for d in domain:
            if self.branch(v.t == z3.BitVecVal(d, W)):
                return d
        raise PathAbort()

    # -- exceptions --------------------------------------------------------------------------
    def raise_builtin(self, cls, *args):
        raise PyRaise(SObj(cls, {"args": tuple(args)}))

    # -- fresh inputs ------------------------------------------------------------------------
    def fresh_int(self, name, lo=None, hi=None):
        """Fresh integer lo <= v <= hi (inclusive; both optional)."""
        name = self.uniq(name)
        if self.mode == "sym":
            t = z3.BitVec(name, W)
            self.symbols[name] = ("int", t)
            v = SInt(t)
            if lo is not None:
                self.assume(V.compare(">=", v, lo))
            if hi is not None:
                self.assume(V.compare("<=", v, hi))
            return v
        if name in self.oracle:
            v = int(self.oracle[name])
        else:
            l = lo if lo is not None else -(1 << 70)
            h = hi if hi is not None else (1 << 70)
            v = self._rand_int(l, h)
            self.oracle[name] = v
        if (lo is not None and v < lo) or (hi is not None and v > hi):
            raise PathAbort()
        return v

    def _rand_int(self, l, h):
        r = self.rng.random()
        if r < 0.15:
            return l
        if r < 0.3:
            return h
        if r < 0.5 and h - l > 4:
            # near a power of two / boundary
            k = self.rng.randrange(0, max(1, (h - l).bit_length()))
            c = l + (1 << k) + self.rng.choice((-1, 0, 1))
            return min(h, max(l, c))
        return self.rng.randint(l, h)

    def fresh_bool(self, name):
        name = self.uniq(name)
        if self.mode == "sym":
            t = z3.Bool(name)
            self.symbols[name] = ("bool", t)
            return SBool(t)
        if name in self.oracle:
            return bool(self.oracle[name])
        v = self.rng.random() < 0.5
        self.oracle[name] = v
        return v

    def fresh_bytes(self, name, n, mutable=False):
        """Fresh bytes of concrete length n."""
        name = self.uniq(name)
        if self.mode == "sym":
            ts = [z3.BitVec("%s[%d]" % (name, i), 8) for i in range(n)]
            self.symbols[name] = ("bytes", ts)
            return SBytes(ts, mutable)
        if name in self.oracle:
            b = bytes(self.oracle[name])
            if len(b) != n:
                b = (b + bytes(n))[:n]
        else:
            b = bytes(self.rng.choice((0, 0xFF, 0x80, 0x7F, self.rng.randrange(256))) for _ in range(n))
            self.oracle[name] = b
        return SBytes(list(b), mutable)

    def fresh_lbytes(self, name, nlo=0, nhi=(1 << 32) - 1, mutable=False):
        """Fresh bytes of symbolic length nlo..nhi."""
        name = self.uniq(name)
        if self.mode == "sym":
            arr = z3.Array(name, z3.BitVecSort(W), z3.BitVecSort(8))
            n = z3.BitVec(name + ".len", W)
            self.symbols[name] = ("lbytes", (arr, n))
            nv = SInt(n)
            self.assume(V.compare(">=", nv, nlo))
            self.assume(V.compare("<=", nv, nhi))
            return LBytes(arr, 0, nv, mutable)
        if name in self.oracle:
            b = bytes(self.oracle[name])
        else:
            n = self._rand_len(nlo, nhi)
            b = bytes(self.rng.randrange(256) for _ in range(n))
            self.oracle[name] = b
        if not (nlo <= len(b) <= nhi):
            raise PathAbort()
        return SBytes(list(b), mutable)

    def _rand_len(self, lo, hi):
        hi2 = min(hi, 40)
        if hi2 < lo:
            return lo
        c = self.rng.choice((lo, lo + 1, 3, 4, 5, 6, 7, 8, 13, 14, 15, 21, self.rng.randint(lo, hi2)))
        return min(hi2, max(lo, c))

    # -- events ------------------------------------------------------------------------------
    def emit(self, *ev):
        self.events.append(tuple(ev))


def model_to_oracle(model, symbols):
    """z3 model -> {name: python value} for the fresh symbols of a path."""
    out = {}
    for name, (kind, t) in symbols.items():
        if kind == "int":
            v = model.eval(t, model_completion=True)
            out[name] = v.as_signed_long()
        elif kind == "bool":
            out[name] = z3.is_true(model.eval(t, model_completion=True))
        elif kind == "bytes":
            out[name] = bytes(model.eval(x, model_completion=True).as_long() for x in t)
        elif kind == "lbytes":
            arr, n = t
            nn = model.eval(n, model_completion=True).as_signed_long()
            nn = max(0, min(nn, 4096))
            out[name] = bytes(model.eval(z3.Select(arr, z3.BitVecVal(i, W)), model_completion=True).as_long()
                              for i in range(nn))
    return out

#!/bin/sh
# Builds /verif/.venv offline (py3.12 + z3-solver, cvc5, crosshair-tool, deal, icontract, jsonschema from the
# local wheelhouse) with a .pth that makes /venv's site-packages (python-can, editable canopen -> /repo) importable.
set -e
cd "$(dirname "$0")"
if [ -x .venv/bin/python ] && .venv/bin/python -c "import z3, jsonschema, can, canopen" 2>/dev/null; then
  echo "setup: .venv already usable"; exit 0
fi
rm -rf .venv
/venv/bin/python -m venv --without-pip .venv
SP=.venv/lib/python3.12/site-packages
PIP_NO_INDEX=1 /venv/bin/python -m pip install -q --no-index --find-links /opt/veriftools/wheels --target "$SP" \
    z3-solver cvc5 jsonschema crosshair-tool deal icontract 2>&1 | tail -3 || true
echo "import site; site.addsitedir('/venv/lib/python3.12/site-packages')" > "$SP/zz_venv.pth"
.venv/bin/python -c "import z3, jsonschema, can, canopen; print('setup ok: z3', z3.get_version_string(), 'canopen', canopen.__file__)"

"""Facts transcribed from CiA 301 (v4.2) — deliberately NOT imported from /repo's constants."""

# Emergency error code classes (CiA 301 table 21): (first code, last code, meaning)
EMCY_CLASSES = [
    (0x0000, 0x00FF, "Error Reset / No Error"),
    (0x1000, 0x10FF, "Generic Error"),
    (0x2000, 0x23FF, "Current"),
    (0x3000, 0x33FF, "Voltage"),
    (0x4000, 0x42FF, "Temperature"),
    (0x5000, 0x50FF, "Device Hardware"),
    (0x6000, 0x63FF, "Device Software"),
    (0x7000, 0x70FF, "Additional Modules"),
    (0x8000, 0x82FF, "Monitoring"),
    (0x9000, 0x90FF, "External Error"),
    (0xF000, 0xF0FF, "Additional Functions"),
    (0xFF00, 0xFFFF, "Device Specific"),
]

# NMT (CiA 301 7.2.8): command specifiers and the state they lead to; state codes in heartbeat
NMT_CS = {1: "OPERATIONAL", 2: "STOPPED", 128: "PRE-OPERATIONAL", 129: "INITIALISING", 130: "INITIALISING"}
NMT_STATE_CODE = {0: "INITIALISING", 4: "STOPPED", 5: "OPERATIONAL", 127: "PRE-OPERATIONAL"}

# SDO abort codes (CiA 301 table 22)
ABORT_TOGGLE = 0x05030000
ABORT_TIMEOUT = 0x05040000
ABORT_CS_INVALID = 0x05040001
ABORT_CRC = 0x05040004
ABORT_WRITE_ONLY = 0x06010001
ABORT_READ_ONLY = 0x06010002
ABORT_NO_OBJECT = 0x06020000
ABORT_LENGTH = 0x06070010
ABORT_NO_SUBINDEX = 0x06090011
ABORT_NO_DATA = 0x08000024
ABORT_INVALID_VALUE = 0x060A0023   # "resource not available"; what the pinned test-suite expects for "no value"

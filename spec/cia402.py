"""Facts transcribed from CiA 402 (IEC 61800-7-201) — not imported from /repo."""

# power state machine: statusword pattern (mask, value) per state
SW_PATTERN = {
    "NOT READY TO SWITCH ON": (0x4F, 0x00),
    "SWITCH ON DISABLED": (0x4F, 0x40),
    "READY TO SWITCH ON": (0x6F, 0x21),
    "SWITCHED ON": (0x6F, 0x23),
    "OPERATION ENABLED": (0x6F, 0x27),
    "QUICK STOP ACTIVE": (0x6F, 0x07),
    "FAULT REACTION ACTIVE": (0x4F, 0x0F),
    "FAULT": (0x4F, 0x08),
}
STATES = list(SW_PATTERN)
COMMANDABLE = ("SWITCH ON DISABLED", "READY TO SWITCH ON", "SWITCHED ON", "OPERATION ENABLED", "QUICK STOP ACTIVE")
NOT_COMMANDABLE = ("NOT READY TO SWITCH ON", "FAULT REACTION ACTIVE", "FAULT")

# controlword commands: name -> (mask, value) over bits 7,3,2,1,0
CW = {
    "SHUTDOWN": (0x87, 0x06), "SWITCH ON": (0x8F, 0x07), "ENABLE OPERATION": (0x8F, 0x0F),
    "DISABLE VOLTAGE": (0x82, 0x00), "QUICK STOP": (0x86, 0x02), "DISABLE OPERATION": (0x8F, 0x07),
    "FAULT RESET": (0x80, 0x80),
}

# transitions a master can command: (from, to) -> command name    (numbers: CiA 402 figure)
TRANSITIONS = {
    ("SWITCH ON DISABLED", "READY TO SWITCH ON"): "SHUTDOWN",          # 2
    ("READY TO SWITCH ON", "SWITCHED ON"): "SWITCH ON",                # 3
    ("SWITCHED ON", "OPERATION ENABLED"): "ENABLE OPERATION",          # 4
    ("OPERATION ENABLED", "SWITCHED ON"): "DISABLE OPERATION",         # 5
    ("SWITCHED ON", "READY TO SWITCH ON"): "SHUTDOWN",                 # 6
    ("READY TO SWITCH ON", "SWITCH ON DISABLED"): "DISABLE VOLTAGE",   # 7 (or quick stop)
    ("OPERATION ENABLED", "READY TO SWITCH ON"): "SHUTDOWN",           # 8
    ("OPERATION ENABLED", "SWITCH ON DISABLED"): "DISABLE VOLTAGE",    # 9
    ("SWITCHED ON", "SWITCH ON DISABLED"): "DISABLE VOLTAGE",          # 10 (or quick stop)
    ("OPERATION ENABLED", "QUICK STOP ACTIVE"): "QUICK STOP",          # 11
    ("QUICK STOP ACTIVE", "SWITCH ON DISABLED"): "DISABLE VOLTAGE",    # 12
    ("FAULT", "SWITCH ON DISABLED"): "FAULT RESET",                    # 15
    ("QUICK STOP ACTIVE", "OPERATION ENABLED"): "ENABLE OPERATION",    # 16
}
# automatic transitions the drive performs on its own
AUTOMATIC = {("NOT READY TO SWITCH ON", "SWITCH ON DISABLED"), ("FAULT REACTION ACTIVE", "FAULT")}

# modes of operation (object 6060h) and their bit in supported drive modes (6502h)
MODE_CODE = {"PROFILED POSITION": 1, "VELOCITY": 2, "PROFILED VELOCITY": 3, "PROFILED TORQUE": 4, "HOMING": 6,
             "INTERPOLATED POSITION": 7, "CYCLIC SYNCHRONOUS POSITION": 8, "CYCLIC SYNCHRONOUS VELOCITY": 9,
             "CYCLIC SYNCHRONOUS TORQUE": 10}
MODE_BIT = {"PROFILED POSITION": 0, "VELOCITY": 1, "PROFILED VELOCITY": 2, "PROFILED TORQUE": 3, "HOMING": 5,
            "INTERPOLATED POSITION": 6, "CYCLIC SYNCHRONOUS POSITION": 7, "CYCLIC SYNCHRONOUS VELOCITY": 8,
            "CYCLIC SYNCHRONOUS TORQUE": 9}


def cw_matches(cw, cmd):
    m, v = CW[cmd]
    return (cw & m) == v

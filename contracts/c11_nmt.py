"""C11 — NMT commands, states, heartbeats (NmtBase / NmtMaster / NmtSlave) against CiA 301."""
from pyvc.engine import Contract, contract
from pyvc.worlds import Call
from pyvc import spec as S
from pyvc.values import And, Or, Not, Implies, Iff, compare, ite, binop, SObj
from spec import cia301

MASTER = "canopen.nmt:NmtMaster"
SLAVE = "canopen.nmt:NmtSlave"
# command specifier -> state code, from CiA 301 (1 start, 2 stop, 128 pre-op, 129 reset node, 130 reset comm)
CS_TO_CODE = {1: 5, 2: 4, 128: 127, 129: 0, 130: 0}
# the library's extra (CiA 302/DSP-304 style) commands: no CiA 301 requirement; must be identical for master & slave
EXTRA_CS = (80, 96)


def spec_next(cmd, state):
    """CiA 301 next state code for command specifier cmd (symbolic) from state; None-constraint for extras"""
    r = state
    for cs, code in CS_TO_CODE.items():
        r = ite(compare("==", cmd, cs), code, r)
    return r


def mk_master(w, state_lo=0, state_hi=127):
    nid = w.int("own_id", 1, 127)
    st = w.int("state", state_lo, state_hi)
    net = w.obj("env.net:Net")
    m = w.obj(MASTER, id=nid, network=net, _state=st, _state_received=None, _node_guarding_producer=None,
              timestamp=None, state_update=w.new_condition(), _callbacks=w.plist("callbacks"))
    w.pre.update(node=m, nid=nid, st=st, net=net, cbs0=w.snap(m.fields["_callbacks"]) if not w.native else None)
    return m


def mk_slave(w):
    nid = w.int("own_id", 1, 127)
    st = w.choose(w.int("state", 0, 127), (0, 4, 5, 80, 96, 127))
    net = w.obj("env.net:Net")
    sl = w.obj(SLAVE, id=nid, network=net, _state=st, _send_task=None, _heartbeat_time_ms=0, _local_node=None)
    w.pre.update(node=sl, nid=nid, st=st, net=net)
    return sl


def is_extra(cmd):
    return Or([compare("==", cmd, c) for c in EXTRA_CS])


@contract
class OnCommand(Contract):
    """state' = CiA 301 successor if the command addresses this node or all nodes and is defined, else unchanged"""
    target = "canopen.nmt:NmtBase.on_command"
    functions = ("canopen.nmt:NmtSlave.on_command", "canopen.nmt:NmtSlave.update_heartbeat")
    props = ("C11",)
    cases = {"master": "m", "slave": "s"}

    def setup(self, w, case):
        node = mk_master(w) if case == "m" else mk_slave(w)
        n = w.choose(w.int("dlc", 2, 8), range(2, 9))
        data = w.bytes("data", n)
        return Call(("method", node, "on_command"), [0, data, 1.0])

    def observe(self, w):
        return {"state": w.get(w.pre["node"], "_state")}

    @staticmethod
    def ok(s):
        p = s.pre
        d = s.w.get(p["node"], "_state")
        cmd, target = p["cmd"], p["target"]
        addressed = Or(compare("==", target, p["nid"]), compare("==", target, 0))
        exp = ite(addressed, spec_next(cmd, p["st"]), p["st"])
        return And(s.returned, Or(And(addressed, is_extra(cmd)), compare("==", d, exp)))

    ensures = {
        "addressed-or-broadcast": lambda s: OnCommand.ok(OnCommand.bind(s)),
        "no-frame": lambda s: len(s.sent()) == 0,
    }

    @staticmethod
    def bind(s):
        # data is the pre-state argument; recover it from the call through the recorded symbols
        return s


def _cmd_fields(w, data):
    w.pre.update(cmd=S.byte(data, 0), target=S.byte(data, 1))


# patch OnCommand.setup to record cmd/target (kept separate for readability)
_oc_setup = OnCommand.setup


def _oc_setup2(self, w, case):
    call = _oc_setup(self, w, case)
    _cmd_fields(w, call.args[1])
    return call


OnCommand.setup = _oc_setup2


@contract
class MasterSendCommand(Contract):
    """exactly one frame [cs, node id] on CAN id 0; the master's view follows the CiA 301 machine"""
    target = "canopen.nmt:NmtMaster.send_command"
    functions = ("canopen.nmt:NmtBase.send_command",)
    props = ("C11",)

    def setup(self, w, case):
        m = mk_master(w)
        code = w.int("code", 0, 255)
        w.pre.update(code=code)
        return Call(("method", m, "send_command"), [code])

    def observe(self, w):
        return {"state": w.get(w.pre["node"], "_state")}

    @staticmethod
    def ok(s):
        p = s.pre
        sent = s.sent()
        if not s.returned or len(sent) != 1 or len(s.ev) != 1:
            return False
        _, cid, payload, remote = sent[0]
        st = s.w.get(p["node"], "_state")
        return And(compare("==", cid, 0), S.bytes_are(payload, [p["code"], p["nid"]]), Not(remote),
                   Or(is_extra(p["code"]), compare("==", st, spec_next(p["code"], p["st"]))))

    ensures = {"frame-and-state": lambda s: MasterSendCommand.ok(s)}


@contract
class SlaveSendCommand(Contract):
    """local state change on the slave: CiA 301 successor; a boot-up frame [0] on 0x700+id when entering INITIALISING"""
    target = "canopen.nmt:NmtSlave.send_command"
    functions = ("canopen.nmt:NmtBase.send_command", "canopen.nmt:NmtSlave.update_heartbeat")
    props = ("C11", "C17")

    def setup(self, w, case):
        sl = mk_slave(w)
        code = w.int("code", 0, 255)
        w.pre.update(code=code)
        # leaving INITIALISING for PRE-OPERATIONAL reads 0x1017 through the local SDO server: contracted in C17
        w.assume(Not(And(compare("==", w.pre["st"], 0), compare("==", code, 128))))
        return Call(("method", sl, "send_command"), [code])

    def observe(self, w):
        return {"state": w.get(w.pre["node"], "_state")}

    @staticmethod
    def ok(s):
        p = s.pre
        st = s.w.get(p["node"], "_state")
        state_ok = Or(is_extra(p["code"]), compare("==", st, spec_next(p["code"], p["st"])))
        sent = s.sent()
        if bool(compare("==", st, 0)):
            if len(sent) != 1:
                return False
            _, cid, payload, remote = sent[0]
            return And(s.returned, state_ok, compare("==", cid, binop("+", 0x700, p["nid"])),
                       S.bytes_are(payload, [0]), Not(remote))
        return And(s.returned, state_ok, len(sent) == 0)

    ensures = {"state-and-bootup-frame": lambda s: SlaveSendCommand.ok(s)}


STATE_NAMES = {  # state name -> CiA 301 command specifier that the assignment must send
    "OPERATIONAL": 1, "STOPPED": 2, "PRE-OPERATIONAL": 128, "INITIALISING": 129, "RESET": 129,
    "RESET COMMUNICATION": 130,
}
INVALID_NAMES = ("", "operational", "Operational", "RESET ", "BOOT", "PRE OPERATIONAL", "UNKNOWN STATE '75'", "5")


@contract
class StateSetter(Contract):
    target = "canopen.nmt:NmtBase.state.setter"
    functions = ("canopen.nmt:NmtMaster.send_command",)
    props = ("C11",)
    cases = dict({n: (n, cs) for n, cs in STATE_NAMES.items()}, **{"invalid:" + n: (n, None) for n in INVALID_NAMES})
    exits = ()

    def setup(self, w, case):
        name, cs = case
        m = mk_master(w)
        w.pre.update(name=name, cs=cs)
        return Call(("setattr", m, "state"), [name])

    def observe(self, w):
        return {"state": w.get(w.pre["node"], "_state")}

    @staticmethod
    def ok(s):
        p = s.pre
        st = s.w.get(p["node"], "_state")
        if p["cs"] is None:
            return And(s.raised(ValueError), len(s.ev) == 0, compare("==", st, p["st"]))
        sent = s.sent()
        if not s.returned or len(sent) != 1:
            return False
        _, cid, payload, remote = sent[0]
        return And(compare("==", cid, 0), S.bytes_are(payload, [p["cs"], p["nid"]]),
                   compare("==", st, CS_TO_CODE[p["cs"]]))

    ensures = {"frame-for-name_invalid-rejected-without-frame": lambda s: StateSetter.ok(s)}


@contract
class StateGetter(Contract):
    target = "canopen.nmt:NmtBase.state"
    props = ("C11",)
    cases = {name: code for code, name in cia301.NMT_STATE_CODE.items()}

    def setup(self, w, case):
        m = mk_master(w, case, case)
        return Call(("getattr", m, "state"), [])

    ensures = {"name": lambda s: And(s.returned, s.ret == cia301.NMT_STATE_CODE[s.pre_case])}


_sg_setup = StateGetter.setup


def _sg_setup2(self, w, case):
    w.pre["case"] = case
    return _sg_setup(self, w, case)


StateGetter.setup = _sg_setup2
StateGetter.ensures = {"name": lambda s: And(s.returned, s.ret == cia301.NMT_STATE_CODE[s.pre["case"]])}


@contract
class OnHeartbeat(Contract):
    """toggle bit ignored; boot-up (0) reported as PRE-OPERATIONAL (127); callbacks told once; waiters woken"""
    target = "canopen.nmt:NmtMaster.on_heartbeat"
    props = ("C11",)
    cases = {"len%d" % n: n for n in (1, 2, 8)}

    def setup(self, w, case):
        m = mk_master(w)
        data = w.bytes("data", case)
        w.pre.update(data=data, cbs0=w.snap(w.get(m, "_callbacks")))
        return Call(("method", m, "on_heartbeat"), [0x701, data, 7.5])

    def observe(self, w):
        n = w.pre["node"]
        return {"state": w.get(n, "_state"), "recv": w.get(n, "_state_received"), "ts": w.get(n, "timestamp")}

    @staticmethod
    def ok(s):
        p = s.pre
        b = binop("&", S.byte(p["data"], 0), 0x7F)
        n = p["node"]
        exp_state = ite(compare("==", b, 0), 127, b)
        exp_ev = S.expected_calls(p["cbs0"], (b,)) + [("notify_all",)]
        return And(s.returned, compare("==", s.w.get(n, "_state"), exp_state),
                   compare("==", s.w.get(n, "_state_received"), b), s.w.get(n, "timestamp") == 7.5,
                   S.events_are(s, exp_ev))

    ensures = {"toggle-masked_bootup-preop_callbacks-once": lambda s: OnHeartbeat.ok(s)}


@contract
class WaitForHeartbeat(Contract):
    """returns the state name on a matching message, NmtError when none arrives.  Condition.wait is a havoc point
    whose effect is on_heartbeat's post-condition (state, _state_received set) or nothing."""
    target = "canopen.nmt:NmtMaster.wait_for_heartbeat"
    props = ("C11",)
    xcheck = False
    exits = ("return", "raise:NmtError")

    def setup(self, w, case):
        m = mk_master(w)
        # an earlier, un-awaited heartbeat may have left a value behind
        if w.bool("stale"):
            m.fields["_state_received"] = w.int("stale_state", 0, 127)

        def hook(interp, cond, timeout):
            if bool(interp.ctx.fresh_bool("arrived")):
                b = interp.ctx.fresh_int("hb", 0, 127)
                m.fields["_state_received"] = b
                m.fields["_state"] = ite(compare("==", b, 0), 127, b)
                w.pre["hb"] = b
                interp.ctx.emit("wait", True)
            else:
                interp.ctx.emit("wait", False)
        w.interp.cond_wait_hook = hook
        return Call(("method", m, "wait_for_heartbeat"), [10])

    @staticmethod
    def ok(s):
        arrived = [e for e in s.ev if e[0] == "wait"][-1][1]
        if not arrived:
            return s.raised("canopen.nmt:NmtError")
        return s.returned

    ensures = {"returns-on-message-or-NmtError": lambda s: WaitForHeartbeat.ok(s)}


@contract
class WaitForBootup(Contract):
    """returns only after a boot-up message (state byte 0) was received during a wait; otherwise NmtError.
    The loop is cut after one iteration (its head state is again a member of the pre-state family)."""
    target = "canopen.nmt:NmtMaster.wait_for_bootup"
    props = ("C11",)
    xcheck = False
    loop_cuts = {"NmtMaster.wait_for_bootup": 1}
    exits = ("return", "raise:NmtError")

    def setup(self, w, case):
        m = mk_master(w)
        if w.bool("stale"):
            m.fields["_state_received"] = w.int("stale_state", 0, 127)

        def hook(interp, cond, timeout):
            if bool(interp.ctx.fresh_bool("arrived")):
                b = interp.ctx.fresh_int("hb", 0, 127)
                m.fields["_state_received"] = b
                w.pre["hb"] = b
                interp.ctx.emit("wait", True)
            else:
                interp.ctx.emit("wait", False)
        w.interp.cond_wait_hook = hook
        return Call(("method", m, "wait_for_bootup"), [10])

    @staticmethod
    def ok(s):
        arrived = [e for e in s.ev if e[0] == "wait"][-1][1]
        if s.returned:
            return And(arrived, compare("==", s.pre.get("hb", -1), 0))
        return s.raised("canopen.nmt:NmtError")

    ensures = {"returns-only-on-bootup": lambda s: WaitForBootup.ok(s)}


@contract
class AddHeartbeatCallback(Contract):
    target = "canopen.nmt:NmtMaster.add_heartbeat_callback"
    props = ("C11",)

    def setup(self, w, case):
        m = mk_master(w)
        cb = w.callback("new")
        w.pre.update(cb=cb, cbs0=w.snap(w.get(m, "_callbacks")))
        return Call(("method", m, "add_heartbeat_callback"), [cb])

    @staticmethod
    def ok(s):
        ok, new = S.appended(s.w.get(s.pre["node"], "_callbacks"), s.pre["cbs0"], 1)
        return ok and new[0] is s.pre["cb"]
    ensures = {"appended-last": lambda s: And(s.returned, AddHeartbeatCallback.ok(s))}


@contract
class NmtTables(Contract):
    """ground facts about the repo's literal tables against CiA 301"""
    target = "canopen.nmt:COMMAND_TO_STATE"
    props = ("C11",)
    xcheck = False

    def setup(self, w, case):
        import canopen.nmt as n
        w.pre.update(cts=dict(n.COMMAND_TO_STATE), states=dict(n.NMT_STATES), cmds=dict(n.NMT_COMMANDS))
        return Call(("func", "env.drivers", "nop"), [])

    ensures = {
        "command-to-state": lambda s: all(s.pre["cts"].get(cs) == code for cs, code in CS_TO_CODE.items())
        and set(s.pre["cts"]) <= set(CS_TO_CODE) | set(EXTRA_CS),
        "state-names": lambda s: all(s.pre["states"].get(code) == name for code, name in cia301.NMT_STATE_CODE.items()),
        "name-to-command": lambda s: all(s.pre["cmds"].get(n) == cs for n, cs in STATE_NAMES.items()),
    }

"""C01 / C07 — SDO client streams (segmented / expedited), request_response, upload / download."""
from pyvc.engine import Contract, contract
from pyvc.worlds import Call
from pyvc import spec as S
from pyvc.values import And, Or, Not, Implies, Iff, compare, ite, binop, SObj, SBytes, LBytes, truth_val
from spec import cia301

WS = "canopen.sdo.client:WritableStream"
RS = "canopen.sdo.client:ReadableStream"
COMM = "canopen.sdo.exceptions:SdoCommunicationError"
ABORT = "canopen.sdo.exceptions:SdoAbortedError"
T = 0x10


def requests(s):
    return [e[1] for e in s.ev if e[0] == "request"]


def last_outcome(s):
    """('response', bytes) | ('aborted', code) | ('silence',) of the last request, or None"""
    o = [e for e in s.ev if e[0] in ("response", "aborted", "silence")]
    return o[-1] if o else None


def propagated(s):
    """an abort / silence reported by request_response surfaces unchanged as the stream's exception"""
    o = last_outcome(s)
    if o is None:
        return False
    if o[0] == "aborted":
        return And(s.raised(ABORT), S.eq(s.code, o[1]))
    if o[0] == "silence":
        return s.raised(COMM)
    return None


def frame(req, items):
    return S.bytes_are(req, items)


def mux(index, sub):
    return [binop("&", index, 0xFF), binop(">>", index, 8), sub]


# ---------------------------------------------------------------------------------------------- download
@contract
class WsInit(Contract):
    target = "canopen.sdo.client:WritableStream.__init__"
    props = ("C01", "C07")
    cases = {"size-known": True, "size-unknown": False}
    exits = ("return", "raise:SdoCommunicationError", "raise:SdoAbortedError")

    def setup(self, w, case):
        cl = w.obj("env.sdoclient:ClientStub", rx_cobid=0x601)
        index, sub = w.int("index", 0, 0xFFFF), w.int("sub", 0, 0xFF)
        size = w.int("size", 0, 0xFFFFFFFF) if case else None
        force = w.bool("force_segment")
        w.pre.update(index=index, sub=sub, size=size, force=force)
        return Call(("new", WS), [cl, index, sub, size, force])

    @staticmethod
    def ok(s):
        p = s.pre
        size = p["size"]
        segmented = True if size is None else Or(compare("<", size, 1), compare(">", size, 4), p["force"])
        reqs = requests(s)
        if not bool(segmented):
            # expedited: nothing is sent yet; the header is prepared: ccs=1, e=1, s=1, n=4-size, multiplexer
            if not s.returned or len(reqs) != 0:
                return False
            size = s.w.ctx.choose(size, range(1, 5))
            st = s.ret.fields
            return And(S.bytes_are(st["_exp_header"], [0x23 | ((4 - size) << 2)] + mux(p["index"], p["sub"])),
                       Not(st["_done"]), compare("==", st["pos"], 0))
        if len(reqs) != 1:
            return False
        exp = [0x21 if size is not None else 0x20] + mux(p["index"], p["sub"]) + (S.le_bytes(size, 4) if size is not None else [0] * 4)
        fr = frame(reqs[0], exp)
        pr = propagated(s)
        if pr is not None:
            return And(fr, pr)
        R = last_outcome(s)[1]
        good = compare("==", S.byte(R, 0), 0x60)
        if not bool(good):
            return And(fr, s.raised(COMM))
        if not s.returned:
            return False
        st = s.ret.fields
        return And(fr, st["_exp_header"] is None, Not(st["_done"]), compare("==", st["pos"], 0),
                   compare("==", st["_toggle"], 0))

    ensures = {"choice_initiate-frame_response-check": lambda s: WsInit.ok(s)}


def mk_ws(w, expedited):
    cl = w.obj("env.sdoclient:ClientStub", rx_cobid=0x601)
    index, sub = w.int("index", 0, 0xFFFF), w.int("sub", 0, 0xFF)
    if expedited:
        size = w.choose(w.int("size", 1, 4), range(1, 5))
        hdr = w.bytes_of([0x23 | ((4 - size) << 2), index & 0xFF if isinstance(index, int) else S.int_item(binop("&", index, 0xFF)),
                          (index >> 8) if isinstance(index, int) else S.int_item(binop(">>", index, 8)),
                          sub if isinstance(sub, int) else S.int_item(sub)])
        pos, tog, done = 0, 0, w.bool("done")
    else:
        size = w.int("size", 0, 0xFFFFFFFF) if w.bool("size_known") else None
        hdr = None
        pos = w.int("pos", 0, 0xFFFFFFFF)
        tog = w.choose(w.int("toggle", 0, 0x10), (0, 0x10))
        done = w.bool("done")
    ws = w.obj(WS, sdo_client=cl, size=size, pos=pos, _toggle=tog, _exp_header=hdr, _done=done)
    w.pre.update(ws=ws, size=size, pos=pos, tog=tog, done=w.get(ws, "_done"), hdr=hdr, index=index, sub=sub)
    return ws


@contract
class WsWriteSegment(Contract):
    """one write() on a segmented download: one request frame ccs=0, t=toggle, n=7-k, c set iff the declared size is
    reached, payload = the first k=min(len,7) bytes, padding zero; toggle alternates, position advances, k returned"""
    target = "canopen.sdo.client:WritableStream.write"
    props = ("C01", "C07")
    exits = ("return", "raise:SdoCommunicationError", "raise:SdoAbortedError", "raise:RuntimeError")

    def setup(self, w, case):
        ws = mk_ws(w, False)
        b = w.lbytes("b", 1, (1 << 32) - 1)
        p = w.pre
        if p["size"] is not None:
            # the caller obeys the size it declared
            w.assume(compare("<=", binop("+", p["pos"], S.blen(b)), p["size"]))
        w.pre.update(b=b)
        return Call(("method", ws, "write"), [b])

    def observe(self, w):
        ws = w.pre["ws"]
        return {"pos": w.get(ws, "pos"), "toggle": w.get(ws, "_toggle"), "done": w.get(ws, "_done")}

    @staticmethod
    def ok(s):
        p = s.pre
        g = s.w.get
        ws = p["ws"]
        reqs = requests(s)
        if bool(p["done"]):
            return And(s.raised(RuntimeError), len(reqs) == 0)
        if len(reqs) != 1:
            return False
        L = S.blen(p["b"])
        k = s.w.ctx.choose(ite(compare("<", L, 7), L, 7), range(1, 8))
        last = False if p["size"] is None else compare(">=", binop("+", p["pos"], k), p["size"])
        cmd = binop("|", binop("|", p["tog"], (7 - k) << 1), ite(last, 1, 0))
        fr = frame(reqs[0], [cmd] + [S.bat(p["b"], i) for i in range(k)] + [0] * (7 - k))
        state = And(compare("==", g(ws, "_toggle"), binop("^", p["tog"], T)), Iff(g(ws, "_done"), last))
        pr = propagated(s)
        if pr is not None:
            return And(fr, pr)
        R = last_outcome(s)[1]
        if not bool(compare("==", binop("&", S.byte(R, 0), 0xE0), 0x20)):
            return And(fr, s.raised(COMM))
        return And(fr, state, s.returned, compare("==", s.ret, k), compare("==", g(ws, "pos"), binop("+", p["pos"], k)))

    ensures = {"segment-frame_toggle_pos_returns-k": lambda s: WsWriteSegment.ok(s)}


@contract
class WsWriteExpedited(Contract):
    """the expedited transfer is one frame: header ++ data ++ zero padding; accepted only with the 0x60 response"""
    target = "canopen.sdo.client:WritableStream.write"
    id = "WsWriteExpedited"
    props = ("C01", "C07")
    cases = {"bytes": "bytes", "memoryview": "memoryview"}
    exits = ("return", "raise:SdoCommunicationError", "raise:SdoAbortedError", "raise:RuntimeError")

    def setup(self, w, case):
        ws = mk_ws(w, True)
        size = w.pre["size"]
        b = w.bytes("b", size)             # the whole declared payload in one piece (see known finding for pieces)
        if case == "memoryview":
            b = w.memoryview(b)
        w.pre.update(b=b)
        return Call(("method", ws, "write"), [b])

    @staticmethod
    def ok(s):
        p = s.pre
        reqs = requests(s)
        if bool(p["done"]):
            return And(s.raised(RuntimeError), len(reqs) == 0)
        if len(reqs) != 1:
            return False
        size = p["size"]
        items = [S.byte(p["hdr"], i) for i in range(4)] + [S.byte(p["b"], i) for i in range(size)] + [0] * (4 - size)
        fr = frame(reqs[0], items)
        pr = propagated(s)
        if pr is not None:
            return And(fr, pr)
        R = last_outcome(s)[1]
        if not bool(compare("==", binop("&", S.byte(R, 0), 0xE0), 0x60)):
            return And(fr, s.raised(COMM))
        return And(fr, s.returned, compare("==", s.ret, size), truth_val(s.w.get(p["ws"], "_done")))

    ensures = {"expedited-frame": lambda s: WsWriteExpedited.ok(s)}


@contract
class WsClose(Contract):
    """close(): a segmented download that has not yet flagged its last segment sends the empty closing segment
    (t, n=7, c=1, zeros) exactly once; a completed or expedited one sends nothing; afterwards the stream is done"""
    target = "canopen.sdo.client:WritableStream.close"
    props = ("C01",)
    cases = {"segmented": False, "expedited": True}
    exits = ("return",)

    def setup(self, w, case):
        ws = mk_ws(w, case)
        w.pre.update(expedited=case)
        return Call(("method", ws, "close"), [])

    @staticmethod
    def ok(s):
        p = s.pre
        reqs = requests(s)
        if p["expedited"] or bool(p["done"]):
            return And(s.returned, len(reqs) == 0)
        if len(reqs) != 1:
            return False
        fr = frame(reqs[0], [binop("|", 0x0F, p["tog"])] + [0] * 7)
        pr = propagated(s)
        if pr is not None:
            return And(fr, pr)
        return And(fr, s.returned, truth_val(s.w.get(p["ws"], "_done")))

    ensures = {"closing-segment-once": lambda s: WsClose.ok(s)}


# ---------------------------------------------------------------------------------------------- upload
@contract
class RsInit(Contract):
    target = "canopen.sdo.client:ReadableStream.__init__"
    props = ("C01", "C07")
    exits = ("return", "raise:SdoCommunicationError", "raise:SdoAbortedError")

    def setup(self, w, case):
        cl = w.obj("env.sdoclient:ClientStub", rx_cobid=0x601)
        index, sub = w.int("index", 0, 0xFFFF), w.int("sub", 0, 0xFF)
        w.pre.update(index=index, sub=sub)
        return Call(("new", RS), [cl, index, sub])

    @staticmethod
    def ok(s):
        p = s.pre
        reqs = requests(s)
        if len(reqs) != 1:
            return False
        fr = frame(reqs[0], [0x40] + mux(p["index"], p["sub"]) + [0] * 4)
        pr = propagated(s)
        if pr is not None:
            return And(fr, pr)
        R = last_outcome(s)[1]
        cmd = S.byte(R, 0)
        good = And(compare("==", binop("&", cmd, 0xE0), 0x40), compare("==", S.le_uint(S.sub(R, 1, 3)), p["index"]),
                   compare("==", S.byte(R, 3), p["sub"]))
        if not bool(good):
            return And(fr, s.raised(COMM))
        if not s.returned:
            return False
        st = s.ret.fields
        e, sz = compare("!=", binop("&", cmd, 2), 0), compare("!=", binop("&", cmd, 1), 0)
        base = And(fr, Not(st["_done"]), compare("==", st["_toggle"], 0))
        size_attr = st.get("size", None)
        if bool(e):
            if bool(sz):
                n = s.w.ctx.choose(binop("-", 4, binop("&", binop(">>", cmd, 2), 3)), range(1, 5))
                return And(base, compare("==", size_attr, n), S.is_bytes(st["exp_data"], n),
                           S.eq(st["exp_data"], S.sub(R, 4, 4 + n)), compare("==", st["pos"], n))
            return And(base, size_attr is None, S.is_bytes(st["exp_data"], 4), S.eq(st["exp_data"], S.sub(R, 4, 8)),
                       compare("==", st["pos"], 4))
        if bool(sz):
            return And(base, st["exp_data"] is None, compare("==", size_attr, S.le_uint(S.sub(R, 4, 8))),
                       compare("==", st["pos"], 0))
        return And(base, st["exp_data"] is None, size_attr is None, compare("==", st["pos"], 0))

    ensures = {"request-frame_checks_decode": lambda s: RsInit.ok(s)}


def mk_rs(w):
    cl = w.obj("env.sdoclient:ClientStub", rx_cobid=0x601)
    tog = w.choose(w.int("toggle", 0, 0x10), (0, 0x10))
    pos = w.int("pos", 0, 0xFFFFFFFF)
    done = w.bool("done")
    exp = w.bytes("exp_data", w.choose(w.int("exp_len", 1, 4), range(1, 5))) if w.bool("expedited") else None
    rs = w.obj(RS, sdo_client=cl, _toggle=tog, pos=pos, _done=done, exp_data=exp)
    w.pre.update(rs=rs, tog=tog, pos=pos, done=w.get(rs, "_done"), exp=exp)
    return rs


@contract
class RsRead(Contract):
    """read(n>=0): one segment request [0x60|t, 0*7]; the response must be scs=0 with the expected toggle; the 7-n
    payload bytes are returned, done iff c, toggle alternates; wrong scs / toggle raise and deliver nothing"""
    target = "canopen.sdo.client:ReadableStream.read"
    functions = ("canopen.sdo.client:ReadableStream.readinto",)
    props = ("C01", "C07")
    cases = {"read": "read", "readinto": "readinto"}
    exits = ("return", "raise:SdoCommunicationError", "raise:SdoAbortedError")

    def setup(self, w, case):
        rs = mk_rs(w)
        w.pre.update(case=case)
        if case == "readinto":
            buf = w.bytes("buf", 7, mutable=True)
            w.pre.update(buf=buf, buf0=w.bytes_of(buf))
            return Call(("method", rs, "readinto"), [buf])
        return Call(("method", rs, "read"), [7])

    def observe(self, w):
        rs = w.pre["rs"]
        return {"pos": w.get(rs, "pos"), "toggle": w.get(rs, "_toggle"), "done": w.get(rs, "_done")}

    @staticmethod
    def delivered(s, items):
        """the call delivered exactly these byte values"""
        p = s.pre
        if p["case"] == "read":
            return S.bytes_are(s.ret, items)
        n = len(items)
        return And(compare("==", s.ret, n), And([compare("==", S.byte(p["buf"], i), items[i]) for i in range(n)]),
                   And([compare("==", S.byte(p["buf"], i), S.byte(p["buf0"], i)) for i in range(n, 7)]))

    @staticmethod
    def ok(s):
        p = s.pre
        g = s.w.get
        rs = p["rs"]
        reqs = requests(s)
        if bool(p["done"]):
            return And(s.returned, len(reqs) == 0, RsRead.delivered(s, []))
        if p["exp"] is not None:
            return And(s.returned, len(reqs) == 0, truth_val(g(rs, "_done")),
                       RsRead.delivered(s, [S.byte(p["exp"], i) for i in range(len(p["exp"].items))]))
        if len(reqs) != 1:
            return False
        fr = frame(reqs[0], [binop("|", 0x60, p["tog"])] + [0] * 7)
        unchanged = And(compare("==", g(rs, "_toggle"), p["tog"]), compare("==", g(rs, "pos"), p["pos"]), Not(g(rs, "_done")))
        pr = propagated(s)
        if pr is not None:
            return And(fr, pr, unchanged)
        R = last_outcome(s)[1]
        cmd = S.byte(R, 0)
        good = And(compare("==", binop("&", cmd, 0xE0), 0x00), compare("==", binop("&", cmd, T), p["tog"]))
        if not bool(good):
            return And(fr, s.raised(COMM), unchanged)
        L = s.w.ctx.choose(binop("-", 7, binop("&", binop(">>", cmd, 1), 7)), range(0, 8))
        return And(fr, s.returned, RsRead.delivered(s, [S.byte(R, 1 + i) for i in range(L)]),
                   Iff(g(rs, "_done"), compare("!=", binop("&", cmd, 1), 0)),
                   compare("==", g(rs, "_toggle"), binop("^", p["tog"], T)), compare("==", g(rs, "pos"), binop("+", p["pos"], L)))

    ensures = {"segment-request_checks_payload_toggle": lambda s: RsRead.ok(s)}


# ---------------------------------------------------------------------------------------------- request / response
CLIENT = "canopen.sdo.client:SdoClient"


@contract
class ReqResp(Contract):
    """request_response(req): stale responses queued before the request are discarded; the request goes out once per
    attempt; the first answer decides: an abort frame raises SdoAbortedError with exactly its code, anything else is
    returned; after MAX_RETRIES silent attempts the client sends the abort frame 80 00 00 00 00 00 04 05 and raises
    SdoCommunicationError"""
    target = "canopen.sdo.client:SdoClient.request_response"
    functions = ("canopen.sdo.client:SdoClient.send_request", "canopen.sdo.client:SdoClient.read_response",
                 "canopen.sdo.client:SdoClient.abort", "canopen.sdo.client:SdoClient.on_response")
    props = ("C01", "C07", "C06")
    cases = {"retries=%d/stale=%s" % (m, st): (m, st) for m in (1, 2, 3) for st in ("any", 0, 1, 2, 3)}
    exits = ("return", "raise:SdoCommunicationError", "raise:SdoAbortedError")
    xcheck_n = 3

    def setup(self, w, case):
        case, nstale = case
        if nstale == "any":
            stale = w.plist("stale", maxn=2, elem=lambda i: w.bytes("stale%d" % i, 8))
        else:
            stale = w.list([w.bytes("stale%d" % i, 8) for i in range(nstale)])
        rx, tx = w.int("rx_cobid", 0x601, 0x67F), w.int("tx_cobid", 0x581, 0x5FF)
        cl = w.obj(CLIENT, rx_cobid=rx, tx_cobid=tx, network=None, od=None, responses=w.new_queue(stale),
                   MAX_RETRIES=case, RESPONSE_TIMEOUT=0.01, PAUSE_BEFORE_SEND=0.0, RETRY_DELAY=0.0)
        w.setfield(cl, "network", w.obj("env.sdoclient:ReplyNet", client=cl, tx_cobid=tx))
        req = w.bytes("req", 8, mutable=True)
        w.assume(compare("!=", S.byte(req, 0), 0x80))      # aborts go through send_request, never through here
        w.pre.update(cl=cl, rx=rx, req=req, m=case)
        return Call(("method", cl, "request_response"), [req])

    @staticmethod
    def ok(s):
        p = s.pre
        sent = s.sent()
        outcomes = [e for e in s.ev if e[0] in ("reply", "noreply")]
        silent = len([e for e in outcomes if e[0] == "noreply"])
        req_ok = lambda fr: And(compare("==", fr[1], p["rx"]), S.eq(fr[2], p["req"]), S.is_false(fr[3]))
        if outcomes and outcomes[-1][0] == "reply":
            R = outcomes[-1][1]
            n_req = len(outcomes)
            if len(sent) != n_req or silent != n_req - 1 or n_req > p["m"]:
                return False
            frames = And([req_ok(f) for f in sent])
            if bool(compare("==", S.byte(R, 0), 0x80)):
                return And(frames, s.raised(ABORT), S.eq(s.code, S.le_uint(S.sub(R, 4, 8))))
            return And(frames, s.returned, S.is_bytes(s.ret, 8), S.eq(s.ret, R))
        # silence on every attempt
        if silent != p["m"] or len(sent) != p["m"] + 1:
            return False
        frames = And([req_ok(f) for f in sent[:-1]])
        ab = sent[-1]
        return And(frames, s.raised(COMM), compare("==", ab[1], p["rx"]),
                   S.bytes_are(ab[2], [0x80, 0, 0, 0, 0x00, 0x00, 0x04, 0x05]))

    ensures = {"flush_send_decode_timeout-abort": lambda s: ReqResp.ok(s)}


# ---------------------------------------------------------------------------------------------- upload / download
from contracts.c06_localnode import TYPES as OD_TYPES
from contracts.c04_codec import OD


@contract
class Upload(Contract):
    """upload(): returns the stream's bytes; for an entry the dictionary declares as a fixed-size number exactly the
    declared number of leading bytes when the response is longer or unsized"""
    target = "canopen.sdo.client:SdoClient.upload"
    props = ("C01",)
    cases = dict({t: OD_TYPES[t] for t in OD_TYPES}, **{"no-od-entry": None})

    def setup(self, w, case):
        D = w.lbytes("data", 0, (1 << 32) - 1)
        rs = w.int("response_size", 0, 0xFFFFFFFF) if w.bool("size_indicated") else None
        fp = w.obj("env.sdoclient:FpStub", size=rs, data=D)
        var = None
        if case is not None:
            var = w.obj(OD, data_type=case[0], min=None, max=None, name="v", index=0x2000, subindex=0, parent=None)
        cl = w.obj("env.sdoclient:OpenStubClient", fp=fp, od=w.obj("env.sdoclient:OdVarStub", var=var), rx_cobid=0x601,
                   tx_cobid=0x581)
        index, sub = w.int("index", 0, 0xFFFF), w.int("sub", 0, 0xFF)
        w.pre.update(D=D, rs=rs, tcase=case, index=index, sub=sub)
        return Call(("method", cl, "upload"), [index, sub])

    @staticmethod
    def ok(s):
        p = s.pre
        if not s.returned or not S.is_byteslike(s.ret):
            return False
        opened = [e for e in s.ev if e[0] == "open"]
        if len(opened) != 1:
            return False
        o = opened[0]
        op = And(S.eq(o[1], p["index"]), S.eq(o[2], p["sub"]), "r" in o[3] and "b" in o[3], S.is_false(o[6]))
        D, rs, t = p["D"], p["rs"], p["tcase"]
        if t is None or not t[3]:
            return And(op, S.same_bytes(s.ret, D))
        wbytes = t[1] // 8
        cut = True if rs is None else compare("<", wbytes, rs)
        if bool(cut):
            L = S.blen(D)
            k = s.w.ctx.choose(ite(compare("<", L, wbytes), L, wbytes), range(0, wbytes + 1))
            return And(op, S.bytes_are(s.ret, [S.bat(D, i) for i in range(k)]))
        return And(op, S.same_bytes(s.ret, D))

    ensures = {"exact-bytes_or-declared-leading-bytes": lambda s: Upload.ok(s)}


@contract
class Download(Contract):
    """download(): one stream opened for binary writing with size = len(data) and the force flag forwarded;
    exactly the caller's bytes are written to it, once"""
    target = "canopen.sdo.client:SdoClient.download"
    props = ("C01", "C03")

    def setup(self, w, case):
        data = w.lbytes("data", 0, (1 << 32) - 1)
        fp = w.obj("env.sdoclient:FpStub", size=None, data=None)
        cl = w.obj("env.sdoclient:OpenStubClient", fp=fp, od=None, rx_cobid=0x601, tx_cobid=0x581)
        index, sub, force = w.int("index", 0, 0xFFFF), w.int("sub", 0, 0xFF), w.bool("force")
        w.pre.update(data=data, index=index, sub=sub, force=force)
        return Call(("method", cl, "download"), [index, sub, data, force])

    @staticmethod
    def ok(s):
        p = s.pre
        opened = [e for e in s.ev if e[0] == "open"]
        writes = [e for e in s.ev if e[0] == "fp.write"]
        closes = [e for e in s.ev if e[0] == "fp.close"]
        if not s.returned or len(opened) != 1 or len(writes) != 1 or len(closes) != 1:
            return False
        o = opened[0]
        return And(S.eq(o[1], p["index"]), S.eq(o[2], p["sub"]), "w" in o[3] and "b" in o[3], S.eq(o[5], S.blen(p["data"])),
                   S.is_false(o[6]), Iff(o[7], p["force"]), S.same_bytes(writes[0][1], p["data"]),
                   [e[0] for e in s.ev] == ["open", "fp.write", "fp.close"])

    ensures = {"open-args_and_exact-write": lambda s: Download.ok(s)}


@contract
class WsWriteProgress(Contract):
    """every write() on an unfinished stream makes progress: it takes at least one byte or raises — the file-like
    interface (io.RawIOBase / BufferedWriter) re-offers what was not taken and would otherwise spin or silently drop data"""
    target = "canopen.sdo.client:WritableStream.write"
    id = "WsWriteProgress"
    props = ("C01",)
    cases = {"expedited": True, "segmented": False}
    exits = ()

    def setup(self, w, case):
        ws = mk_ws(w, case)
        w.assume(Not(w.pre["done"]))
        if case:
            n = w.choose(w.int("blen", 1, 4), range(1, 5))
            w.assume(n <= w.pre["size"])
            b = w.bytes("b", n)
        else:
            b = w.lbytes("b", 1, 1 << 20)
        w.pre.update(b=b, blen=(n if case else None))
        return Call(("method", ws, "write"), [b])

    ensures = {"takes-a-byte-or-raises": lambda s: (not s.returned) or (S.is_int(s.ret) and compare(">=", s.ret, 1))}
    regions = {
        # known finding: an expedited-size download (declared size 1..4, not forced to segmented) written in pieces
        "expedited-in-pieces": lambda s: (s.pre["blen"] is not None) and (s.pre["blen"] < s.pre["size"]),
    }


@contract
class WsCloseAfterFailure(Contract):
    """history: a write() of a segmented download fails (abort received, no response, unexpected response), then the
    stream is closed as a `with` block or BufferedWriter does: the transfer is over, close() emits no further request
    frame (a closing segment after the abort would be illegal for the protocol step, and makes a server that still holds
    the partial data commit it)"""
    target = "canopen.sdo.client:WritableStream.close"
    id = "WsCloseAfterFailure"
    functions = ("canopen.sdo.client:WritableStream.write",)
    props = ("C01", "C07")
    exits = ("return", "raise:SdoAbortedError")

    def setup(self, w, case):
        ws = mk_ws(w, False)
        w.assume(Not(w.pre["done"]))
        b = w.lbytes("b", 1, (1 << 32) - 1)
        p = w.pre
        if p["size"] is not None:
            w.assume(compare("<=", binop("+", p["pos"], S.blen(b)), p["size"]))
        w.pre.update(b=b)
        return Call(("func", "env.drivers", "write_then_close"), [ws, b])

    @staticmethod
    def ok(s):
        k = [i for i, e in enumerate(s.ev) if e[0] == "write-failed"]
        if not k:
            return True                  # the write went through: WsWriteSegment / WsClose speak about that
        after = [e for e in s.ev[k[0] + 1:] if e[0] == "request"]
        return s.returned and len(after) == 0

    ensures = {"no-request-frame-after-a-failed-write": lambda s: WsCloseAfterFailure.ok(s)}


def _compositions(n):
    if n == 0:
        return [[]]
    return [[k] + rest for k in range(1, n + 1) for rest in _compositions(n - k)]


@contract
class WsWriteExpeditedPieces(Contract):
    """an expedited-size download (declared size 2..4) written in pieces (every composition of the size into two or more
    parts): every piece is taken, nothing is sent until the declared size is there, then exactly one expedited frame
    carries header ++ the pieces in order ++ zero padding and the stream is done"""
    target = "canopen.sdo.client:WritableStream.write"
    id = "WsWriteExpeditedPieces"
    props = ("C01",)
    cases = {"+".join(map(str, c)): tuple(c) for n in (2, 3, 4) for c in _compositions(n) if len(c) > 1}
    exits = ("return", "raise:SdoCommunicationError", "raise:SdoAbortedError")

    def setup(self, w, case):
        n = sum(case)
        ws = mk_ws(w, True)
        w.assume(And(compare("==", w.pre["size"], n), Not(w.pre["done"])))
        pieces = [w.bytes("b%d" % i, k) for i, k in enumerate(case)]
        w.pre.update(pieces=pieces, n=n, parts=case)
        return Call(("func", "env.drivers", "write_pieces"), [ws, w.list(pieces)])

    @staticmethod
    def ok(s):
        p = s.pre
        reqs = requests(s)
        if len(reqs) != 1:
            return False
        n = p["n"]
        items = [S.byte(p["hdr"], i) for i in range(4)] + [S.byte(b, i) for b, k in zip(p["pieces"], p["parts"]) for i in range(k)] \
            + [0] * (4 - n)
        fr = frame(reqs[0], items)
        pr = propagated(s)
        if pr is not None:
            return And(fr, pr)
        R = last_outcome(s)[1]
        if not bool(compare("==", binop("&", S.byte(R, 0), 0xE0), 0x60)):
            return And(fr, s.raised(COMM))
        return And(fr, s.returned, isinstance(s.ret, tuple) and len(s.ret) == len(p["parts"])
                   and And([S.eq(r, k) for r, k in zip(s.ret, p["parts"])]),
                   truth_val(s.w.get(p["ws"], "_done")), S.eq(s.w.get(p["ws"], "pos"), n))

    ensures = {"one-expedited-frame-with-all-pieces": lambda s: WsWriteExpeditedPieces.ok(s)}

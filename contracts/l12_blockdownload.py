"""Whole-transfer theorems for the real BlockDownloadStream against a conformant block server (env/blockserver.py
BlockDownloadServer), by inductive loop invariants.

BlockDownloadTheorem (no loss): for every payload of declared size (1 .. 2**32-1 bytes), every sequence of block sizes
the server chooses (1..127, a new one with every acknowledgement), CRC negotiated or not: every client frame is legal
in its step (sequence numbers 1..blksize, last-segment flag, count of unused bytes, CRC the server accepts) and the
server commits exactly the payload.

BlockDownloadLossTheorem (one segment lost, anywhere in a sub-block that does not contain the last segment): the same
conclusion.  Two nested invariants: the file-layer loop (`block_download_in_chunks`) whose state now includes a gap
(the server holds fewer segments than the client has sent in the running sub-block) and `_current_block` described as
the consecutive segments of the payload sent in this sub-block; and the retransmission loop of the real `_retransmit`
(`for b in block: self.write(b)`), cut at its ghost iteration index."""
from pyvc.engine import Contract, contract
from pyvc.worlds import Call
from pyvc import spec as S
from pyvc.values import And, Or, Not, Implies, Iff, compare, ite, binop, SObj, SBytes, LBytes, truth_val, mk_bool
from pyvc.interp import LoopSpec, SList, PBase, SegBase
from pyvc.models import crc_prefix, crc_prefix_step, crc_prefix_zero
from contracts.l01_transfers import _same_prefix, _prefix_or_empty

BD = "canopen.sdo.client:BlockDownloadStream"


def seglist_is(lst, data, start, count):
    """lst is the list of the `count` consecutive 7-byte segments of data that begin at data[start]"""
    if not isinstance(lst, SList):
        return False
    c = []
    n0 = 0
    if lst.base is not None:
        b = lst.base
        if not (isinstance(b, SegBase) and b.width == 7 and b.arr.eq(data.arr)):
            return False
        n0 = b.length
        c.append(Or(compare("==", n0, 0), compare("==", b.start, binop("+", data.off, start))))
    c.append(compare("==", count, binop("+", n0, len(lst.items))))
    for j, it in enumerate(lst.items):
        if not S.is_byteslike(it):
            return False
        c.append(compare("==", S.blen(it), 7))
        at = binop("+", start, binop("*", binop("+", n0, j), 7))
        for i in range(7):
            c.append(compare("==", S.bat(it, i), S.bat(data, binop("+", at, i))))
    return And(c)


def segs(name, data, start, count):
    return SList([], SegBase(name, count, data.arr, binop("+", data.off, start)))


def _open_state(w, f, s, data, pos):
    """segments remain: both sides agree on the running sub-block; the server has every byte sent so far except, after
    a loss, the segments of this sub-block that followed the gap; _current_block holds this sub-block's segments.
    Returned as separate conjuncts (one obligation each: small queries)."""
    c, B, r = f["_seqno"], f["_blksize"], s["seq"]
    gap = compare("<", r, c)
    block_start = binop("-", pos, binop("*", c, 7))
    return {"in-step": And(S.eq(s["phase"], 1), Not(s["finished"]), S.eq(c, s["sent"]), S.eq(B, s["blksize"]),
                           compare(">=", r, 0), compare("<=", r, c), compare("<", c, B), compare("<=", B, 127),
                           compare(">=", s["losses_left"], 0), compare("<=", s["losses_left"], w.pre["losses"])),
            "current-block": And(compare(">=", block_start, 0), seglist_is(f["_current_block"], data, block_start, c)),
            "server-has-all-but-the-gap": _prefix_or_empty(s["buf"], data, binop("-", pos, binop("*", binop("-", c, r), 7))),
            "gap-only-once-and-not-in-the-final-sub-block":
                Implies(gap, And(S.eq(s["losses_left"], 0), compare("<", binop("+", block_start, binop("*", B, 7)), data.n)))}


def _inv(interp, fr):
    w = interp.l12
    bd, srv, data = w.pre["bd"], w.pre["srv"], w.pre["data"]
    f, s = bd.fields, srv.fields
    pos = fr.locals["pos"]
    crc_on = truth_val(f["crc_supported"])
    fin = compare(">=", pos, data.n)
    return {"range": And(compare(">=", pos, 0), compare("<=", pos, data.n), S.eq(fr.locals["total"], data.n)),
            "client-pos": S.eq(f["pos"], pos),
            "size-declared": And(S.eq(f["size"], data.n), S.eq(s["declared"], data.n)),
            "crc-flag": Iff(crc_on, s["server_crc"]),
            "crc-so-far": Implies(crc_on, S.eq(f["_crc"].fields["_value"], crc_prefix(data, pos))),
            # the flag only matters for the CRC (send skips the CRC of retransmitted segments)
            "not-retransmitting": Implies(crc_on, Not(f["_retransmitting"])),
            "done-iff-all-sent": Iff(f["_done"], fin),
            **{"open:" + k: Implies(Not(fin), v) for k, v in _open_state(w, f, s, data, pos).items()},
            # after the last segment (its acknowledgement already consumed): the server holds all but the last segment,
            # keeps the last segment's seven bytes pending, and waits for the end frame
            "closed": Implies(fin, _final_state(w, f, s, data))}


def _final_state(w, f, s, data):
    L = f["_last_bytes_sent"]
    pl = s.get("pending_last")
    if not isinstance(pl, SBytes) or len(pl.items) != 7:
        return False
    base = binop("-", data.n, L)
    c = [compare(">=", L, 1), compare("<=", L, 7), compare("<=", L, data.n), S.eq(s["phase"], 3), truth_val(s["finished"]),
         _prefix_or_empty(s["buf"], data, base)]
    for i in range(7):
        c.append(ite(compare("<", i, L), S.eq(S.byte(pl, i), S.bat(data, binop("+", base, i))), S.eq(S.byte(pl, i), 0)))
    return And(c)


def _havoc(interp, fr):
    w = interp.l12
    bd, srv, data = w.pre["bd"], w.pre["srv"], w.pre["data"]
    ctx = interp.ctx
    f, s = bd.fields, srv.fields
    pos = ctx.fresh_int("h_pos", 0, (1 << 32) - 1)
    fr.locals["pos"] = pos
    f["pos"] = pos
    f["_crc"].fields["_value"] = crc_prefix(data, pos) if bool(truth_val(f["crc_supported"])) else 0
    s["losses_left"] = ctx.fresh_int("h_losses_left", 0, w.pre["losses"]) if w.pre["losses"] else 0
    if bool(ctx.fresh_bool("h_finished")):
        ctx.assume(compare(">=", pos, data.n))
        L = ctx.choose(ctx.fresh_int("h_last_len", 1, 7), range(1, 8))
        ctx.assume(compare("<=", L, data.n))
        f["_done"] = True
        f["_last_bytes_sent"] = L
        f["_current_block"] = SList([])
        s["phase"] = 3
        s["finished"] = True
        base = binop("-", data.n, L)
        s["buf"] = LBytes(data.arr, data.off, base, True)
        s["pending_last"] = SBytes([data.at(binop("+", base, i)) if i < L else 0 for i in range(7)], False)
        f["_seqno"] = 0
        f["_blksize"] = ctx.fresh_int("h_blk_final", 1, 127)
        s["seq"] = 0
        s["sent"] = 0
    else:
        ctx.assume(compare("<", pos, data.n))
        blk = ctx.fresh_int("h_blksize", 1, 127)
        c = ctx.fresh_int("h_seq", 0, 126)
        ctx.assume(compare("<", c, blk))
        r = ctx.fresh_int("h_received", 0, 126) if w.pre["losses"] else c
        ctx.assume(compare("<=", r, c))
        ctx.assume(compare(">=", binop("-", pos, binop("*", c, 7)), 0))
        f["_done"] = False
        f["_seqno"] = c
        f["_blksize"] = blk
        f["_current_block"] = segs("h_block", data, binop("-", pos, binop("*", c, 7)), c)
        s["seq"] = r
        s["sent"] = c
        s["blksize"] = blk
        s["phase"] = 1
        s["finished"] = False
        s["buf"] = LBytes(data.arr, data.off, binop("-", pos, binop("*", binop("-", c, r), 7)), True)
    for m in range(1, 8):
        ctx.assume(crc_prefix_step(data, pos, m))
    del ctx.events[:]
    ctx.emit("havoc-trace")


# ---- the retransmission loop of the real _retransmit: `for b in block: self.write(b)` ----------------------------------
def _r_inv(interp, fr):
    w = interp.l12
    bd, srv, data = w.pre["bd"], w.pre["srv"], w.pre["data"]
    f, s = bd.fields, srv.fields
    it, j = fr.locals["$iter"], fr.locals["$i"]
    m = binop("+", it.base.length, len(it.items)) if it.base is not None else len(it.items)
    pos = f["pos"]
    p0 = binop("-", pos, binop("*", j, 7))
    p_end = binop("+", p0, binop("*", m, 7))
    c, B = f["_seqno"], f["_blksize"]
    crc_on = truth_val(f["crc_supported"])
    return {"index": And(compare(">=", j, 0), compare("<=", j, m)),
            "block-is-the-unacknowledged-segments": And(compare(">=", p0, 0), seglist_is(it, data, p0, m)),
            "sub-block-without-the-last-segment": compare("<", p_end, data.n),
            "retransmitting": Implies(crc_on, truth_val(f["_retransmitting"])),
            "not-done": And(Not(f["_done"]), S.eq(f["size"], data.n), S.eq(s["declared"], data.n)),
            "crc-covers-the-block-once": Implies(crc_on, S.eq(f["_crc"].fields["_value"], crc_prefix(data, p_end))),
            "in-step": And(S.eq(c, s["sent"]), S.eq(c, s["seq"]), S.eq(B, s["blksize"]), compare(">=", c, 0), compare("<", c, B),
                           compare("<=", B, 127), S.eq(s["phase"], 1), Not(s["finished"]), S.eq(s["losses_left"], 0)),
            "current-block": And(compare(">=", binop("-", pos, binop("*", c, 7)), 0),
                                 seglist_is(f["_current_block"], data, binop("-", pos, binop("*", c, 7)), c)),
            "server-has-prefix": _prefix_or_empty(s["buf"], data, pos)}


def _r_havoc(interp, fr):
    w = interp.l12
    bd, srv, data = w.pre["bd"], w.pre["srv"], w.pre["data"]
    ctx = interp.ctx
    f, s = bd.fields, srv.fields
    it = fr.locals["$iter"]
    m = binop("+", it.base.length, len(it.items)) if it.base is not None else len(it.items)
    p0 = f["pos"]
    j = ctx.fresh_int("r_j", 0, 127)
    fr.locals["$i"] = j
    # the list is not changed by the loop: only its description is normalised (justified by the loop-init obligation
    # block-is-the-unacknowledged-segments)
    fr.locals["$iter"] = segs("r_block", data, p0, m)
    pos = binop("+", p0, binop("*", j, 7))
    f["pos"] = pos
    B = ctx.fresh_int("r_blksize", 1, 127)
    c = ctx.fresh_int("r_seq", 0, 126)
    ctx.assume(compare("<", c, B))
    ctx.assume(compare(">=", binop("-", pos, binop("*", c, 7)), 0))
    f["_seqno"] = c
    f["_blksize"] = B
    f["_current_block"] = segs("r_current", data, binop("-", pos, binop("*", c, 7)), c)
    s["seq"] = c
    s["sent"] = c
    s["blksize"] = B
    s["buf"] = LBytes(data.arr, data.off, pos, True)


class _Base(Contract):
    target = "canopen.sdo.client:BlockDownloadStream.write"
    props = ("C12",)
    xcheck_n = 4
    max_paths = 6000
    losses = 0

    def setup(self, w, case):
        req_crc, srv_crc = case
        index, sub = w.int("index", 0, 0xFFFF), w.int("sub", 0, 0xFF)
        data = w.lbytes("data", 1, (1 << 32) - 1)
        srv = w.obj("env.blockserver:BlockDownloadServer", index=index, subindex=sub, buf=w.empty_prefix_of(data), server_crc=srv_crc,
                    use_crc=False, declared=None, seq=0, blksize=0, phase=0, last_len=0, finished=False, committed=None,
                    rx_cobid=0x601, pending_last=None, sent=0, losses_left=self.losses)
        if not w.native:
            w.interp.l12 = w
            if isinstance(data, LBytes):
                w.assume(crc_prefix_zero(data))
        size = data.n if isinstance(data, LBytes) else len(data)
        bd = w.run(Call(("new", BD), [srv, index, sub, size, req_crc]))
        w.pre.update(bd=bd, srv=srv, data=data, losses=self.losses)
        return Call(("func", "env.drivers", "block_download_in_chunks"), [bd, data])

    def observe(self, w):
        return {"committed": w.get(w.pre["srv"], "committed")}

    @staticmethod
    def ok(s):
        p = s.pre
        if not s.returned or any(e[0] in ("illegal", "abort") for e in s.ev):
            return False
        com = s.w.get(p["srv"], "committed")
        if isinstance(p["data"], LBytes):
            return _prefix_or_empty(com, p["data"], p["data"].n)
        return S.is_byteslike(com) and S.same_bytes(com, p["data"])


_OUTER = LoopSpec(_inv, _havoc, lambda interp, fr: binop("-", fr.locals["total"], fr.locals["pos"]))


@contract
class BlockDownloadTheorem(_Base):
    id = "BlockDownloadTheorem"
    functions = ("canopen.sdo.client:BlockDownloadStream.__init__", "canopen.sdo.client:BlockDownloadStream.send",
                 "canopen.sdo.client:BlockDownloadStream._block_ack", "canopen.sdo.client:BlockDownloadStream.close",
                 "canopen.sdo.base:CrcXmodem.process", "canopen.sdo.base:CrcXmodem.final")
    cases = {"crc/crc": (True, True), "crc-requested/server-without": (True, False), "no-crc-requested/server-with": (False, True)}
    loop_specs = {("block_download_in_chunks", 0): _OUTER}
    losses = 0
    __doc__ = __doc__
    ensures = {"frames-legal_server-commits-exactly-the-payload": lambda s: _Base.ok(s)}


@contract
class BlockDownloadLossTheorem(_Base):
    id = "BlockDownloadLossTheorem"
    functions = BlockDownloadTheorem.functions + ("canopen.sdo.client:BlockDownloadStream._retransmit",)
    cases = {"crc/crc": (True, True), "no-crc": (False, False)}
    loop_specs = {("block_download_in_chunks", 0): _OUTER,
                  ("BlockDownloadStream._retransmit", 0): LoopSpec(_r_inv, _r_havoc, None)}
    losses = 1
    __doc__ = __doc__
    ensures = {"single-loss-repaired_server-commits-exactly-the-payload": lambda s: _Base.ok(s)}

"""Whole-transfer theorem for the real BlockDownloadStream against a conformant block server without loss
(env/blockserver.py BlockDownloadServer), by an inductive loop invariant: for every payload of declared size
(1 .. 2**32-1 bytes), every sequence of block sizes the server chooses (1..127, a new one with every acknowledgement),
CRC negotiated or not: every client frame is legal in its step (sequence numbers 1..blksize, last-segment flag, count
of unused bytes, CRC the server accepts) and the server commits exactly the payload."""
from pyvc.engine import Contract, contract
from pyvc.worlds import Call
from pyvc import spec as S
from pyvc.values import And, Or, Not, Implies, Iff, compare, ite, binop, SObj, SBytes, LBytes, truth_val, mk_bool
from pyvc.interp import LoopSpec, SList, PBase
from pyvc.models import crc_prefix, crc_prefix_step, crc_prefix_zero
from contracts.l01_transfers import _same_prefix, _prefix_or_empty

BD = "canopen.sdo.client:BlockDownloadStream"


def _inv(interp, fr):
    w = interp.l12
    bd, srv, data = w.pre["bd"], w.pre["srv"], w.pre["data"]
    f, s = bd.fields, srv.fields
    pos = fr.locals["pos"]
    crc_on = truth_val(f["crc_supported"])
    fin = compare(">=", pos, data.n)
    c = {"range": And(compare(">=", pos, 0), compare("<=", pos, data.n), S.eq(fr.locals["total"], data.n)),
         "client-pos": S.eq(f["pos"], pos),
         "size-declared": And(S.eq(f["size"], data.n), S.eq(s["declared"], data.n)),
         "crc-flag": Iff(crc_on, s["server_crc"]),
         "crc-so-far": Implies(crc_on, S.eq(f["_crc"].fields["_value"], crc_prefix(data, pos))),
         "not-retransmitting": Not(f["_retransmitting"]),
         "done-iff-all-sent": Iff(f["_done"], fin),
         # while segments remain: the server has exactly the bytes sent so far and both sides agree on the position
         # inside the running sub-block and on its size
         "open": Implies(Not(fin), And(_prefix_or_empty(s["buf"], data, pos), S.eq(s["phase"], 1), S.eq(f["_seqno"], s["seq"]),
                                       S.eq(f["_blksize"], s["blksize"]), compare(">=", s["seq"], 0),
                                       compare("<", s["seq"], s["blksize"]), compare("<=", s["blksize"], 127), Not(s["finished"]))),
         # after the last segment (its acknowledgement already consumed): the server holds all but the last segment,
         # keeps the last segment's seven bytes pending, and waits for the end frame
         "closed": Implies(fin, w.pre["final_state"](interp, fr))}
    return c


def _final_state(w):
    def fs(interp, fr):
        bd, srv, data = w.pre["bd"], w.pre["srv"], w.pre["data"]
        f, s = bd.fields, srv.fields
        L = f["_last_bytes_sent"]
        pl = s.get("pending_last")
        if not isinstance(pl, SBytes) or len(pl.items) != 7:
            return False
        base = binop("-", data.n, L)
        c = [compare(">=", L, 1), compare("<=", L, 7), compare("<=", L, data.n), S.eq(s["phase"], 3), truth_val(s["finished"]),
             _prefix_or_empty(s["buf"], data, base)]
        for i in range(7):
            c.append(ite(compare("<", i, L), S.eq(S.byte(pl, i), S.bat(data, binop("+", base, i))), S.eq(S.byte(pl, i), 0)))
        return And(c)
    return fs


def _havoc(interp, fr):
    w = interp.l12
    bd, srv, data = w.pre["bd"], w.pre["srv"], w.pre["data"]
    ctx = interp.ctx
    f, s = bd.fields, srv.fields
    pos = ctx.fresh_int("h_pos", 0, (1 << 32) - 1)
    fr.locals["pos"] = pos
    f["pos"] = pos
    f["_crc"].fields["_value"] = crc_prefix(data, pos) if bool(truth_val(f["crc_supported"])) else 0
    f["_current_block"] = SList([], PBase("h_block", ctx.fresh_int("h_block.len", 0, 127)))
    if bool(ctx.fresh_bool("h_finished")):
        ctx.assume(compare(">=", pos, data.n))
        L = ctx.choose(ctx.fresh_int("h_last_len", 1, 7), range(1, 8))
        ctx.assume(compare("<=", L, data.n))
        f["_done"] = True
        f["_last_bytes_sent"] = L
        s["phase"] = 3
        s["finished"] = True
        base = binop("-", data.n, L)
        s["buf"] = LBytes(data.arr, data.off, base, True)
        from pyvc.values import int_to_byte
        s["pending_last"] = SBytes([data.at(binop("+", base, i)) if i < L else 0 for i in range(7)], False)
        f["_seqno"] = 0
        f["_blksize"] = ctx.fresh_int("h_blk_final", 1, 127)
    else:
        ctx.assume(compare("<", pos, data.n))
        blk = ctx.fresh_int("h_blksize", 1, 127)
        seq = ctx.fresh_int("h_seq", 0, 126)
        ctx.assume(compare("<", seq, blk))
        f["_done"] = False
        f["_seqno"] = seq
        f["_blksize"] = blk
        s["seq"] = seq
        s["blksize"] = blk
        s["phase"] = 1
        s["finished"] = False
        s["buf"] = LBytes(data.arr, data.off, pos, True)
    for m in range(1, 8):
        ctx.assume(crc_prefix_step(data, pos, m))
    del ctx.events[:]
    ctx.emit("havoc-trace")


@contract
class BlockDownloadTheorem(Contract):
    target = "canopen.sdo.client:BlockDownloadStream.write"
    id = "BlockDownloadTheorem"
    functions = ("canopen.sdo.client:BlockDownloadStream.__init__", "canopen.sdo.client:BlockDownloadStream.send",
                 "canopen.sdo.client:BlockDownloadStream._block_ack", "canopen.sdo.client:BlockDownloadStream.close",
                 "canopen.sdo.base:CrcXmodem.process", "canopen.sdo.base:CrcXmodem.final")
    props = ("C12",)
    cases = {"crc/crc": (True, True), "crc-requested/server-without": (True, False), "no-crc-requested/server-with": (False, True)}
    loop_specs = {("block_download_in_chunks", 0): LoopSpec(_inv, _havoc,
                                                            lambda interp, fr: binop("-", fr.locals["total"], fr.locals["pos"]))}
    xcheck_n = 4
    max_paths = 6000
    __doc__ = __doc__

    def setup(self, w, case):
        req_crc, srv_crc = case
        index, sub = w.int("index", 0, 0xFFFF), w.int("sub", 0, 0xFF)
        data = w.lbytes("data", 1, (1 << 32) - 1)
        srv = w.obj("env.blockserver:BlockDownloadServer", index=index, subindex=sub, buf=w.empty_prefix_of(data), server_crc=srv_crc,
                    use_crc=False, declared=None, seq=0, blksize=0, phase=0, last_len=0, finished=False, committed=None,
                    rx_cobid=0x601, pending_last=None)
        if not w.native:
            w.interp.l12 = w
            if isinstance(data, LBytes):
                w.assume(crc_prefix_zero(data))
        size = data.n if isinstance(data, LBytes) else len(data)
        bd = w.run(Call(("new", BD), [srv, index, sub, size, req_crc]))
        w.pre.update(bd=bd, srv=srv, data=data)
        w.pre["final_state"] = _final_state(w)
        return Call(("func", "env.drivers", "block_download_in_chunks"), [bd, data])

    def observe(self, w):
        return {"committed": w.get(w.pre["srv"], "committed")}

    @staticmethod
    def ok(s):
        p = s.pre
        if not s.returned or any(e[0] in ("illegal", "abort") for e in s.ev):
            return False
        com = s.w.get(p["srv"], "committed")
        if isinstance(p["data"], LBytes):
            return _prefix_or_empty(com, p["data"], p["data"].n)
        return S.is_byteslike(com) and S.same_bytes(com, p["data"])

    ensures = {"frames-legal_server-commits-exactly-the-payload": lambda s: BlockDownloadTheorem.ok(s)}

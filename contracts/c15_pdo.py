"""C15 — PDO reception / transmission: on_message, callbacks, transmit, remote_request, subscribe, lookups."""
from pyvc.engine import Contract, contract
from pyvc.worlds import Call
from pyvc import spec as S
from pyvc.values import And, Or, Not, Implies, Iff, compare, ite, binop, SObj, SBytes, truth_val
from contracts.c04_codec import OD

PM = "canopen.pdo.base:PdoMap"


def mk_map(w, **kw):
    net = w.obj("env.net:Net")
    node = w.obj("env.stubs:HandlerStub", network=net)
    cob = w.int("cob_id", 1, 0x1FFFFFFF)
    data = w.bytes("data", 3, mutable=True)
    cbs = w.plist("callbacks")
    f = dict(pdo_node=node, cob_id=cob, data=data, period=None, _task=None, enabled=w.bool("enabled"),
             rtr_allowed=w.bool("rtr_allowed"), trans_type=None, timestamp=None, callbacks=cbs,
             receive_condition=w.new_condition(), is_received=False, map=w.list([]), length=20)
    f.update(kw)
    pm = w.obj(PM, **f)
    w.pre.update(pm=pm, net=net, cob=cob, data0=w.bytes_of(data), data=data, cbs0=w.snap(cbs),
                 enabled=w.get(pm, "enabled"), rtr=w.get(pm, "rtr_allowed"))
    return pm


@contract
class PdoOnMessage(Contract):
    """a received frame updates the map only if it carries the map's COB-ID and the map is not itself transmitting;
    then data, timestamp (and period) are taken from the frame, each callback is invoked once in order, a waiting
    reader is woken; otherwise nothing changes"""
    target = "canopen.pdo.base:PdoMap.on_message"
    props = ("C15",)
    cases = {"idle-first": (False, False), "idle-later": (False, True), "transmitting": (True, True),
             "idle-same-timestamp": (False, "same")}

    def setup(self, w, case):
        transmitting, had_ts = case
        # ("same": the previous frame carried the very same timestamp, e.g. a coarse clock; the frame is still a new one)
        pm = mk_map(w, timestamp=((12.5 if had_ts == "same" else 10.0) if had_ts else None), period=(0.25 if had_ts else None))
        # a mapping of 20 bits (frame length ceil(20/8) = 3): the last byte is only partly used
        od = w.obj(OD, data_type=0x06, name="Var", index=0x2000, subindex=0, parent=None)
        w.setfield(pm, "map", w.list([w.obj("canopen.pdo.base:PdoVariable", od=od, pdo_parent=pm, offset=0, length=20,
                                            name="Var", index=0x2000, subindex=0)]))
        if transmitting:
            w.setfield(pm, "_task", w.obj("env.stubs:HandlerStub", network=None))
        can_id = w.int("can_id", 1, 0x1FFFFFFF)
        frame = w.bytes("frame", 3, mutable=True)
        w.pre.update(can_id=can_id, frame=frame, transmitting=transmitting, had_ts=had_ts)
        return Call(("method", pm, "on_message"), [can_id, frame, 12.5])

    def observe(self, w):
        pm = w.pre["pm"]
        return {"data": w.get(pm, "data"), "ts": w.get(pm, "timestamp"), "period": w.get(pm, "period"),
                "received": w.get(pm, "is_received")}

    @staticmethod
    def ok(s):
        p = s.pre
        g = s.w.get
        pm = p["pm"]
        mine = And(compare("==", p["can_id"], p["cob"]), not p["transmitting"])
        if bool(mine):
            exp_ev = [("notify_all",)] + S.expected_calls(p["cbs0"], (pm,))
            return And(s.returned, S.is_bytes(g(pm, "data"), 3), S.eq(g(pm, "data"), p["frame"]), g(pm, "timestamp") == 12.5,
                       (g(pm, "period") == (0.0 if p["had_ts"] == "same" else 2.5)) if p["had_ts"] else (g(pm, "period") is None),
                       truth_val(g(pm, "is_received")), S.events_are(s, exp_ev),
                       S.same_list(g(pm, "callbacks"), p["cbs0"]))
        return And(s.returned, g(pm, "data") is p["data"], S.eq(g(pm, "data"), p["data0"]), len(s.ev) == 0,
                   (g(pm, "timestamp") == (12.5 if p["had_ts"] == "same" else 10.0)) if p["had_ts"] else (g(pm, "timestamp") is None),
                   Not(g(pm, "is_received")))

    ensures = {"updates-iff-own-cob-and-not-transmitting": lambda s: PdoOnMessage.ok(s)}


@contract
class PdoAddCallback(Contract):
    target = "canopen.pdo.base:PdoMap.add_callback"
    props = ("C15",)

    def setup(self, w, case):
        pm = mk_map(w)
        cb = w.callback("new")
        w.pre.update(cb=cb)
        return Call(("method", pm, "add_callback"), [cb])

    @staticmethod
    def ok(s):
        ok, new = S.appended(s.w.get(s.pre["pm"], "callbacks"), s.pre["cbs0"], 1)
        return ok and new[0] is s.pre["cb"]
    ensures = {"appended-last": lambda s: And(s.returned, PdoAddCallback.ok(s))}


@contract
class PdoTransmit(Contract):
    """transmit(): exactly one frame with the map's COB-ID and current data; remote_request(): one remote frame with
    empty data only for an enabled map that allows RTR, otherwise nothing"""
    target = "canopen.pdo.base:PdoMap.transmit"
    functions = ("canopen.pdo.base:PdoMap.remote_request",)
    props = ("C15",)
    cases = {"transmit": "t", "remote_request": "r"}

    def setup(self, w, case):
        pm = mk_map(w)
        w.pre.update(op=case)
        return Call(("method", pm, "transmit" if case == "t" else "remote_request"), [])

    @staticmethod
    def ok(s):
        p = s.pre
        sent = s.sent()
        if not s.returned:
            return False
        if p["op"] == "t":
            return And(len(sent) == 1, len(s.ev) == 1, S.eq(sent[0][1], p["cob"]), S.eq(sent[0][2], p["data0"]), S.is_false(sent[0][3]))
        if bool(And(p["enabled"], p["rtr"])):
            return And(len(sent) == 1, len(s.ev) == 1, S.eq(sent[0][1], p["cob"]), S.is_bytes(sent[0][2], 0), S.is_true(sent[0][3]))
        return len(s.ev) == 0

    ensures = {"frame-exact_or-nothing": lambda s: PdoTransmit.ok(s)}


@contract
class PdoSubscribe(Contract):
    """subscribe(): registers on_message for the map's COB-ID exactly when the map is enabled"""
    target = "canopen.pdo.base:PdoMap.subscribe"
    props = ("C15", "C09")

    def setup(self, w, case):
        pm = mk_map(w)
        return Call(("method", pm, "subscribe"), [])

    @staticmethod
    def ok(s):
        p = s.pre
        subs = [e for e in s.ev if e[0] == "subscribe"]
        if not s.returned:
            return False
        if bool(p["enabled"]):
            it = s.w.interp
            return And(len(s.ev) == 1, len(subs) == 1, S.eq(subs[0][1], p["cob"]),
                       S.ev_eq(it, subs[0][2], it.getattr(p["pm"], "on_message")))
        return len(s.ev) == 0

    ensures = {"iff-enabled": lambda s: PdoSubscribe.ok(s)}


@contract
class PdoWaitForReception(Contract):
    """wait_for_reception(): returns the frame's timestamp if a frame was received during the wait, else None
    (Condition.wait is a havoc point whose wake-up effect is on_message's post-condition)"""
    target = "canopen.pdo.base:PdoMap.wait_for_reception"
    props = ("C15",)
    xcheck = False

    def setup(self, w, case):
        pm = mk_map(w, timestamp=10.0)
        w.setfield(pm, "is_received", w.bool("stale_received"))

        def hook(interp, cond, timeout):
            if bool(interp.ctx.fresh_bool("arrived")):
                pm.fields["is_received"] = True
                pm.fields["timestamp"] = 12.5
                interp.ctx.emit("wait", True)
            else:
                interp.ctx.emit("wait", False)
        w.interp.cond_wait_hook = hook
        return Call(("method", pm, "wait_for_reception"), [1])

    @staticmethod
    def ok(s):
        arrived = [e for e in s.ev if e[0] == "wait"][-1][1]
        return And(s.returned, (s.ret == 12.5) if arrived else (s.ret is None))

    ensures = {"timestamp-iff-received-during-wait": lambda s: PdoWaitForReception.ok(s)}


@contract
class SubscribeBoundMethod(Contract):
    """Network.subscribe with a bound method (what PdoMap.subscribe passes): subscribing map.on_message again — a new
    but equal bound-method object, as every attribute access creates — must not duplicate delivery"""
    target = "canopen.network:Network.subscribe"
    id = "SubscribeBoundMethod"
    props = ("C15", "C10")
    cases = {"twice": 2, "three-times": 3}

    def setup(self, w, case):
        from contracts.c10_network import mknet
        net, subs = mknet(w, None, subs=w.dict({}))
        node = w.obj("env.stubs:HandlerStub", network=net)
        pm = w.obj(PM, pdo_node=node, cob_id=0x181, enabled=True)
        w.pre.update(net=net, pm=pm, n=case)
        return Call(("func", "env.drivers", "subscribe_n"), [pm, case])

    def observe(self, w):
        return {"n": len(w.get(w.pre["net"], "subscribers").get(0x181, [])) if w.native else
                len(w.get(w.pre["net"], "subscribers").d[0x181].items)}

    ensures = {"delivered-once": lambda s: And(s.returned, len(s.w.get(s.pre["net"], "subscribers").d[0x181].items) == 1)}


def mk_lookup_map(w, n):
    vars_ = []
    for i in range(n):
        od = w.obj(OD, data_type=0x06, name="Var%d" % i, index=0x2000 + i, subindex=0, parent=None)
        vars_.append(w.obj("canopen.pdo.base:PdoVariable", od=od, pdo_parent=None, offset=16 * i, length=16,
                           name="Var%d" % i, index=0x2000 + i, subindex=0))
    pm = w.obj(PM, map=w.list(vars_), cob_id=0x181)
    return pm, vars_


@contract
class PdoMapGetItem(Contract):
    """looking a mapped variable up by slot number, by object index, by hex string, or by name reaches the same object"""
    target = "canopen.pdo.base:PdoMap.__getitem__"
    functions = ("canopen.pdo.base:PdoMap.__getitem_by_index", "canopen.pdo.base:PdoMap.__getitem_by_name")
    props = ("C15",)
    cases = {"slot": "slot", "index": "index", "hex": "hex", "name": "name", "missing-index": "mi", "missing-name": "mn"}
    exits = ()

    def setup(self, w, case):
        pm, vars_ = mk_lookup_map(w, 3)
        k = w.choose(w.int("k", 0, 2), range(3))
        key = {"slot": k, "index": 0x2000 + k, "hex": "%x" % (0x2000 + k), "name": "Var%d" % k, "mi": 0x3000, "mn": "Nope"}[case]
        w.pre.update(vars=vars_, k=k, case=case)
        return Call(("getitem", pm), [key])

    @staticmethod
    def ok(s):
        p = s.pre
        if p["case"] in ("mi", "mn"):
            return s.raised(KeyError)
        return s.returned and s.ret is p["vars"][p["k"]]

    ensures = {"same-object": lambda s: PdoMapGetItem.ok(s)}

"""C12 — SDO block download (BlockDownloadStream): initiate, segments, acknowledgements, retransmission, end frame."""
from pyvc.engine import Contract, contract
from pyvc.worlds import Call
from pyvc import spec as S
from pyvc.values import And, Or, Not, Implies, Iff, compare, ite, binop, SObj, SBytes, LBytes, truth_val
from pyvc.models import crc_fold
from contracts.c01_client import requests, last_outcome, propagated, mux, COMM, ABORT

BD = "env.blockclient:BdStream"
REAL_BD = "canopen.sdo.client:BlockDownloadStream"


def sends(s):
    return [e[1] for e in s.ev if e[0] == "send_request"]


def aborts(s):
    return [e[1] for e in s.ev if e[0] == "abort"]


def outcomes(s):
    return [e for e in s.ev if e[0] in ("response", "aborted", "silence")]


@contract
class BdInit(Contract):
    """initiate block download: one request ccs=6, cs=0, cc = CRC requested, s = size given, multiplexer, size LE;
    the response must be scs=5 with the same multiplexer, else abort + error; block size and CRC flag are taken from it"""
    target = "canopen.sdo.client:BlockDownloadStream.__init__"
    props = ("C12", "C07")
    cases = {"size-known": True, "size-unknown": False}
    exits = ("return", "raise:SdoCommunicationError", "raise:SdoAbortedError")

    def setup(self, w, case):
        cl = w.obj("env.blockclient:BlockClient", rx_cobid=0x601)
        index, sub = w.int("index", 0, 0xFFFF), w.int("sub", 0, 0xFF)
        size = w.int("size", 0, 0xFFFFFFFF) if case else None
        crc = w.bool("request_crc")
        w.pre.update(index=index, sub=sub, size=size, crc=crc)
        return Call(("new", REAL_BD), [cl, index, sub, size, crc])

    @staticmethod
    def ok(s):
        p = s.pre
        reqs = requests(s)
        if len(reqs) != 1:
            return False
        cmd = binop("|", binop("|", 0xC0, ite(p["crc"], 4, 0)), 2 if p["size"] is not None else 0)
        fr = S.bytes_are(reqs[0], [cmd] + mux(p["index"], p["sub"]) + (S.le_bytes(p["size"], 4) if p["size"] is not None else [0] * 4))
        pr = propagated(s)
        if pr is not None:
            return And(fr, pr)
        R = last_outcome(s)[1]
        c = S.byte(R, 0)
        if not bool(compare("==", binop("&", c, 0xE0), 0xA0)):
            return And(fr, s.raised(COMM), aborts(s) == [0x05040001])
        if not bool(And(compare("==", S.le_uint(S.sub(R, 1, 3)), p["index"]), compare("==", S.byte(R, 3), p["sub"]))):
            return And(fr, s.raised(COMM), len(aborts(s)) == 1)
        if not s.returned:
            return False
        st = s.ret.fields
        return And(fr, S.eq(st["_blksize"], S.byte(R, 4)), Iff(st["crc_supported"], compare("!=", binop("&", c, 4), 0)),
                   S.eq(st["_seqno"], 0), S.eq(st["pos"], 0), Not(st["_done"]), S.eq(st["_last_bytes_sent"], 0),
                   S.eq(st["_crc"].fields["_value"], 0), len(aborts(s)) == 0)

    ensures = {"initiate-frame_checks_blksize": lambda s: BdInit.ok(s)}


def mk_bd(w, nblock=0):
    cl = w.obj("env.blockclient:BlockClient", rx_cobid=0x601)
    size = w.int("size", 1, 0xFFFFFFFF) if w.bool("size_known") else None
    crcv = w.int("crc_value", 0, 0xFFFF)
    blk = w.int("blksize", 1, 127)
    seq = w.int("seqno", 0, 126)
    w.assume(compare("<", seq, blk))
    block = w.plist("current_block", elem=lambda i: w.bytes("blk%d" % i, 7))
    bd = w.obj(BD, sdo_client=cl, size=size, pos=w.int("pos", 0, 0xFFFFFFFF), _done=w.bool("done"), _seqno=seq,
               _crc=w.obj("canopen.sdo.base:CrcXmodem", _value=crcv), _last_bytes_sent=0, _current_block=block,
               _retransmitting=w.bool("retransmitting"), _blksize=blk, crc_supported=w.bool("crc_supported"))
    g = w.get
    w.pre.update(bd=bd, size=size, crc0=crcv, blk=blk, seq=seq, pos=g(bd, "pos"), done=g(bd, "_done"),
                 retr=g(bd, "_retransmitting"), crcs=g(bd, "crc_supported"), block0=w.snap(block))
    return bd


@contract
class BdSend(Contract):
    """send(b, end): one segment frame [seqno' | c<<7, b, zero padding] with seqno' = seqno+1 <= 127 and c iff end;
    position advances by len(b); the CRC accumulates exactly the first-time payload (iff negotiated and not
    retransmitting); after the last segment of a sub-block the acknowledgement is awaited and checked"""
    target = "canopen.sdo.client:BlockDownloadStream.send"
    functions = ("canopen.sdo.client:BlockDownloadStream._block_ack", "canopen.sdo.base:CrcXmodem.process")
    props = ("C12",)
    cases = {"middle": (7, False), "end7": (7, True), "end3": (3, True), "end0": (0, True), "end1": (1, True)}
    exits = ()

    def setup(self, w, case):
        n, end = case
        bd = mk_bd(w)
        w.assume(Not(w.pre["done"]))
        b = w.bytes("b", n)
        w.pre.update(b=b, end=end, n=n)
        return Call(("method", bd, "send"), [b, end])

    def observe(self, w):
        bd = w.pre["bd"]
        return {"seqno": w.get(bd, "_seqno"), "pos": w.get(bd, "pos"), "crc": w.get(w.get(bd, "_crc"), "_value"),
                "blksize": w.get(bd, "_blksize")}

    @staticmethod
    def ok(s):
        p = s.pre
        g = s.w.get
        bd = p["bd"]
        sr = sends(s)
        if len(sr) != 1:
            return False
        seq1 = binop("+", p["seq"], 1)
        cmd = binop("|", seq1, 0x80 if p["end"] else 0)
        fr = S.bytes_are(sr[0], [cmd] + [S.byte(p["b"], i) for i in range(p["n"])] + [0] * (7 - p["n"]))
        crc_exp = ite(And(p["crcs"], Not(p["retr"])), crc_fold(p["crc0"], [S.byte(p["b"], i) for i in range(p["n"])]), p["crc0"])
        base = And(fr, S.eq(g(bd, "pos"), binop("+", p["pos"], p["n"])), S.eq(g(g(bd, "_crc"), "_value"), crc_exp),
                   Iff(g(bd, "_done"), Or(p["done"], p["end"])))
        if p["end"]:
            base = And(base, S.eq(g(bd, "_last_bytes_sent"), p["n"]))
        block_full = True if p["end"] else compare(">=", seq1, p["blk"])
        if not bool(block_full):
            ok_, new = S.appended(g(bd, "_current_block"), p["block0"], 1)
            return And(base, s.returned, S.eq(g(bd, "_seqno"), seq1), ok_ and new[0] is p["b"],
                       len([e for e in s.ev if e[0] == "read_response"]) == 0)
        # acknowledgement expected now
        if len([e for e in s.ev if e[0] == "read_response"]) != 1:
            return False
        pr = propagated(s)
        if pr is not None:
            return And(base, pr)
        R = last_outcome(s)[1]
        c = S.byte(R, 0)
        good = And(compare("==", binop("&", c, 0xE0), 0xA0), compare("==", binop("&", c, 3), 2))
        if not bool(good):
            return And(base, s.raised(COMM), aborts(s) == [0x05040001])
        sent_in_block = seq1                  # on `end` the sub-block is cut short at this sequence number
        blk_now = seq1 if p["end"] else p["blk"]
        if bool(compare("!=", S.byte(R, 1), blk_now)):
            rt_ = [e for e in s.ev if e[0] == "retransmit"]
            return And(base, s.returned, len(rt_) == 1 and S.eq(rt_[0][1], S.byte(R, 1)) and S.eq(rt_[0][2], S.byte(R, 2)))
        return And(base, s.returned, S.eq(g(bd, "_seqno"), 0), S.eq(g(bd, "_blksize"), S.byte(R, 2)),
                   S.is_empty_list(g(bd, "_current_block")), len([e for e in s.ev if e[0] == "retransmit"]) == 0)

    ensures = {"segment-frame_crc_ack": lambda s: BdSend.ok(s)}


@contract
class BdWrite(Contract):
    """write(b): takes at most 7 bytes; it is the last segment exactly when the declared size is reached; a short chunk
    in the middle is refused (None) without sending; after the end nothing more is accepted"""
    target = "canopen.sdo.client:BlockDownloadStream.write"
    props = ("C12",)
    exits = ()

    def setup(self, w, case):
        bd = mk_bd(w)
        w.setfield(bd, "_blksize", 127)
        w.setfield(bd, "_seqno", w.int("seqno_w", 0, 125))        # no acknowledgement due within this call
        b = w.lbytes("b", 0, 1 << 20)
        if w.pre["size"] is not None:
            w.assume(compare("<=", binop("+", w.pre["pos"], S.blen(b)), w.pre["size"]))
        w.pre.update(b=b, seqw=w.get(bd, "_seqno"))
        return Call(("method", bd, "write"), [b])

    @staticmethod
    def ok(s):
        p = s.pre
        sr = sends(s)
        if bool(p["done"]):
            return And(s.raised(RuntimeError), len(sr) == 0)
        L = S.blen(p["b"])
        k = s.w.ctx.choose(ite(compare("<", L, 7), L, 7), range(0, 8))
        last = False if p["size"] is None else compare(">=", binop("+", p["pos"], k), p["size"])
        if bool(last):
            # the last segment closes the sub-block: its acknowledgement is awaited inside this call (BdSend's contract)
            if len(sr) != 1:
                return False
            return And(Implies(s.returned, S.eq(s.ret, k)),
                       S.bytes_are(sr[0], [binop("|", binop("+", p["seqw"], 1), 0x80)]
                                   + [S.bat(p["b"], i) for i in range(k)] + [0] * (7 - k)))
        if k < 7:
            return And(s.returned, s.ret is None, len(sr) == 0)
        if len(sr) != 1 or not s.returned:
            return False
        return And(S.eq(s.ret, 7), S.bytes_are(sr[0], [binop("+", p["seqw"], 1)] + [S.bat(p["b"], i) for i in range(7)]))

    ensures = {"last-by-size_short-middle-refused": lambda s: BdWrite.ok(s)}


@contract
class BdClose(Contract):
    """close(): end frame ccs=6, cs=1, n = 7 - length of the last segment in bits 2..4, CRC little-endian in bytes
    1..2 iff negotiated (else 0), rest 0; the server must confirm with the end flag"""
    target = "canopen.sdo.client:BlockDownloadStream.close"
    functions = ("canopen.sdo.base:CrcXmodem.final",)
    props = ("C12",)
    exits = ("return", "raise:SdoCommunicationError", "raise:SdoAbortedError")

    def setup(self, w, case):
        bd = mk_bd(w)
        last = w.choose(w.int("last_len", 0, 7), range(0, 8))
        w.setfield(bd, "_last_bytes_sent", last)
        w.pre.update(last=last)
        return Call(("method", bd, "close"), [])

    @staticmethod
    def ok(s):
        p = s.pre
        reqs = requests(s)
        if len(reqs) != 1:
            return False
        crc = ite(p["crcs"], p["crc0"], 0)
        fr = S.bytes_are(reqs[0], [0xC1 | ((7 - p["last"]) << 2), binop("&", crc, 0xFF), binop(">>", crc, 8), 0, 0, 0, 0, 0])
        pr = propagated(s)
        if pr is not None:
            return And(fr, pr)
        R = last_outcome(s)[1]
        confirmed = compare("!=", binop("&", S.byte(R, 0), 1), 0)
        return And(fr, Iff(confirmed, s.returned), Implies(Not(confirmed), s.raised(COMM)))

    ensures = {"end-frame_crc_confirmation": lambda s: BdClose.ok(s)}


@contract
class BdRetransmit(Contract):
    """_retransmit(ackseq, blksize) after a short acknowledgement: the segments after `ackseq` of the current sub-block
    are sent again, in order, with sequence numbers restarting at 1, and are not added to the CRC a second time; the
    position ends where it was"""
    target = "canopen.sdo.client:BlockDownloadStream._retransmit"
    functions = ("canopen.sdo.client:BlockDownloadStream.write", "canopen.sdo.client:BlockDownloadStream.send")
    props = ("C12",)
    cases = {"3seg-ack%d" % a: (3, a) for a in (0, 1, 2)}
    cases.update({"5seg-ack%d" % a: (5, a) for a in (0, 2, 4)})
    cases_thorough = {"%dseg-ack%d" % (n, a): (n, a) for n in (1, 2, 4, 5, 7, 12) for a in range(n)}
    xcheck = False

    def setup(self, w, case):
        nseg, ack = case
        cl = w.obj("env.blockclient:BlockClient", rx_cobid=0x601)
        segs = [w.bytes("seg%d" % i, 7) for i in range(nseg)]
        crcv = w.int("crc_value", 0, 0xFFFF)
        pos = w.int("pos", 7 * nseg, 0xFFFFFF)
        size = w.int("size", 0, 0xFFFFFFFF)
        w.assume(compare(">", size, pos))                     # more data follows: none of these is the last segment
        bd = w.obj(REAL_BD, sdo_client=cl, size=size, pos=pos, _done=False, _seqno=nseg,
                   _crc=w.obj("canopen.sdo.base:CrcXmodem", _value=crcv), _last_bytes_sent=0, _current_block=w.list(segs),
                   _retransmitting=False, _blksize=nseg, crc_supported=w.bool("crc_supported"))
        newblk = w.int("new_blksize", nseg - ack + 1, 127)     # room for the retransmitted segments and more
        w.pre.update(bd=bd, segs=segs, ack=ack, nseg=nseg, crc0=crcv, pos=pos, newblk=newblk)
        return Call(("method", bd, "_retransmit"), [ack, newblk])

    @staticmethod
    def ok(s):
        p = s.pre
        g = s.w.get
        bd = p["bd"]
        sr = sends(s)
        again = p["segs"][p["ack"]:]
        if not s.returned or len(sr) != len(again):
            return False
        frames = And([S.bytes_are(sr[i], [i + 1] + [S.byte(again[i], j) for j in range(7)]) for i in range(len(again))])
        return And(frames, S.eq(g(bd, "pos"), p["pos"]), S.eq(g(g(bd, "_crc"), "_value"), p["crc0"]),
                   S.eq(g(bd, "_seqno"), len(again)), S.eq(g(bd, "_blksize"), p["newblk"]), Not(g(bd, "_retransmitting")),
                   len([e for e in s.ev if e[0] == "read_response"]) == 0)

    ensures = {"resends-from-ackseq_pos-and-crc-unchanged": lambda s: BdRetransmit.ok(s)}

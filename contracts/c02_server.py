"""C02 / C06 — SDO server: one conformant response per request, exact data, standard abort codes, never raises."""
from pyvc.engine import Contract, contract
from pyvc.worlds import Call
from pyvc import spec as S
from pyvc.values import And, Or, Not, Implies, Iff, compare, ite, binop, SObj, SBytes, LBytes
from spec import cia301

SERVER = "canopen.sdo.server:SdoServer"
T = 0x10


def mk_server(w, fresh=False, with_buffer=None):
    value = w.lbytes("value", 0, (1 << 32) - 1)
    node = w.obj("env.sdonode:DataNode", value=value, get_abort=w.bool("get_abort"), get_code=w.int("get_code", 0, 0xFFFFFFFF),
                 set_abort=w.bool("set_abort"), set_code=w.int("set_code", 0, 0xFFFFFFFF), object_dictionary=None)
    net = w.obj("env.net:Net")
    tx = w.int("tx_cobid", 0x581, 0x5FF)
    if fresh:
        # the state a node starts in: built by the real SdoServer.__init__
        srv = w.run(Call(("new", SERVER), [0x600, tx, node]))
        w.setfield(srv, "network", net)
        g = w.get
        w.pre.update(srv=srv, node=node, value=value, tx=tx, idx=g(srv, "_index"), sub=g(srv, "_subindex"),
                     tog=g(srv, "_toggle"), buf=g(srv, "_buffer"), buf0=None,
                     get_abort=g(node, "get_abort"), get_code=g(node, "get_code"),
                     set_abort=g(node, "set_abort"), set_code=g(node, "set_code"), fresh=True)
        return srv
    else:
        idx, sub = w.int("cur_index", 0, 0xFFFF), w.int("cur_sub", 0, 0xFF)
        tog = w.choose(w.int("toggle", 0, 0x10), (0, 0x10))
        has_buf = w.bool("has_buffer") if with_buffer is None else with_buffer
        buf = w.lbytes("buffer", 0, (1 << 32) - 1, mutable=True) if has_buf else None
    srv = w.obj(SERVER, rx_cobid=0x600, tx_cobid=tx, network=net, od=None, _node=node, _buffer=buf, _toggle=tog,
                _index=idx, _subindex=sub, last_received_error=0)
    w.pre.update(srv=srv, node=node, value=value, tx=tx, idx=idx, sub=sub, tog=tog, buf=buf,
                 buf0=(buf.copy() if isinstance(buf, LBytes) else (w.bytes_of(buf) if buf is not None else None)),
                 get_abort=w.get(node, "get_abort"), get_code=w.get(node, "get_code"),
                 set_abort=w.get(node, "set_abort"), set_code=w.get(node, "set_code"), fresh=fresh)
    return srv


def sent_one(s):
    """exactly one frame, on the server's tx COB-ID, 8 bytes, not remote -> its payload (or None)"""
    sent = s.sent()
    if len(sent) != 1:
        return None
    _, cid, payload, remote = sent[0]
    if not isinstance(payload, SBytes) or len(payload.items) != 8 or remote is not False:
        return None
    if not bool(compare("==", cid, s.pre["tx"])):
        return None
    return payload


def abort_frame(payload, index, sub, code=None):
    """payload is an abort frame for (index, sub) [with this code]"""
    c = [compare("==", S.byte(payload, 0), 0x80)]
    if index is not None:
        c += [compare("==", S.le_uint(S.sub(payload, 1, 3)), index), compare("==", S.byte(payload, 3), sub)]
    if code is not None:
        c.append(compare("==", S.le_uint(S.sub(payload, 4, 8)), code))
    return And(c)


def state_unchanged(s):
    p = s.pre
    srv = p["srv"]
    g = s.w.get
    c = [compare("==", g(srv, "_toggle"), p["tog"])]
    return And(c)


def zeros(payload, lo):
    return And([compare("==", S.byte(payload, i), 0) for i in range(lo, 8)])


def expected(s):
    """CiA 301 server behaviour for this request in this state (the spec of on_request)"""
    p = s.pre
    R, n = p["req"], p["n"]
    g = s.w.get
    srv = p["srv"]
    if not s.returned:
        return False                                     # total: nothing may escape into the receive path
    cmd = S.byte(R, 0)
    ccs = binop(">>", cmd, 5)
    sets = [e for e in s.ev if e[0] == "set_data"]
    gets = [e for e in s.ev if e[0] == "get_data"]
    # ---- client abort: no response required; with a full frame the code is remembered
    if bool(compare("==", ccs, 4)):
        if n == 8:
            return And(len(s.sent()) == 0, compare("==", g(srv, "last_received_error"), S.le_uint(S.sub(R, 4, 8))),
                       len(sets) == 0)
        return len(s.sent()) <= 1 and len(sets) == 0
    F = sent_one(s)
    if F is None:
        return False                                     # exactly one well-formed 8-byte response
    # ---- initiate upload (also: block upload is answered as a regular upload)
    if bool(Or(compare("==", ccs, 2), compare("==", ccs, 5))):
        if n < 4:
            return And(compare("==", S.byte(F, 0), 0x80), len(sets) == 0)
        index, sub = S.le_uint(S.sub(R, 1, 3)), S.byte(R, 3)
        if len(gets) != 1 or len(sets) != 0:
            return False
        asked = And(compare("==", gets[0][1], index), compare("==", gets[0][2], sub), S.is_true(gets[0][3]))
        if bool(p["get_abort"]):
            return And(asked, abort_frame(F, index, sub, p["get_code"]))
        D = p["value"]
        L = S.blen(D)
        mux = And(compare("==", S.le_uint(S.sub(F, 1, 3)), index), compare("==", S.byte(F, 3), sub),
                  compare("==", g(srv, "_index"), index), compare("==", g(srv, "_subindex"), sub))
        if bool(And(compare(">=", L, 1), compare("<=", L, 4))):
            L = s.w.ctx.choose(L, range(1, 5))
            return And(asked, mux, compare("==", S.byte(F, 0), 0x43 | ((4 - L) << 2)),
                       And([compare("==", S.byte(F, 4 + i), S.bat(D, i)) for i in range(L)]), zeros(F, 4 + L))
        # empty value or more than 4 bytes: segmented, true size announced, buffer loaded, toggle reset
        buf = g(srv, "_buffer")
        return And(asked, mux, compare("==", S.byte(F, 0), 0x41), compare("==", S.le_uint(S.sub(F, 4, 8)), L),
                   S.is_byteslike(buf) and S.same_bytes(buf, D), compare("==", g(srv, "_toggle"), 0))
    # ---- upload segment
    if bool(compare("==", ccs, 3)):
        if p["fresh"] or p["buf"] is None:
            return And(compare("==", S.byte(F, 0), 0x80), len(sets) == 0)
        if bool(compare("!=", binop("&", cmd, T), p["tog"])):
            return And(abort_frame(F, p["idx"], p["sub"], cia301.ABORT_TOGGLE), state_unchanged(s),
                       S.same_bytes(g(srv, "_buffer"), p["buf0"]), len(sets) == 0)
        B = p["buf0"]
        L = S.blen(B)
        k = s.w.ctx.choose(ite(compare("<", L, 7), L, 7), range(0, 8))
        last = compare("<=", L, 7)
        return And(compare("==", S.byte(F, 0), binop("|", binop("|", p["tog"], (7 - k) << 1), ite(last, 1, 0))),
                   And([compare("==", S.byte(F, 1 + i), S.bat(B, i)) for i in range(k)]), zeros(F, 1 + k),
                   S.is_suffix_from(g(srv, "_buffer"), B, k), compare("==", g(srv, "_toggle"), binop("^", p["tog"], T)),
                   len(sets) == 0)
    # ---- initiate download
    if bool(compare("==", ccs, 1)):
        if n < 4:
            return And(compare("==", S.byte(F, 0), 0x80), len(sets) == 0)
        index, sub = S.le_uint(S.sub(R, 1, 3)), S.byte(R, 3)
        ok_frame = And(compare("==", S.byte(F, 0), 0x60), compare("==", S.le_uint(S.sub(F, 1, 3)), index),
                       compare("==", S.byte(F, 3), sub), zeros(F, 4))
        if bool(compare("!=", binop("&", cmd, 2), 0)):                 # expedited
            size = ite(compare("!=", binop("&", cmd, 1), 0), binop("-", 4, binop("&", binop(">>", cmd, 2), 3)), 4)
            size = s.w.ctx.choose(size, range(1, 5))
            data = S.sub(R, 4, min(n, 4 + size))
            if len(sets) != 1:
                return False
            told = And(compare("==", sets[0][1], index), compare("==", sets[0][2], sub), S.same_bytes(sets[0][3], data),
                       S.is_true(sets[0][4]))
            if bool(p["set_abort"]):
                return And(told, abort_frame(F, index, sub, p["set_code"]))
            return And(told, ok_frame)
        buf = g(srv, "_buffer")
        return And(ok_frame, len(sets) == 0, S.is_byteslike(buf) and compare("==", S.blen(buf), 0),
                   compare("==", g(srv, "_toggle"), 0), compare("==", g(srv, "_index"), index),
                   compare("==", g(srv, "_subindex"), sub))
    # ---- download segment
    if bool(compare("==", ccs, 0)):
        if p["fresh"] or p["buf"] is None:
            return And(compare("==", S.byte(F, 0), 0x80), len(sets) == 0)
        if bool(compare("!=", binop("&", cmd, T), p["tog"])):
            return And(abort_frame(F, p["idx"], p["sub"], cia301.ABORT_TOGGLE), state_unchanged(s),
                       S.same_bytes(g(srv, "_buffer"), p["buf0"]), len(sets) == 0)
        nn = s.w.ctx.choose(binop("&", binop(">>", cmd, 1), 7), range(0, 8))
        chunk = [S.byte(R, i) for i in range(1, min(n, 8 - nn))]
        buf = g(srv, "_buffer")
        grown = S.is_extended_by(buf, p["buf0"], chunk)
        if bool(compare("!=", binop("&", cmd, 1), 0)):                 # last segment: commit
            if len(sets) != 1:
                return False
            told = And(compare("==", sets[0][1], p["idx"]), compare("==", sets[0][2], p["sub"]),
                       S.same_bytes(sets[0][3], buf), S.is_true(sets[0][4]))
            if bool(p["set_abort"]):
                return And(grown, told, abort_frame(F, p["idx"], p["sub"], p["set_code"]))
        else:
            told = len(sets) == 0
        return And(grown, told, compare("==", S.byte(F, 0), binop("|", 0x20, p["tog"])), zeros(F, 1),
                   compare("==", g(srv, "_toggle"), binop("^", p["tog"], T)))
    # ---- block download (not supported) and the undefined command specifier 7
    if bool(compare("==", ccs, 6)):
        if n < 4:
            return And(compare("==", S.byte(F, 0), 0x80), len(sets) == 0)
        return And(abort_frame(F, S.le_uint(S.sub(R, 1, 3)), S.byte(R, 3), cia301.ABORT_CS_INVALID), len(sets) == 0)
    return And(abort_frame(F, None, None, cia301.ABORT_CS_INVALID), len(sets) == 0)


def expected_or_abort(s):
    """a frame shorter than 8 bytes is not a CiA 301 request: besides the regular reaction, refusing it with any
    abort frame (and committing nothing) is accepted; it must still never raise or fall silent"""
    if s.pre["n"] == 8 or not s.returned:
        return expected(s)
    F = sent_one(s)
    sets = [e for e in s.ev if e[0] == "set_data"]
    if F is not None and len(sets) == 0 and bool(compare("==", S.byte(F, 0), 0x80)):
        return True
    return expected(s)


class _OnRequest(Contract):
    target = "canopen.sdo.server:SdoServer.on_request"
    functions = ("canopen.sdo.server:SdoServer.init_upload", "canopen.sdo.server:SdoServer.segmented_upload",
                 "canopen.sdo.server:SdoServer.block_upload", "canopen.sdo.server:SdoServer.request_aborted",
                 "canopen.sdo.server:SdoServer.block_download", "canopen.sdo.server:SdoServer.init_download",
                 "canopen.sdo.server:SdoServer.segmented_download", "canopen.sdo.server:SdoServer.send_response",
                 "canopen.sdo.server:SdoServer.abort")
    props = ("C02", "C06", "C07", "C03")
    cases = {"len%d" % n: n for n in range(1, 9)}
    fresh = False
    max_paths = 6000

    def setup(self, w, case):
        srv = mk_server(w, fresh=self.fresh)
        req = w.bytes("request", case)
        w.pre.update(req=req, n=case)
        return Call(("method", srv, "on_request"), [0x600, req, 0.0])

    def observe(self, w):
        srv = w.pre["srv"]
        return {"toggle": w.get(srv, "_toggle"), "index": w.get(srv, "_index"), "sub": w.get(srv, "_subindex"),
                "buffer": w.get(srv, "_buffer")}

    ensures = {"conformant-response-and-state": lambda s: expected_or_abort(s)}


@contract
class OnRequest(_OnRequest):
    """any request frame of 1..8 bytes in any server state reached by earlier transfers"""


@contract
class OnRequestFresh(_OnRequest):
    """any request frame of 1..8 bytes on a freshly created server (no transfer yet)"""
    id = "OnRequestFresh"
    fresh = True

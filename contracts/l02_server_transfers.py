"""Whole-transfer theorems for the REAL SdoServer against a conformant client (env/sdoclientpeer.py), by inductive
loop invariants: an upload hands the client exactly the bytes the node holds (any length, incl. empty), announcing the
true size, with well-formed frames; a segmented download of any payload is committed exactly (set_data told once)."""
from pyvc.engine import Contract, contract
from pyvc.worlds import Call
from pyvc import spec as S
from pyvc.values import And, Or, Not, Implies, Iff, compare, ite, binop, SObj, SBytes, LBytes, truth_val, mk_bool
from pyvc.interp import LoopSpec
from contracts.l01_transfers import _same_prefix, _prefix_or_empty

SERVER = "canopen.sdo.server:SdoServer"


def _same_suffix(buf, data, k):
    """buf is exactly data[k:]"""
    if not (isinstance(buf, LBytes) and isinstance(data, LBytes)):
        return False
    return And(mk_bool(buf.arr == data.arr), compare("==", buf.off, binop("+", data.off, k)),
               compare("==", buf.n, binop("-", data.n, k)))


def mk_server(w, value, set_abort=False):
    node = w.obj("env.sdonode:DataNode", value=value, get_abort=False, get_code=0, set_abort=set_abort, set_code=0x06010002,
                 object_dictionary=None)
    net = w.obj("env.sdoclientpeer:CaptureNet", frames=w.list([]))
    srv = w.run(Call(("new", SERVER), [0x601, 0x581, node]))
    w.setfield(srv, "network", net)
    # the server may have served any earlier transfers: its leftover state is arbitrary
    w.setfield(srv, "_toggle", w.choose(w.int("old_toggle", 0, 0x10), (0, 0x10)))
    w.setfield(srv, "_index", w.int("old_index", 0, 0xFFFF))
    w.setfield(srv, "_subindex", w.int("old_sub", 0, 0xFF))
    if w.bool("old_buffer"):
        w.setfield(srv, "_buffer", w.lbytes("old_buf", 0, 1 << 20, mutable=True))
    return srv, net, node


# ------------------------------------------------------------------------------------------------ upload
def _su_inv(interp, fr):
    w = interp.l02
    srv, value = w.pre["srv"], w.pre["value"]
    out = fr.locals["out"]
    k = out.n if isinstance(out, LBytes) else len(out.items)
    f = srv.fields
    return {"collected-is-prefix": _prefix_or_empty(out, value, k),
            "server-buffer-is-the-rest": _same_suffix(f["_buffer"], value, k),
            "toggles-agree": And(S.eq(f["_toggle"], fr.locals["toggle"]), Or(S.eq(fr.locals["toggle"], 0), S.eq(fr.locals["toggle"], 0x10))),
            "size-announced": S.eq(fr.locals["size"], value.n),
            "range": And(compare(">=", k, 0), compare("<=", k, value.n)),
            "bus-idle": len(w.pre["net"].fields["frames"].items) == 0}


def _su_havoc(interp, fr):
    w = interp.l02
    srv, value = w.pre["srv"], w.pre["value"]
    ctx = interp.ctx
    k = ctx.fresh_int("h_k", 0, (1 << 32) - 1)
    tog = ctx.fresh_int("h_toggle", 0, 0x10)
    fr.locals["out"] = LBytes(value.arr, value.off, k, True)
    fr.locals["toggle"] = tog
    srv.fields["_toggle"] = tog
    srv.fields["_buffer"] = LBytes(value.arr, binop("+", value.off, k), binop("-", value.n, k), True)
    del ctx.events[:]
    ctx.emit("havoc-trace")


@contract
class ServerUploadTheorem(Contract):
    """a conformant client uploading from the real server obtains exactly the node's bytes, whatever their length"""
    target = "canopen.sdo.server:SdoServer.on_request"
    id = "ServerUploadTheorem"
    functions = ("canopen.sdo.server:SdoServer.init_upload", "canopen.sdo.server:SdoServer.segmented_upload",
                 "canopen.sdo.server:SdoServer.send_response")
    props = ("C02", "C03")
    loop_specs = {("upload", 1): LoopSpec(_su_inv, _su_havoc,
                                          lambda interp, fr: binop("-", interp.l02.pre["value"].n,
                                                                   fr.locals["out"].n if isinstance(fr.locals["out"], LBytes) else 0))}
    xcheck_n = 4
    max_paths = 4000

    def setup(self, w, case):
        value = w.lbytes("value", 0, (1 << 32) - 1)
        srv, net, node = mk_server(w, value)
        index, sub = w.int("index", 0, 0xFFFF), w.int("sub", 0, 0xFF)
        w.pre.update(srv=srv, net=net, value=value)
        if not w.native:
            w.interp.l02 = w
        return Call(("func", "env.sdoclientpeer", "upload"), [srv, net, index, sub])

    @staticmethod
    def ok(s):
        p = s.pre
        if not s.returned or any(e[0] == "illegal" for e in s.ev) or not isinstance(s.ret, tuple) or len(s.ret) != 2:
            return False
        size, data = s.ret
        v = p["value"]
        n = S.blen(v)
        if isinstance(data, LBytes):
            same = _same_prefix(data, v, n)
        else:
            same = S.is_byteslike(data) and S.same_bytes(data, v)
        return And(same, S.eq(size, n))

    ensures = {"client-obtains-exactly-the-value-and-its-size": lambda s: ServerUploadTheorem.ok(s)}


# ------------------------------------------------------------------------------------------------ download
def _sd_inv(interp, fr):
    w = interp.l02
    srv, data = w.pre["srv"], w.pre["data"]
    f = srv.fields
    pos = fr.locals["pos"]
    return {"server-buffer-is-prefix": _prefix_or_empty(f["_buffer"], data, pos),
            "toggles-agree": And(S.eq(f["_toggle"], fr.locals["toggle"]), Or(S.eq(fr.locals["toggle"], 0), S.eq(fr.locals["toggle"], 0x10))),
            "range": And(compare(">=", pos, 0), compare("<=", pos, data.n), S.eq(fr.locals["total"], data.n)),
            "multiplexer-kept": And(S.eq(f["_index"], w.pre["index"]), S.eq(f["_subindex"], w.pre["sub"])),
            "nothing-committed-yet": len([e for e in interp.ctx.events if e[0] == "set_data"]) == 0,
            "bus-idle": len(w.pre["net"].fields["frames"].items) == 0}


def _sd_havoc(interp, fr):
    w = interp.l02
    srv, data = w.pre["srv"], w.pre["data"]
    ctx = interp.ctx
    pos = ctx.fresh_int("h_pos", 0, (1 << 32) - 1)
    tog = ctx.fresh_int("h_toggle", 0, 0x10)
    fr.locals["pos"] = pos
    fr.locals["toggle"] = tog
    srv.fields["_toggle"] = tog
    srv.fields["_buffer"] = LBytes(data.arr, data.off, pos, True)
    del ctx.events[:]
    ctx.emit("havoc-trace")


@contract
class ServerDownloadTheorem(Contract):
    """a conformant client downloading any payload in segments of 1..7 bytes of its choosing (size declared or not): the node is told to store
    exactly that payload, exactly once, for the addressed multiplexer; a refusal by the node reaches the client as abort"""
    target = "canopen.sdo.server:SdoServer.on_request"
    id = "ServerDownloadTheorem"
    functions = ("canopen.sdo.server:SdoServer.init_download", "canopen.sdo.server:SdoServer.segmented_download")
    props = ("C02", "C03", "C06")
    cases = {"declared/accepted": (True, False), "undeclared/accepted": (False, False), "declared/refused": (True, True)}
    loop_specs = {("download", 0): LoopSpec(_sd_inv, _sd_havoc,
                                            lambda interp, fr: binop("+", binop("-", fr.locals["total"], fr.locals["pos"]), 1))}
    xcheck_n = 4
    max_paths = 4000
    exits = ("return",)

    def setup(self, w, case):
        declared, refused = case
        data = w.lbytes("data", 0, (1 << 32) - 1)
        srv, net, node = mk_server(w, None, set_abort=refused)
        index, sub = w.int("index", 0, 0xFFFF), w.int("sub", 0, 0xFF)
        w.pre.update(srv=srv, net=net, data=data, index=index, sub=sub, refused=refused)
        if not w.native:
            w.interp.l02 = w
        return Call(("func", "env.sdoclientpeer", "download"), [srv, net, index, sub, data, declared])

    @staticmethod
    def ok(s):
        p = s.pre
        if not s.returned or any(e[0] == "illegal" for e in s.ev):
            return False
        sets = [e for e in s.ev if e[0] == "set_data"]
        if len(sets) != 1:
            return False
        told = And(S.eq(sets[0][1], p["index"]), S.eq(sets[0][2], p["sub"]), S.is_true(sets[0][4]),
                   _prefix_or_empty(sets[0][3], p["data"], S.blen(p["data"])) if isinstance(p["data"], LBytes)
                   else S.same_bytes(sets[0][3], p["data"]))
        if p["refused"]:
            return And(told, isinstance(s.ret, tuple) and s.ret[0] == "aborted" and S.eq(s.ret[1], 0x06010002))
        return And(told, s.ret == "ok")

    ensures = {"node-told-exactly-the-payload-once": lambda s: ServerDownloadTheorem.ok(s)}

"""Whole-transfer theorems for the REAL pair: real SdoClient (request_response, send_request, read_response,
on_response, its response queue) with the real WritableStream / ReadableStream on one side, the real SdoServer
(on_request and its handlers) on the other, joined by an inline bus (env/pairnet.py); only the node behind the server
(get_data / set_data, env/sdonode.py) is a model.  By inductive invariants over the file-layer loops:
a download of ANY payload in ANY chunking, size declared or not, from a client with ANY stale responses queued, tells
the node to store exactly that payload, exactly once, for the addressed object, and sends no abort; a refusal by the
node surfaces as SdoAbortedError with the node's code; an upload returns exactly the bytes the node holds."""
from pyvc.engine import Contract, contract
from pyvc.worlds import Call
from pyvc import spec as S
from pyvc.values import And, Or, Not, Implies, Iff, compare, ite, binop, SObj, SBytes, LBytes, truth_val, mk_bool
from pyvc.interp import LoopSpec, SList
from contracts.l01_transfers import _same_prefix, _prefix_or_empty
from contracts.l02_server_transfers import _same_suffix

CLIENT = "canopen.sdo.client:SdoClient"
SERVER = "canopen.sdo.server:SdoServer"
WS = "canopen.sdo.client:WritableStream"
RS = "canopen.sdo.client:ReadableStream"
ABORT = "canopen.sdo.exceptions:SdoAbortedError"


def mk_pair(w, value, set_abort=False, get_abort=False, disturbing=False, leftovers=True):
    node = w.obj("env.sdonode:DataNode", value=value, get_abort=get_abort, get_code=0x06020000, set_abort=set_abort,
                 set_code=0x06010002, object_dictionary=None)
    net = (w.obj("env.pairnet:DisturbingPairNet", client=None, server=None, budget=1, last_ccs=0) if disturbing
           else w.obj("env.pairnet:PairNet", client=None, server=None))
    srv = w.run(Call(("new", SERVER), [0x601, 0x581, node]))
    w.setfield(srv, "network", net)
    # leftovers of any earlier transfers on both sides
    if leftovers:
        w.setfield(srv, "_toggle", w.choose(w.int("old_toggle", 0, 0x10), (0, 0x10)))
        w.setfield(srv, "_index", w.int("old_index", 0, 0xFFFF))
        w.setfield(srv, "_subindex", w.int("old_sub", 0, 0xFF))
        if w.bool("old_buffer"):
            w.setfield(srv, "_buffer", w.lbytes("old_buf", 0, 1 << 20, mutable=True))
    stale = w.plist("stale", maxn=2, elem=lambda i: w.bytes("stale%d" % i, 8)) if leftovers else w.list([])
    cl = w.obj(CLIENT, rx_cobid=0x601, tx_cobid=0x581, network=net, od=None, responses=w.new_queue(stale),
               MAX_RETRIES=1, RESPONSE_TIMEOUT=0.3, PAUSE_BEFORE_SEND=0.0, RETRY_DELAY=0.1)
    w.setfield(net, "client", cl)
    w.setfield(net, "server", srv)
    w.pre["net"] = net
    return cl, srv, node, net


def _queue_empty(cl):
    q = cl.fields["responses"]
    items = q.fields.get("items") if isinstance(q, SObj) else None
    return isinstance(items, SList) and items.base is None and len(items.items) == 0


def _set_events(interp):
    return [e for e in interp.ctx.events if e[0] == "set_data"]


def _told_payload(ev, p):
    return And(S.eq(ev[1], p["index"]), S.eq(ev[2], p["sub"]), S.is_true(ev[4]),
               _prefix_or_empty(ev[3], p["data"], S.blen(p["data"])) if isinstance(p["data"], LBytes)
               else (S.is_byteslike(ev[3]) and S.same_bytes(ev[3], p["data"])))


# ------------------------------------------------------------------------------------------------ download
def _pd_inv(interp, fr):
    w = interp.l03
    p = w.pre
    ws, srv, cl, data = fr.locals["stream"], p["srv"], p["cl"], p["data"]
    f, s = ws.fields, srv.fields
    pos = fr.locals["pos"]
    sets = _set_events(interp)
    fin = compare(">=", pos, data.n)
    c = {"range": And(compare(">=", pos, 0), compare("<=", pos, data.n), S.eq(fr.locals["total"], data.n)),
         "client-pos": S.eq(f["pos"], pos),
         "toggles-agree": And(S.eq(f["_toggle"], s["_toggle"]), Or(S.eq(s["_toggle"], 0), S.eq(s["_toggle"], 0x10))),
         "segmented": f["_exp_header"] is None,
         "server-buffer-is-prefix": _prefix_or_empty(s["_buffer"], data, pos),
         "multiplexer-kept": And(S.eq(s["_index"], p["index"]), S.eq(s["_subindex"], p["sub"])),
         "no-response-pending": _queue_empty(cl)}
    if p["declared"] and p["refused"]:
        # the node refuses at the last segment: the loop is left by the exception, never by its guard
        c["never-finishes-normally"] = And(Not(fin), Not(f["_done"]), len(sets) == 0)
    elif p["declared"]:
        c["done-iff-all-sent"] = Iff(f["_done"], fin)
        c["told-once-when-all-sent"] = ite(fin, (len(sets) == 1) and _told_payload(sets[0], p), len(sets) == 0)
    else:
        c["open"] = And(Not(f["_done"]), len(sets) == 0)
    return c


def _pd_havoc(interp, fr):
    w = interp.l03
    p = w.pre
    ws, srv, data = fr.locals["stream"], p["srv"], p["data"]
    ctx = interp.ctx
    pos = ctx.fresh_int("h_pos", 0, (1 << 32) - 1)
    tog = ctx.fresh_int("h_toggle", 0, 0x10)
    fr.locals["pos"] = pos
    ws.fields["pos"] = pos
    ws.fields["_toggle"] = tog
    srv.fields["_toggle"] = tog
    srv.fields["_buffer"] = LBytes(data.arr, data.off, pos, True)
    del ctx.events[:]
    ctx.emit("havoc-trace")
    if p["declared"] and p["refused"]:
        ws.fields["_done"] = False
    elif p["declared"]:
        fin = ctx.fresh_bool("h_finished")
        ctx.assume(Iff(fin, compare(">=", pos, data.n)))
        if bool(fin):
            ws.fields["_done"] = True
            ctx.emit("set_data", p["index"], p["sub"], LBytes(data.arr, data.off, data.n, True), True)
        else:
            ws.fields["_done"] = False


@contract
class PairDownloadTheorem(Contract):
    target = "canopen.sdo.client:WritableStream.write"
    id = "PairDownloadTheorem"
    functions = ("canopen.sdo.client:WritableStream.__init__", "canopen.sdo.client:WritableStream.close",
                 "canopen.sdo.client:SdoClient.request_response", "canopen.sdo.client:SdoClient.send_request",
                 "canopen.sdo.client:SdoClient.read_response", "canopen.sdo.client:SdoClient.on_response",
                 "canopen.sdo.server:SdoServer.on_request", "canopen.sdo.server:SdoServer.init_download",
                 "canopen.sdo.server:SdoServer.segmented_download", "canopen.sdo.server:SdoServer.send_response",
                 "canopen.sdo.server:SdoServer.abort")
    props = ("C03", "C01", "C02")
    cases = {"declared/accepted": (True, False), "undeclared/accepted": (False, False), "declared/refused": (True, True),
             "undeclared/refused": (False, True)}
    loop_specs = {("download_in_chunks", 0): LoopSpec(_pd_inv, _pd_havoc,
                                                      lambda interp, fr: binop("-", fr.locals["total"], fr.locals["pos"]))}
    xcheck_n = 4
    max_paths = 6000
    exits = ()
    __doc__ = __doc__

    def setup(self, w, case):
        declared, refused = case
        index, sub = w.int("index", 0, 0xFFFF), w.int("sub", 0, 0xFF)
        data = w.lbytes("data", 5 if declared else 0, (1 << 32) - 1)      # 1..4 declared bytes go expedited (PairExpedited)
        cl, srv, node, net = mk_pair(w, None, set_abort=refused)
        size = (data.n if hasattr(data, "n") else len(data)) if declared else None
        w.pre.update(cl=cl, srv=srv, data=data, index=index, sub=sub, declared=declared, refused=refused)
        if not w.native:
            w.interp.l03 = w
        ws = w.run(Call(("new", WS), [cl, index, sub, size, False]))
        w.pre["ws"] = ws
        return Call(("func", "env.drivers", "download_in_chunks"), [ws, data])

    @staticmethod
    def ok(s):
        p = s.pre
        sets = [e for e in s.ev if e[0] == "set_data"]
        if len(sets) != 1:
            return False
        aborts_by_client = [e for e in s.ev if e[0] == "send" and bool(compare("==", e[1], 0x601)) and bool(S.eq(S.byte(e[2], 0), 0x80))]
        told = And(_told_payload(sets[0], p), len(aborts_by_client) == 0)
        if p["refused"]:
            return And(told, s.raised(ABORT), S.eq(s.code, 0x06010002))
        return And(told, s.returned)

    ensures = {"node-told-exactly-the-payload-once": lambda s: PairDownloadTheorem.ok(s)}


@contract
class PairExpedited(Contract):
    """the same pair, payloads of 1..4 declared bytes (expedited), handed over in any chunking: one exchange, the node is
    told exactly the payload"""
    target = "canopen.sdo.client:WritableStream.write"
    id = "PairExpedited"
    functions = ("canopen.sdo.client:WritableStream.__init__", "canopen.sdo.server:SdoServer.init_download")
    props = ("C03", "C01", "C02")
    cases = {"%d-bytes/%s" % (n, "refused" if r else "accepted"): (n, r) for n in (1, 2, 3, 4) for r in (False, True)}
    xcheck_n = 3
    exits = ()

    def setup(self, w, case):
        n, refused = case
        index, sub = w.int("index", 0, 0xFFFF), w.int("sub", 0, 0xFF)
        data = w.bytes("data", n)
        cl, srv, node, net = mk_pair(w, None, set_abort=refused)
        w.pre.update(cl=cl, srv=srv, data=data, index=index, sub=sub, declared=True, refused=refused)
        ws = w.run(Call(("new", WS), [cl, index, sub, n, False]))
        w.pre["ws"] = ws
        return Call(("func", "env.drivers", "download_in_chunks"), [ws, data])

    ensures = {"node-told-exactly-the-payload-once": lambda s: PairDownloadTheorem.ok(s)}


# ------------------------------------------------------------------------------------------------ upload
def _pu_inv(interp, fr):
    w = interp.l03
    p = w.pre
    rs, srv, cl, value = fr.locals["stream"], p["srv"], p["cl"], p["value"]
    f, s = rs.fields, srv.fields
    out = fr.locals["out"]
    k = out.n if isinstance(out, LBytes) else len(out.items)
    done = truth_val(f["_done"])
    return {"range": And(compare(">=", k, 0), compare("<=", k, value.n)),
            "collected-is-prefix": _prefix_or_empty(out, value, k),
            "server-buffer-is-the-rest": _same_suffix(s["_buffer"], value, k),
            "toggles-agree": And(S.eq(f["_toggle"], s["_toggle"]), Or(S.eq(s["_toggle"], 0), S.eq(s["_toggle"], 0x10))),
            "segmented": f["exp_data"] is None,
            "size-announced": S.eq(f["size"], value.n),
            "done-means-everything-collected": Implies(done, compare("==", k, value.n)),
            "no-response-pending": _queue_empty(cl)}


def _pu_havoc(interp, fr):
    w = interp.l03
    p = w.pre
    rs, srv, value = fr.locals["stream"], p["srv"], p["value"]
    ctx = interp.ctx
    k = ctx.fresh_int("h_k", 0, (1 << 32) - 1)
    tog = ctx.fresh_int("h_toggle", 0, 0x10)
    fr.locals["out"] = LBytes(value.arr, value.off, k, True)
    rs.fields["_toggle"] = tog
    rs.fields["pos"] = ctx.fresh_int("h_rspos", 0, 1 << 33)
    rs.fields["_done"] = bool(ctx.fresh_bool("h_done"))
    srv.fields["_toggle"] = tog
    srv.fields["_buffer"] = LBytes(value.arr, binop("+", value.off, k), binop("-", value.n, k), True)
    del ctx.events[:]
    ctx.emit("havoc-trace")


def _pu_variant(interp, fr):
    w = interp.l03
    out = fr.locals["out"]
    k = out.n if isinstance(out, LBytes) else len(out.items)
    return binop("+", binop("-", w.pre["value"].n, k), ite(truth_val(fr.locals["stream"].fields["_done"]), 0, 1))


@contract
class PairUploadTheorem(Contract):
    """the real pair, upload of ANY value the node holds (0 bytes, 1..4 expedited, segmented of any length): readall()
    returns exactly the value; a refusal by the node surfaces as SdoAbortedError with its code"""
    target = "canopen.sdo.client:ReadableStream.read"
    id = "PairUploadTheorem"
    functions = ("canopen.sdo.client:ReadableStream.__init__", "canopen.sdo.client:SdoClient.request_response",
                 "canopen.sdo.server:SdoServer.on_request", "canopen.sdo.server:SdoServer.init_upload",
                 "canopen.sdo.server:SdoServer.segmented_upload")
    props = ("C03", "C01", "C02")
    cases = {"segmented": "seg", "refused": "refused"}
    loop_specs = {("upload_all", 0): LoopSpec(_pu_inv, _pu_havoc, _pu_variant)}
    xcheck_n = 4
    max_paths = 6000
    exits = ()

    def setup(self, w, case):
        index, sub = w.int("index", 0, 0xFFFF), w.int("sub", 0, 0xFF)
        if case in ("seg", "refused"):
            value = w.lbytes("value", 5, (1 << 32) - 1)
        else:
            value = w.bytes("value", case)
        cl, srv, node, net = mk_pair(w, value, get_abort=(case == "refused"))
        w.pre.update(cl=cl, srv=srv, value=value, index=index, sub=sub, case=case)
        if not w.native:
            w.interp.l03 = w
        return Call(("func", "env.drivers", "open_and_upload_all"), [cl, index, sub])

    @staticmethod
    def ok(s):
        p = s.pre
        if p["case"] == "refused":
            return And(s.raised(ABORT), S.eq(s.code, 0x06020000))
        if not s.returned:
            return False
        if isinstance(p["value"], LBytes):
            return _prefix_or_empty(s.ret, p["value"], p["value"].n)
        return S.is_byteslike(s.ret) and S.same_bytes(s.ret, p["value"])

    ensures = {"returns-exactly-the-value": lambda s: PairUploadTheorem.ok(s)}


@contract
class PairUploadSmall(PairUploadTheorem):
    """the real pair, values of 0 and 1..4 bytes (empty segmented transfer / expedited): loop unrolled literally"""
    id = "PairUploadSmall"
    cases = {"empty": 0, "1-byte": 1, "2-bytes": 2, "3-bytes": 3, "4-bytes": 4}
    loop_specs = {}
    ensures = {"returns-exactly-the-value": lambda s: PairUploadTheorem.ok(s)}


# ------------------------------------------------------------------------------------------------ the whole stack
from pyvc.interp import SDict
from pyvc.values import ABSENT
from contracts.c04_codec import OD

NODE = "canopen.node.local:LocalNode"


def _store_get(interp, store, index, sub):
    inner = interp.dict_get(store, index, ABSENT, False)
    if inner is ABSENT:
        return ABSENT
    return interp.dict_get(inner, sub, ABSENT, False)


def _store_put(interp, store, index, sub, v):
    inner = interp.dict_get(store, index, ABSENT, False)
    if inner is ABSENT:
        inner = SDict()
        interp.setitem(store, index, inner)
    interp.setitem(inner, sub, v)


def mk_stack(w, index, sub):
    """real LocalNode (its get_data / set_data / _find_object and data store) behind the real SdoServer; the object
    dictionary is the abstract one of env/od.py holding a read-write DOMAIN variable at the addressed entry"""
    var = w.obj(OD, data_type=0x0F, access_type="rw", value=None, default=None, min=None, max=None, name="v", index=0x2000,
                subindex=0, parent=None)
    rec = w.obj("env.od:RecStub", has_sub=True, var=var)
    od = w.obj("env.od:OdStub", present=True, is_var=w.bool("is_var"), var=var, rec=rec)
    node = w.obj(NODE, object_dictionary=od, data_store=w.dict({}), _read_callbacks=w.list([]), _write_callbacks=w.list([]), id=1)
    net = w.obj("env.pairnet:PairNet", client=None, server=None)
    srv = w.run(Call(("new", SERVER), [0x601, 0x581, node]))
    w.setfield(srv, "network", net)
    stale = w.plist("stale", maxn=2, elem=lambda i: w.bytes("stale%d" % i, 8))
    cl = w.obj(CLIENT, rx_cobid=0x601, tx_cobid=0x581, network=net, od=None, responses=w.new_queue(stale),
               MAX_RETRIES=1, RESPONSE_TIMEOUT=0.3, PAUSE_BEFORE_SEND=0.0, RETRY_DELAY=0.1)
    w.setfield(net, "client", cl)
    w.setfield(net, "server", srv)
    return cl, srv, node, net


def _stored_is_payload(interp, p):
    v = _store_get(interp, p["node"].fields["data_store"], p["index"], p["sub"])
    if v is ABSENT:
        return False
    return _prefix_or_empty(v, p["data"], p["data"].n) if isinstance(v, LBytes) else False


def _st_d_inv(interp, fr):
    w = interp.l03
    p = w.pre
    ws, srv, cl, data = fr.locals["stream"], p["srv"], p["cl"], p["data"]
    f, s = ws.fields, srv.fields
    pos = fr.locals["pos"]
    fin = compare(">=", pos, data.n)
    c = {"range": And(compare(">=", pos, 0), compare("<=", pos, data.n), S.eq(fr.locals["total"], data.n)),
         "client-pos": S.eq(f["pos"], pos),
         "toggles-agree": And(S.eq(f["_toggle"], s["_toggle"]), Or(S.eq(s["_toggle"], 0), S.eq(s["_toggle"], 0x10))),
         "segmented": f["_exp_header"] is None,
         "server-buffer-is-prefix": _prefix_or_empty(s["_buffer"], data, pos),
         "multiplexer-kept": And(S.eq(s["_index"], p["index"]), S.eq(s["_subindex"], p["sub"])),
         "no-response-pending": _queue_empty(cl)}
    if p["declared"]:
        c["done-iff-all-sent"] = Iff(f["_done"], fin)
        if bool(fin):
            c["stored-when-all-sent"] = _stored_is_payload(interp, p)
    else:
        c["open"] = Not(f["_done"])
    return c


def _st_d_havoc(interp, fr):
    w = interp.l03
    p = w.pre
    ws, srv, data = fr.locals["stream"], p["srv"], p["data"]
    ctx = interp.ctx
    pos = ctx.fresh_int("h_pos", 0, (1 << 32) - 1)
    tog = ctx.fresh_int("h_toggle", 0, 0x10)
    fr.locals["pos"] = pos
    ws.fields["pos"] = pos
    ws.fields["_toggle"] = tog
    srv.fields["_toggle"] = tog
    srv.fields["_buffer"] = LBytes(data.arr, data.off, pos, True)
    del ctx.events[:]
    ctx.emit("havoc-trace")
    if p["declared"]:
        fin = ctx.fresh_bool("h_finished")
        ctx.assume(Iff(fin, compare(">=", pos, data.n)))
        if bool(fin):
            ws.fields["_done"] = True
            _store_put(interp, p["node"].fields["data_store"], p["index"], p["sub"], LBytes(data.arr, data.off, data.n, False))
        else:
            ws.fields["_done"] = False


def _st_u_inv(interp, fr):
    w = interp.l03
    p = w.pre
    rs, srv, cl, value = fr.locals["stream"], p["srv"], p["cl"], p["data"]
    f, s = rs.fields, srv.fields
    out = fr.locals["out"]
    k = out.n if isinstance(out, LBytes) else len(out.items)
    done = truth_val(f["_done"])
    return {"range": And(compare(">=", k, 0), compare("<=", k, value.n)),
            "collected-is-prefix": _prefix_or_empty(out, value, k),
            "server-buffer-is-the-rest": _same_suffix(s["_buffer"], value, k),
            "toggles-agree": And(S.eq(f["_toggle"], s["_toggle"]), Or(S.eq(s["_toggle"], 0), S.eq(s["_toggle"], 0x10))),
            "segmented": f["exp_data"] is None,
            "size-announced": S.eq(f["size"], value.n),
            "done-means-everything-collected": Implies(done, compare("==", k, value.n)),
            "no-response-pending": _queue_empty(cl)}


def _st_u_havoc(interp, fr):
    w = interp.l03
    p = w.pre
    rs, srv, value = fr.locals["stream"], p["srv"], p["data"]
    ctx = interp.ctx
    k = ctx.fresh_int("h_k", 0, (1 << 32) - 1)
    tog = ctx.fresh_int("h_utoggle", 0, 0x10)
    fr.locals["out"] = LBytes(value.arr, value.off, k, True)
    rs.fields["_toggle"] = tog
    rs.fields["pos"] = ctx.fresh_int("h_rspos", 0, 1 << 33)
    rs.fields["_done"] = bool(ctx.fresh_bool("h_done"))
    srv.fields["_toggle"] = tog
    srv.fields["_buffer"] = LBytes(value.arr, binop("+", value.off, k), binop("-", value.n, k), True)
    del ctx.events[:]
    ctx.emit("havoc-trace")


def _st_u_variant(interp, fr):
    w = interp.l03
    out = fr.locals["out"]
    k = out.n if isinstance(out, LBytes) else len(out.items)
    return binop("+", binop("-", w.pre["data"].n, k), ite(truth_val(fr.locals["stream"].fields["_done"]), 0, 1))


@contract
class StackRoundTrip(Contract):
    """the whole SDO stack on both sides, REAL code only (streams, SdoClient, SdoServer, LocalNode and its data store;
    models: inline bus, abstract object dictionary): for every payload of 5 .. 2**32-1 bytes (declared) or 0 .. 2**32-1
    (not declared), written in any chunking and then read back, the bytes read are exactly the bytes written"""
    target = "canopen.sdo.client:WritableStream.write"
    id = "StackRoundTrip"
    functions = PairDownloadTheorem.functions + ("canopen.sdo.client:ReadableStream.__init__", "canopen.sdo.client:ReadableStream.read",
                                                 "canopen.sdo.server:SdoServer.init_upload", "canopen.sdo.server:SdoServer.segmented_upload",
                                                 "canopen.node.local:LocalNode.get_data", "canopen.node.local:LocalNode.set_data",
                                                 "canopen.node.local:LocalNode._find_object")
    props = ("C03",)
    cases = {"declared": True, "undeclared": False}
    loop_specs = {("download_in_chunks", 0): LoopSpec(_st_d_inv, _st_d_havoc,
                                                      lambda interp, fr: binop("-", fr.locals["total"], fr.locals["pos"])),
                  ("upload_all", 0): LoopSpec(_st_u_inv, _st_u_havoc, _st_u_variant)}
    xcheck_n = 4
    max_paths = 6000

    def setup(self, w, case):
        index, sub = w.int("index", 0, 0xFFFF), w.int("sub", 0, 0xFF)
        data = w.lbytes("data", 5, (1 << 32) - 1)
        cl, srv, node, net = mk_stack(w, index, sub)
        size = (data.n if hasattr(data, "n") else len(data)) if case else None
        w.pre.update(cl=cl, srv=srv, node=node, data=data, index=index, sub=sub, declared=case)
        if not w.native:
            w.interp.l03 = w
        return Call(("func", "env.drivers", "download_then_upload"), [cl, index, sub, data, size])

    @staticmethod
    def ok(s):
        p = s.pre
        if not s.returned:
            return False
        aborts = [e for e in s.ev if e[0] == "send" and bool(S.eq(S.byte(e[2], 0), 0x80))]
        if aborts:
            return False
        if isinstance(p["data"], LBytes):
            return _prefix_or_empty(s.ret, p["data"], p["data"].n)
        return S.is_byteslike(s.ret) and S.same_bytes(s.ret, p["data"])

    ensures = {"read-back-exactly-what-was-written": lambda s: StackRoundTrip.ok(s)}


@contract
class StackRoundTripSmall(Contract):
    """the same stack, payloads of 0..4 bytes (expedited both ways when declared; empty segmented transfer), handed to
    write() in any chunking"""
    target = "canopen.sdo.client:WritableStream.write"
    id = "StackRoundTripSmall"
    functions = StackRoundTrip.functions
    props = ("C03",)
    cases = {"%d-bytes/%s" % (n, "declared" if d else "undeclared"): (n, d) for n in range(0, 5) for d in (True, False)}
    xcheck_n = 3

    def setup(self, w, case):
        n, declared = case
        index, sub = w.int("index", 0, 0xFFFF), w.int("sub", 0, 0xFF)
        data = w.bytes("data", n)
        cl, srv, node, net = mk_stack(w, index, sub)
        w.pre.update(cl=cl, srv=srv, node=node, data=data, index=index, sub=sub, declared=declared)
        return Call(("func", "env.drivers", "download_then_upload"), [cl, index, sub, data, n if declared else None])

    ensures = {"read-back-exactly-what-was-written": lambda s: StackRoundTrip.ok(s)}


# ------------------------------------------------------------------------------------------------ one disturbance (C07)
COMM = "canopen.sdo.exceptions:SdoCommunicationError"


def _d_queue_ok(cl, net):
    """undisturbed so far: nothing pending; afterwards the queue may hold the duplicate (the next request flushes it)"""
    return Or(compare("==", net.fields["budget"], 0), _queue_empty(cl))


def _dd_inv(interp, fr):
    c = _pd_inv(interp, fr)
    w = interp.l03
    c["no-response-pending"] = And(compare(">=", w.pre["net"].fields["budget"], 0), compare("<=", w.pre["net"].fields["budget"], 1),
                                   _d_queue_ok(w.pre["cl"], w.pre["net"]))
    return c


def _d_havoc_bus(interp):
    from pyvc.interp import PBase
    from pyvc.libmodels import QueueModel
    w = interp.l03
    ctx = interp.ctx
    net, cl = w.pre["net"], w.pre["cl"]
    if bool(ctx.fresh_bool("h_disturbed_before")):
        net.fields["budget"] = 0
        cl.fields["responses"] = SObj(QueueModel, {"items": SList([], PBase("h_stale", ctx.fresh_int("h_stale.len", 0, 1 << 31)))})
    else:
        net.fields["budget"] = 1


def _dd_havoc(interp, fr):
    _pd_havoc(interp, fr)
    _d_havoc_bus(interp)


@contract
class DisturbedPairDownload(PairDownloadTheorem):
    """the real pair with ONE disturbance of a server response anywhere in the transfer (lost, abort frame, flipped
    toggle, other command specifier, duplicated, other multiplexer): the download either raises an SDO communication /
    abort error, or returns after the node was told exactly the payload exactly once; it never returns otherwise"""
    id = "DisturbedPairDownload"
    props = ("C07",)
    cases = {"declared": (True, False), "undeclared": (False, False)}
    loop_specs = {("download_in_chunks", 0): LoopSpec(_dd_inv, _dd_havoc,
                                                      lambda interp, fr: binop("-", fr.locals["total"], fr.locals["pos"]))}
    exits = ("return", "raise:SdoCommunicationError", "raise:SdoAbortedError")
    budget_s = 1500

    def setup(self, w, case):
        declared, refused = case
        index, sub = w.int("index", 0, 0xFFFF), w.int("sub", 0, 0xFF)
        data = w.lbytes("data", 5 if declared else 0, (1 << 32) - 1)
        cl, srv, node, net = mk_pair(w, None, set_abort=refused, disturbing=True, leftovers=False)
        size = (data.n if hasattr(data, "n") else len(data)) if declared else None
        w.pre.update(cl=cl, srv=srv, data=data, index=index, sub=sub, declared=declared, refused=refused)
        if not w.native:
            w.interp.l03 = w
        return Call(("func", "env.drivers", "open_and_download"), [cl, index, sub, size, data])

    @staticmethod
    def ok(s):
        p = s.pre
        if not s.returned:
            return Or(s.raised(COMM), s.raised(ABORT))
        sets = [e for e in s.ev if e[0] == "set_data"]
        return len(sets) == 1 and _told_payload(sets[0], p)

    ensures = {"fails-loudly-or-delivers-exactly-the-payload": lambda s: DisturbedPairDownload.ok(s)}


def _du_inv(interp, fr):
    c = _pu_inv(interp, fr)
    w = interp.l03
    c["no-response-pending"] = And(compare(">=", w.pre["net"].fields["budget"], 0), compare("<=", w.pre["net"].fields["budget"], 1),
                                   _d_queue_ok(w.pre["cl"], w.pre["net"]))
    return c


def _du_havoc(interp, fr):
    _pu_havoc(interp, fr)
    _d_havoc_bus(interp)


@contract
class DisturbedPairUpload(PairUploadTheorem):
    """the same for an upload: it raises an SDO communication / abort error or returns exactly the node's value"""
    id = "DisturbedPairUpload"
    props = ("C07",)
    cases = {"segmented": "seg"}
    loop_specs = {("upload_all", 0): LoopSpec(_du_inv, _du_havoc, _pu_variant)}
    exits = ("return", "raise:SdoCommunicationError", "raise:SdoAbortedError")
    budget_s = 1500

    def setup(self, w, case):
        index, sub = w.int("index", 0, 0xFFFF), w.int("sub", 0, 0xFF)
        value = w.lbytes("value", 5, (1 << 32) - 1)
        cl, srv, node, net = mk_pair(w, value, disturbing=True, leftovers=False)
        w.pre.update(cl=cl, srv=srv, value=value, index=index, sub=sub, case=case)
        if not w.native:
            w.interp.l03 = w
        return Call(("func", "env.drivers", "open_and_upload_all"), [cl, index, sub])

    @staticmethod
    def ok(s):
        p = s.pre
        if not s.returned:
            return Or(s.raised(COMM), s.raised(ABORT))
        return _prefix_or_empty(s.ret, p["value"], p["value"].n) if isinstance(p["value"], LBytes) \
            else (S.is_byteslike(s.ret) and S.same_bytes(s.ret, p["value"]))

    ensures = {"fails-loudly-or-returns-exactly-the-value": lambda s: DisturbedPairUpload.ok(s)}

"""C02 / C06 — LocalNode.get_data / set_data / _find_object: value precedence, exact storage, refusal codes."""
from pyvc.engine import Contract, contract
from pyvc.worlds import Call
from pyvc import spec as S
from pyvc.values import And, Or, Not, Implies, Iff, compare, ite, binop, SObj, SBytes, LBytes, ABSENT
from spec import cia301
from contracts.c04_codec import OD, rng

NODE = "canopen.node.local:LocalNode"
ABORT = "canopen.sdo.exceptions:SdoAbortedError"
ACCESS = ("rw", "ro", "wo", "const")
# data types exercised: one numeric per width class, a float, and the variable-length kinds
TYPES = {"UNSIGNED8": (0x05, 8, False, True), "INTEGER16": (0x03, 16, True, True), "UNSIGNED32": (0x07, 32, False, True),
         "INTEGER24": (0x10, 24, True, True), "UNSIGNED64": (0x1B, 64, False, True), "REAL32": (0x08, 32, False, True),
         "VISIBLE_STRING": (0x09, 8, False, False), "OCTET_STRING": (0x0A, 8, False, False), "DOMAIN": (0x0F, 8, False, False)}


def mk_node(w, tcase, ncb=0):
    code, bits, signed, numeric = tcase
    acc = ACCESS[w.choose(w.int("access", 0, 3), range(4))]
    is_int = numeric and code != 0x08
    lo, hi = rng(bits, signed) if is_int else (0, 0)
    val = w.int("od_value", lo, hi) if (is_int and w.bool("has_value")) else None
    dfl = w.int("od_default", lo, hi) if (is_int and w.bool("has_default")) else None
    var = w.obj(OD, data_type=code, access_type=acc, value=val, default=dfl, min=None, max=None, name="v", index=0x2000,
                subindex=0, parent=None)
    rec = w.obj("env.od:RecStub", has_sub=w.bool("has_sub"), var=var)
    od = w.obj("env.od:OdStub", present=w.bool("present"), is_var=w.bool("is_var"), var=var, rec=rec)
    index, sub = w.int("index", 0, 0xFFFF), w.int("sub", 0, 0xFF)
    store = w.pdict("store", [index], lambda tag: w.pdict(tag, [sub], lambda t2: w.lbytes(t2, 0, 1 << 20)))
    rcbs = [w.obj("env.od:ReadCb", name="r%d" % i, result=(w.lbytes("cb%d_result" % i, 0, 1 << 20) if w.bool("cb%d_answers" % i) else None))
            for i in range(ncb)]
    wcbs = w.plist("write_callbacks")
    node = w.obj(NODE, object_dictionary=od, data_store=store, _read_callbacks=w.list(rcbs), _write_callbacks=wcbs, id=5)
    g = w.get
    found = And(g(od, "present"), Or(g(od, "is_var"), g(rec, "has_sub")))
    w.pre.update(node=node, od=od, rec=rec, var=var, acc=acc, val=val, dfl=dfl, index=index, sub=sub, store=store,
                 rcbs=rcbs, wcbs0=w.snap(wcbs), found=found, present=g(od, "present"), tcase=tcase,
                 rresults=[g(c, "result") for c in rcbs])
    return node


def aborted_with(s, code):
    return And(s.raised(ABORT), compare("==", s.exc.fields["code"] if isinstance(s.exc, SObj) else s.exc.code, code)
               if s.exc is not None else False)


def stored(s, store, index, sub):
    """bytes currently stored for (index, sub) or ABSENT (spec-side lookup, forks as needed)"""
    it = s.w.interp
    inner = it.pdict_lookup(store, index) if (store.base is not None or store.sym) else store.d.get(index, ABSENT)
    if inner is ABSENT:
        return ABSENT
    return it.pdict_lookup(inner, sub) if (inner.base is not None or inner.sym) else inner.d.get(sub, ABSENT)


@contract
class NodeGetData(Contract):
    """value precedence: first answering read callback, then previously downloaded data, then the DCF parameter value,
    then the EDS default, else abort (resource not available / no data); refusals carry the CiA 301 code"""
    target = "canopen.node.local:LocalNode.get_data"
    functions = ("canopen.node.local:LocalNode._find_object", "canopen.objectdictionary:ODVariable.readable",
                 "canopen.objectdictionary:ODVariable.encode_raw")
    props = ("C02", "C06")
    cases = {"%s/%dcb" % (t, n): (TYPES[t], n) for t in ("UNSIGNED8", "INTEGER16", "UNSIGNED32", "DOMAIN") for n in (0, 1, 2)}
    # longer concrete lists as well (code that counts callbacks); ANY number is NodeGetDataAnyCallbacks
    cases.update({"UNSIGNED8/%dcb" % n: (TYPES["UNSIGNED8"], n) for n in (3, 4)})
    exits = ("return", "raise:SdoAbortedError")
    max_paths = 8000

    def setup(self, w, case):
        tcase, ncb = case
        node = mk_node(w, tcase, ncb)
        chk = w.bool("check_readable")
        had = stored(_S(w), w.pre["store"], w.pre["index"], w.pre["sub"]) if not w.native else None
        w.pre.update(chk=chk, had=had)
        return Call(("method", node, "get_data"), [w.pre["index"], w.pre["sub"]], {"check_readable": chk})

    @staticmethod
    def ok(s):
        p = s.pre
        code, bits, signed, numeric = p["tcase"]
        if not bool(p["present"]):
            return aborted_with(s, cia301.ABORT_NO_OBJECT) and len(s.ev) == 0
        if not bool(p["found"]):
            return aborted_with(s, cia301.ABORT_NO_SUBINDEX) and len(s.ev) == 0
        readable = p["acc"] in ("rw", "ro", "const")
        if bool(p["chk"]) and not readable:
            return aborted_with(s, cia301.ABORT_WRITE_ONLY) and len(s.ev) == 0
        # callbacks are consulted in order until one answers
        asked = [e for e in s.ev if e[0] == "read_cb"]
        for i, r in enumerate(p["rresults"]):
            if len(asked) <= i or asked[i][1] != "r%d" % i:
                return False
            if r is not None:
                return And(s.returned, len(asked) == i + 1, S.is_byteslike(s.ret) and S.same_bytes(s.ret, r))
        if len(asked) != len(p["rresults"]):
            return False
        if p["had"] is not ABSENT:
            return And(s.returned, S.is_byteslike(s.ret) and S.same_bytes(s.ret, p["had"]))
        src = p["val"] if p["val"] is not None else p["dfl"]
        if src is not None:
            return And(s.returned, S.bytes_are(s.ret, S.le_bytes(src, bits // 8)))
        return Or(aborted_with(s, cia301.ABORT_INVALID_VALUE), aborted_with(s, cia301.ABORT_NO_DATA))

    ensures = {"precedence-and-refusal-codes": lambda s: NodeGetData.ok(s)}


class _S:
    """minimal stand-in so `stored` can be used during setup"""

    def __init__(self, w):
        self.w = w


@contract
class NodeSetData(Contract):
    """an accepted write stores exactly the transferred bytes (an immutable copy) and tells every write callback once,
    in order; a refused write (missing object, read-only/const, wrong length for a number) raises the CiA 301 abort
    code, leaves the store unchanged and tells no callback"""
    target = "canopen.node.local:LocalNode.set_data"
    functions = ("canopen.node.local:LocalNode._find_object", "canopen.objectdictionary:ODVariable.writable",
                 "canopen.objectdictionary:ODVariable.__len__")
    props = ("C02", "C06")
    cases = {t: TYPES[t] for t in TYPES}
    exits = ("return", "raise:SdoAbortedError")
    max_paths = 8000

    def setup(self, w, case):
        node = mk_node(w, case, 0)
        chk = w.bool("check_writable")
        data = w.lbytes("data", 0, 1 << 20, mutable=True)
        had = stored(_S(w), w.pre["store"], w.pre["index"], w.pre["sub"]) if not w.native else None
        w.pre.update(chk=chk, data=data, had=had)
        return Call(("method", node, "set_data"), [w.pre["index"], w.pre["sub"], data], {"check_writable": chk})

    def observe(self, w):
        return {"store": w.get(w.pre["node"], "data_store")}

    @staticmethod
    def unchanged(s):
        p = s.pre
        st = p["store"]
        untouched = (not st.sym) if st.base is not None else True
        now = stored(s, st, p["index"], p["sub"])
        if p["had"] is ABSENT:
            return untouched and now is ABSENT
        return untouched and now is p["had"]

    @staticmethod
    def ok(s):
        p = s.pre
        code, bits, signed, numeric = p["tcase"]
        refused = None
        if not bool(p["present"]):
            refused = cia301.ABORT_NO_OBJECT
        elif not bool(p["found"]):
            refused = cia301.ABORT_NO_SUBINDEX
        elif bool(p["chk"]) and p["acc"] not in ("rw", "wo"):
            refused = cia301.ABORT_READ_ONLY
        elif numeric and bool(compare("!=", binop("*", 8, S.blen(p["data"])), bits)):
            refused = cia301.ABORT_LENGTH
        if refused is not None:
            return And(aborted_with(s, refused), len(s.ev) == 0, NodeSetData.unchanged(s))
        now = stored(s, p["store"], p["index"], p["sub"])
        if now is ABSENT or not s.returned or not S.is_byteslike(now):
            return False
        var = p["var"]
        kw = {"index": p["index"], "subindex": p["sub"], "od": var, "data": p["data"]}
        return And(now is not p["data"], now.kind == "bytes", S.same_bytes(now, p["data"]),
                   S.events_are(s, S.expected_calls(p["wcbs0"], (), kw)))

    ensures = {"store-exact_callbacks-told_refused-unchanged": lambda s: NodeSetData.ok(s)}


@contract
class NodeSetDataLengths(NodeSetData):
    """the same contract for every numeric type crossed with every payload of 0..9 bytes of concrete length (the
    symbolic-length family of NodeSetData cannot follow code that inspects individual surplus bytes)"""
    id = "NodeSetDataLengths"
    cases = {"%s/%d-bytes" % (t, n): (TYPES[t], n) for t in TYPES if TYPES[t][3] for n in range(0, 10)}
    exits = ("raise:SdoAbortedError",)      # (a wrong length never returns; a matching one also does)

    def setup(self, w, case):
        tcase, n = case
        node = mk_node(w, tcase, 0)
        chk = w.bool("check_writable")
        data = w.bytes("data", n, mutable=True)
        had = stored(_S(w), w.pre["store"], w.pre["index"], w.pre["sub"]) if not w.native else None
        w.pre.update(chk=chk, data=data, had=had)
        return Call(("method", node, "set_data"), [w.pre["index"], w.pre["sub"], data], {"check_writable": chk})

    ensures = {"store-exact_callbacks-told_refused-unchanged": lambda s: NodeSetData.ok(s)}


@contract
class NodeGetDataAnyCallbacks(Contract):
    """the same precedence for ANY number of read callbacks: every callback list is a prefix of callbacks that do not
    answer (arbitrary length, summarised: each is consulted once, in order, with the request's index / sub-index / object),
    then possibly a first one that answers, then a rest that must not be consulted.  The prefix is an unknown-prefix list
    whose elements return None (contract family, `silent`); the tail is two concrete callbacks, each answering or not"""
    target = "canopen.node.local:LocalNode.get_data"
    id = "NodeGetDataAnyCallbacks"
    functions = NodeGetData.functions
    props = ("C02", "C06")
    cases = {t: TYPES[t] for t in ("UNSIGNED8", "INTEGER16", "UNSIGNED32", "DOMAIN")}
    exits = ("return", "raise:SdoAbortedError")
    max_paths = 8000

    def setup(self, w, case):
        node = mk_node(w, case, 2)
        pre = w.plist("silent_read_callbacks", 3, elem=lambda i: w.obj("env.od:ReadCb", name="p%d" % i, result=None), silent=True)
        tail = w.pre["rcbs"]
        if w.native:
            lst, nprefix = list(pre) + list(tail), len(pre)
        else:
            from pyvc.interp import SList
            lst = SList(list(pre.items) + list(tail), pre.base)
            nprefix = None if pre.base is not None else len(pre.items)
        w.setfield(node, "_read_callbacks", lst)
        chk = w.bool("check_readable")
        had = stored(_S(w), w.pre["store"], w.pre["index"], w.pre["sub"]) if not w.native else None
        w.pre.update(chk=chk, had=had, nprefix=nprefix)
        return Call(("method", node, "get_data"), [w.pre["index"], w.pre["sub"]], {"check_readable": chk})

    @staticmethod
    def ok(s):
        import copy
        p = s.pre
        refused = (not bool(p["present"])) or (not bool(p["found"])) or \
            (bool(p["chk"]) and p["acc"] not in ("rw", "ro", "const"))
        if refused:
            return NodeGetData.ok(s)            # the CiA 301 code and no callback consulted at all
        ev = list(s.ev)
        if p["nprefix"] is None:
            kw = tuple(sorted({"index": p["index"], "subindex": p["sub"], "od": p["var"]}.items()))
            if not ev or ev[0][0] != "foreach-call":
                return False
            first = S.ev_eq(s.w.interp, ev[0], ("foreach-call", "silent_read_callbacks", (), kw))
            rest = ev[1:]
        else:
            n = p["nprefix"]
            if len(ev) < n:
                return False
            first = S.ev_eq(s.w.interp, ev[:n], [("read_cb", "p%d" % i, p["index"], p["sub"], p["var"]) for i in range(n)])
            rest = ev[n:]
        s2 = copy.copy(s)
        s2.ev = rest
        return And(first, NodeGetData.ok(s2))

    ensures = {"precedence-for-any-number-of-callbacks": lambda s: NodeGetDataAnyCallbacks.ok(s)}

"""Safety of the real BlockDownloadStream under ARBITRARY loss of segments (any segment, also the last one, also during
retransmissions, any number of times; env/blockserver.py BlockDownloadServer with any_loss): for every payload of
declared size, every sequence of block sizes, CRC negotiated or not: a block download that returns normally has
committed exactly the payload at the server; otherwise it ends in an exception.  Nothing is claimed about the CRC the
client computes (after nested retransmissions it can be wrong: the server then rejects the end frame, a visible
failure) nor about success.

Invariants: the file-layer loop (client and server agree on the running sub-block, the server may lag behind after a
gap, `_current_block` holds the payload segments of the running sub-block) and the loop of the real `_retransmit`,
which is entered recursively (a loss during a retransmission): one invariant serves every nesting depth, because it
only relates the list being re-sent, the stream position and the server's position."""
from pyvc.engine import Contract, contract
from pyvc.worlds import Call
from pyvc import spec as S
from pyvc.values import And, Or, Not, Implies, Iff, compare, ite, binop, SObj, SBytes, LBytes, truth_val, mk_bool
from pyvc.interp import LoopSpec, SList
from contracts.l01_transfers import _prefix_or_empty
from contracts.l12_blockdownload import seglist_is, segs, BD

COMM = "canopen.sdo.exceptions:SdoCommunicationError"


def _in_step(f, s, data, pos):
    """both sides agree on the running sub-block (numbers, size); the server holds every byte up to the first gap"""
    c, B, r = f["_seqno"], f["_blksize"], s["seq"]
    block_start = binop("-", pos, binop("*", c, 7))
    return {"in-step": And(S.eq(s["phase"], 1), Not(s["finished"]), S.eq(c, s["sent"]), S.eq(B, s["blksize"]),
                           compare(">=", r, 0), compare("<=", r, c), compare("<", c, B), compare("<=", B, 127)),
            "current-block": And(compare(">=", block_start, 0), seglist_is(f["_current_block"], data, block_start, c)),
            "server-has-all-up-to-the-gap": _prefix_or_empty(s["buf"], data, binop("-", pos, binop("*", binop("-", c, r), 7)))}


def _closed(f, s, data):
    """all segments sent and the last sub-block acknowledged in full: the server keeps the last segment pending"""
    L = f["_last_bytes_sent"]
    pl = s.get("pending_last")
    if not isinstance(pl, SBytes) or len(pl.items) != 7:
        return False
    base = binop("-", data.n, L)
    c = [compare(">=", L, 1), compare("<=", L, 7), compare("<=", L, data.n), S.eq(s["phase"], 3), truth_val(s["finished"]),
         _prefix_or_empty(s["buf"], data, base)]
    for i in range(7):
        c.append(ite(compare("<", i, L), S.eq(S.byte(pl, i), S.bat(data, binop("+", base, i))), S.eq(S.byte(pl, i), 0)))
    return And(c)


def _inv(interp, fr):
    w = interp.l12s
    bd, srv, data = w.pre["bd"], w.pre["srv"], w.pre["data"]
    f, s = bd.fields, srv.fields
    pos = fr.locals["pos"]
    fin = compare(">=", pos, data.n)
    c = {"range": And(compare(">=", pos, 0), compare("<=", pos, data.n), S.eq(fr.locals["total"], data.n)),
         "client-pos": S.eq(f["pos"], pos),
         "size-declared": And(S.eq(f["size"], data.n), S.eq(s["declared"], data.n)),
         "done-iff-all-sent": Iff(f["_done"], fin),
         "nothing-committed": s["committed"] is None,
         "closed": Implies(fin, _closed(f, s, data))}
    for k, v in _in_step(f, s, data, pos).items():
        c["open:" + k] = Implies(Not(fin), v)
    return c


def _havoc_open(ctx, f, s, data, pos, tag):
    blk = ctx.fresh_int(tag + "blksize", 1, 127)
    c = ctx.fresh_int(tag + "seq", 0, 126)
    ctx.assume(compare("<", c, blk))
    r = ctx.fresh_int(tag + "received", 0, 126)
    ctx.assume(compare("<=", r, c))
    ctx.assume(compare(">=", binop("-", pos, binop("*", c, 7)), 0))
    f["_seqno"] = c
    f["_blksize"] = blk
    f["_current_block"] = segs(tag + "block", data, binop("-", pos, binop("*", c, 7)), c)
    s["seq"] = r
    s["sent"] = c
    s["blksize"] = blk
    s["phase"] = 1
    s["finished"] = False
    s["buf"] = LBytes(data.arr, data.off, binop("-", pos, binop("*", binop("-", c, r), 7)), True)


def _havoc(interp, fr):
    w = interp.l12s
    bd, srv, data = w.pre["bd"], w.pre["srv"], w.pre["data"]
    ctx = interp.ctx
    f, s = bd.fields, srv.fields
    pos = ctx.fresh_int("h_pos", 0, (1 << 32) - 1)
    fr.locals["pos"] = pos
    f["pos"] = pos
    f["_crc"].fields["_value"] = ctx.fresh_int("h_crc", 0, 0xFFFF)
    f["_retransmitting"] = False
    if bool(ctx.fresh_bool("h_finished")):
        ctx.assume(compare(">=", pos, data.n))
        L = ctx.choose(ctx.fresh_int("h_last_len", 1, 7), range(1, 8))
        ctx.assume(compare("<=", L, data.n))
        f["_done"] = True
        f["_last_bytes_sent"] = L
        f["_current_block"] = SList([])
        f["_seqno"] = 0
        f["_blksize"] = ctx.fresh_int("h_blk_final", 1, 127)
        base = binop("-", data.n, L)
        s["phase"] = 3
        s["finished"] = True
        s["buf"] = LBytes(data.arr, data.off, base, True)
        s["pending_last"] = SBytes([data.at(binop("+", base, i)) if i < L else 0 for i in range(7)], False)
        s["seq"] = 0
        s["sent"] = 0
    else:
        ctx.assume(compare("<", pos, data.n))
        f["_done"] = False
        _havoc_open(ctx, f, s, data, pos, "h_")
    del ctx.events[:]
    ctx.emit("havoc-trace")


# ---- the loop of the real _retransmit, at any nesting depth -----------------------------------------------------------
def _r_inv(interp, fr):
    w = interp.l12s
    bd, srv, data = w.pre["bd"], w.pre["srv"], w.pre["data"]
    f, s = bd.fields, srv.fields
    it, j = fr.locals["$iter"], fr.locals["$i"]
    m = binop("+", it.base.length, len(it.items)) if it.base is not None else len(it.items)
    if truth_val(f["_done"]) is True:
        # the last segment was already sent: the first re-sent segment makes write() raise (a visible failure), so the
        # loop never gets past its first iteration
        return {"never-past-the-first-segment": And(compare("==", j, 0), compare(">=", m, 1))}
    pos = f["pos"]
    p0 = binop("-", pos, binop("*", j, 7))
    c = {"index": And(compare(">=", j, 0), compare("<=", j, m)),
         "block-is-consecutive-payload-segments": And(compare(">=", p0, 0), seglist_is(it, data, p0, m)),
         "no-last-segment-in-the-block": compare("<", binop("+", p0, binop("*", m, 7)), data.n),
         "not-done": And(Not(f["_done"]), S.eq(f["size"], data.n), S.eq(s["declared"], data.n), s["committed"] is None)}
    c.update(_in_step(f, s, data, pos))
    return c


def _r_havoc(interp, fr):
    w = interp.l12s
    bd, srv, data = w.pre["bd"], w.pre["srv"], w.pre["data"]
    ctx = interp.ctx
    f, s = bd.fields, srv.fields
    it = fr.locals["$iter"]
    m = binop("+", it.base.length, len(it.items)) if it.base is not None else len(it.items)
    j = ctx.fresh_int("r_j", 0, 127)
    fr.locals["$i"] = j
    if truth_val(f["_done"]) is True:
        # (the list only needs a description the loop can iterate; its content is irrelevant on this path)
        fr.locals["$iter"] = segs("r_block", data, 0, m)
        return
    p0 = f["pos"]
    fr.locals["$iter"] = segs("r_block", data, p0, m)
    pos = binop("+", p0, binop("*", j, 7))
    f["pos"] = pos
    f["_crc"].fields["_value"] = ctx.fresh_int("r_crc", 0, 0xFFFF)
    f["_retransmitting"] = bool(ctx.fresh_bool("r_retransmitting"))
    _havoc_open(ctx, f, s, data, pos, "r_")


# ---- the contract of _retransmit, used at its call sites (modular step; cuts the recursion write -> send -> _block_ack -> ------
# ---- _retransmit -> write ...): proved on the real body by BdRetransmitContract below -----------------------------------------
from pyvc.interp import FnSummary, SegBase


def _list_len(lst):
    return binop("+", lst.base.length, len(lst.items)) if lst.base is not None else len(lst.items)


def _rt_pre(interp, args, kwargs):
    w = interp.l12s
    srv, data = w.pre["srv"], w.pre["data"]
    bd, a, Bn = args[0], args[1], args[2]
    f, s = bd.fields, srv.fields
    cb = f["_current_block"]
    if not isinstance(cb, SList):
        return {"current-block-is-a-list": False}
    pre = {"acknowledged-fewer-than-sent": And(compare(">=", a, 0), compare("<", a, _list_len(cb)))}
    if truth_val(f["_done"]) is True:
        return pre
    c, pos = f["_seqno"], f["pos"]
    pre.update({
        "not-done": And(Not(f["_done"]), S.eq(f["size"], data.n), S.eq(s["declared"], data.n), s["committed"] is None,
                        compare("<", pos, data.n)),
        "server-starts-a-new-sub-block": And(S.eq(s["phase"], 1), Not(s["finished"]), S.eq(s["seq"], 0), S.eq(s["sent"], 0),
                                             S.eq(s["blksize"], Bn), compare(">=", Bn, 1), compare("<=", Bn, 127)),
        "current-block": And(compare("<=", c, 127), compare(">=", binop("-", pos, binop("*", c, 7)), 0),
                             seglist_is(cb, data, binop("-", pos, binop("*", c, 7)), c)),
        "server-has-all-up-to-the-gap": _prefix_or_empty(s["buf"], data, binop("-", pos, binop("*", binop("-", c, a), 7)))})
    return pre


def _rt_post(f, s, data, pos_entry):
    c = {"position-restored": S.eq(f["pos"], pos_entry), "not-retransmitting": Not(f["_retransmitting"]),
         "not-done": And(Not(f["_done"]), s["committed"] is None)}
    c.update(_in_step(f, s, data, pos_entry))
    return c


def _rt_apply(interp, args, kwargs):
    w = interp.l12s
    srv, data = w.pre["srv"], w.pre["data"]
    bd = args[0]
    ctx = interp.ctx
    f, s = bd.fields, srv.fields
    if truth_val(f["_done"]) is True:
        ctx.raise_builtin(RuntimeError, "All expected data has already been transmitted")
    if bool(ctx.fresh_bool("rt_fails")):
        ctx.raise_builtin(RuntimeError, "retransmission failed (any exception)")
    pos = f["pos"]
    f["_crc"].fields["_value"] = ctx.fresh_int("rt_crc", 0, 0xFFFF)
    f["_retransmitting"] = False
    _havoc_open(ctx, f, s, data, pos, "rt_")
    for nm, cj in _rt_post(f, s, data, pos).items():
        ctx.assume(cj)
    return None


@contract
class BdRetransmitContract(Contract):
    """the contract of the real _retransmit(ackseq, blksize) for EVERY sub-block size, acknowledged count, position and
    new block size, under arbitrary further loss: called in a state where the server has restarted at the segment after
    `ackseq` and _current_block holds the payload segments of the interrupted sub-block, it either raises or returns with
    the stream position where it was, client and server in step again (the server possibly behind after another gap).
    Recursive calls (a loss during the retransmission) use this same contract."""
    target = "canopen.sdo.client:BlockDownloadStream._retransmit"
    id = "BdRetransmitContract"
    functions = ("canopen.sdo.client:BlockDownloadStream.write", "canopen.sdo.client:BlockDownloadStream.send",
                 "canopen.sdo.client:BlockDownloadStream._block_ack")
    props = ("C12",)
    cases = {"crc": True, "no-crc": False}
    loop_specs = {("BlockDownloadStream._retransmit", 0): LoopSpec(_r_inv, _r_havoc, None)}
    fn_summaries = {"BlockDownloadStream._retransmit": FnSummary(_rt_pre, _rt_apply, inline_depth=1, proved_by="BdRetransmitContract")}
    xcheck = False
    max_paths = 8000
    budget_s = 1500
    exits = ("return",)

    def setup(self, w, case):
        index, sub = w.int("index", 0, 0xFFFF), w.int("sub", 0, 0xFF)
        data = w.lbytes("data", 1, (1 << 32) - 1)
        pos = w.int("pos", 0, (1 << 32) - 1)
        c = w.int("sent", 1, 127)
        a = w.int("ackseq", 0, 126)
        Bn = w.int("new_blksize", 1, 127)
        w.assume(And(compare("<", a, c), compare(">=", binop("-", pos, binop("*", c, 7)), 0), compare("<", pos, data.n)))
        srv = w.obj("env.blockserver:BlockDownloadServer", index=index, subindex=sub,
                    buf=LBytes(data.arr, data.off, binop("-", pos, binop("*", binop("-", c, a), 7)), True), server_crc=case,
                    use_crc=case, declared=data.n, seq=0, blksize=Bn, phase=1, last_len=0, finished=False, committed=None,
                    rx_cobid=0x601, pending_last=None, sent=0, losses_left=0, any_loss=True)
        bd = w.obj(BD, sdo_client=srv, size=data.n, pos=pos, _done=False, _seqno=c, _blksize=c,
                   _crc=w.obj("canopen.sdo.base:CrcXmodem", _value=w.int("crc_value", 0, 0xFFFF)), _last_bytes_sent=0,
                   _current_block=segs("block", data, binop("-", pos, binop("*", c, 7)), c),
                   _retransmitting=w.bool("retransmitting"), crc_supported=case)
        w.interp.l12s = w
        w.pre.update(bd=bd, srv=srv, data=data, pos=pos)
        return Call(("method", bd, "_retransmit"), [a, Bn])

    @staticmethod
    def ok(s):
        p = s.pre
        if not s.returned:
            return True
        return And(list(_rt_post(p["bd"].fields, p["srv"].fields, p["data"], p["pos"]).values()))

    ensures = {"returns-in-step-with-the-position-restored_or-raises": lambda s: BdRetransmitContract.ok(s)}


@contract
class BlockDownloadSafetyTheorem(Contract):
    target = "canopen.sdo.client:BlockDownloadStream.write"
    id = "BlockDownloadSafetyTheorem"
    functions = ("canopen.sdo.client:BlockDownloadStream.__init__", "canopen.sdo.client:BlockDownloadStream.send",
                 "canopen.sdo.client:BlockDownloadStream._block_ack", "canopen.sdo.client:BlockDownloadStream.close")
    props = ("C12",)
    cases = {"crc/crc": (True, True), "no-crc": (False, False)}
    loop_specs = {("block_download_in_chunks", 0): LoopSpec(_inv, _havoc, lambda interp, fr: binop("-", fr.locals["total"], fr.locals["pos"]))}
    fn_summaries = {"BlockDownloadStream._retransmit": FnSummary(_rt_pre, _rt_apply, inline_depth=0, proved_by="BdRetransmitContract")}
    xcheck_n = 4
    max_paths = 8000
    budget_s = 1500
    exits = ("return",)
    __doc__ = __doc__

    def setup(self, w, case):
        req_crc, srv_crc = case
        index, sub = w.int("index", 0, 0xFFFF), w.int("sub", 0, 0xFF)
        data = w.lbytes("data", 1, (1 << 32) - 1)
        srv = w.obj("env.blockserver:BlockDownloadServer", index=index, subindex=sub, buf=w.empty_prefix_of(data), server_crc=srv_crc,
                    use_crc=False, declared=None, seq=0, blksize=0, phase=0, last_len=0, finished=False, committed=None,
                    rx_cobid=0x601, pending_last=None, sent=0, losses_left=0, any_loss=True)
        if not w.native:
            w.interp.l12s = w
        size = data.n if isinstance(data, LBytes) else len(data)
        bd = w.run(Call(("new", BD), [srv, index, sub, size, req_crc]))
        w.pre.update(bd=bd, srv=srv, data=data)
        return Call(("func", "env.drivers", "block_download_in_chunks"), [bd, data])

    def observe(self, w):
        return {"committed": w.get(w.pre["srv"], "committed")}

    @staticmethod
    def ok(s):
        p = s.pre
        if not s.returned:
            return True           # a visible failure (an exception) is allowed under loss
        com = s.w.get(p["srv"], "committed")
        if isinstance(p["data"], LBytes):
            return _prefix_or_empty(com, p["data"], p["data"].n)
        return S.is_byteslike(com) and S.same_bytes(com, p["data"])

    ensures = {"returns-normally-only-after-committing-exactly-the-payload": lambda s: BlockDownloadSafetyTheorem.ok(s)}

"""Safety of the real BlockUploadStream under ARBITRARY loss of segments (env/blockserver.py LossyBlockUploadServer:
conformant server, lazy lossy network, stale frames of an interrupted sub-block still delivered): for every value
(1 .. 2**32-1 bytes), every loss pattern, CRC negotiated or not, the upload either returns exactly the server's value
(every acknowledgement legal, transfer closed) or ends in an SDO error; it never returns anything else.
Two nested invariants: the file-layer loop (client and server in step at every read) and the resynchronisation
loop of the real `_retransmit` (acknowledgement sent, stale frames discarded, only segment 1 of the restarted
sub-block accepted)."""
from pyvc.engine import Contract, contract
from pyvc.worlds import Call
from pyvc import spec as S
from pyvc.values import And, Or, Not, Implies, Iff, compare, ite, binop, SObj, SBytes, LBytes, truth_val, mk_bool
from pyvc.interp import LoopSpec
from pyvc.models import crc_prefix, crc_prefix_step, crc_prefix_zero
from contracts.l01_transfers import _same_prefix, _prefix_or_empty

BU = "canopen.sdo.client:BlockUploadStream"
COMM = "canopen.sdo.exceptions:SdoCommunicationError"


def _common(f, s, value, k):
    crc_on = truth_val(f["crc_supported"])
    return {"range": And(compare(">=", k, 0), compare("<=", k, value.n)),
            "client-pos": S.eq(f["pos"], k),
            "crc-flag-agrees": Iff(crc_on, s["use_crc"]),
            "crc-so-far": Implies(crc_on, S.eq(f["_crc"].fields["_value"], crc_prefix(value, k))),
            "no-error": Not(f["_error"]),
            "block-size": S.eq(f.get("blksize", 127), 127)}


def _inv(interp, fr):
    w = interp.l13l
    bu, srv, value = w.pre["bu"], w.pre["srv"], w.pre["value"]
    f, s = bu.fields, srv.fields
    out = fr.locals["out"]
    k = out.n if isinstance(out, LBytes) else len(out.items)
    done = truth_val(f["_done"])
    a = f["_ackseq"]
    c = _common(f, s, value, k)
    c.update({"collected-is-prefix": _prefix_or_empty(out, value, k),
              "in-step-while-sending": Implies(Not(done), And(
                  S.eq(s["phase"], 2), Not(s["pending"]), Not(s["exhausted"]), S.eq(s["seq"], a), compare(">=", a, 0),
                  compare("<", a, 127), compare(">=", s["base"], 0), S.eq(binop("+", s["base"], binop("*", a, 7)), k),
                  compare("<", k, value.n), S.eq(s["blksize"], 127))),
              "done-means-end-frame-delivered": Implies(done, And(S.eq(s["phase"], 5), compare("==", k, value.n)))})
    return c


def _havoc(interp, fr):
    w = interp.l13l
    bu, srv, value = w.pre["bu"], w.pre["srv"], w.pre["value"]
    ctx = interp.ctx
    f, s = bu.fields, srv.fields
    k = ctx.fresh_int("h_k", 0, (1 << 32) - 1)
    a = ctx.fresh_int("h_seq", 0, 126)
    ctx.assume(compare(">=", binop("-", k, binop("*", a, 7)), 0))
    s["base"] = binop("-", k, binop("*", a, 7))
    s["seq"] = a
    s["exhausted"] = False
    s["pending"] = False
    s["blksize"] = 127
    f["_ackseq"] = a
    f["pos"] = k
    f["_crc"].fields["_value"] = crc_prefix(value, k)
    fr.locals["out"] = LBytes(value.arr, value.off, k, True)
    if bool(ctx.fresh_bool("h_done")):
        f["_done"] = True
        s["phase"] = 5
    else:
        f["_done"] = False
        s["phase"] = 2
    for m in range(1, 8):
        ctx.assume(crc_prefix_step(value, k, m))
    del ctx.events[:]
    ctx.emit("havoc-trace")


def _variant(interp, fr):
    w = interp.l13l
    out = fr.locals["out"]
    k = out.n if isinstance(out, LBytes) else len(out.items)
    return binop("+", binop("-", w.pre["value"].n, k), ite(truth_val(w.pre["bu"].fields["_done"]), 0, 1))


# ---- the resynchronisation loop of the real _retransmit -------------------------------------------------------------
def _r_inv(interp, fr):
    w = interp.l13l
    bu, srv, value = w.pre["bu"], w.pre["srv"], w.pre["value"]
    f, s = bu.fields, srv.fields
    k = f["pos"]
    pend = truth_val(s["pending"])
    c = _common(f, s, value, k)
    c.update({"acknowledged-and-waiting-for-segment-1": And(S.eq(f["_ackseq"], 0), Not(f["_done"]), S.eq(s["phase"], 2),
                                                           compare("<", k, value.n)),
              "wire": And(compare(">=", s["seq"], 0), compare("<=", s["seq"], 127), compare(">=", s["base"], 0)),
              # the acknowledgement is still waiting behind stale segments (numbered 2 or more), and names the resume point
              "pending-ack-names-the-resume-point": Implies(pend, And(
                  S.eq(binop("+", s["base"], binop("*", s["pend_ack"], 7)), k), compare(">=", s["pend_ack"], 0),
                  S.eq(s["pend_blk"], 127), Or(truth_val(s["exhausted"]), compare(">=", s["seq"], 1)))),
              # or the sub-block was restarted at the resume point and nothing of it was accepted yet
              "restarted-at-the-resume-point": Implies(Not(pend), And(S.eq(s["base"], k), S.eq(s["blksize"], 127)))})
    return c


def _r_havoc(interp, fr):
    w = interp.l13l
    bu, srv, value = w.pre["bu"], w.pre["srv"], w.pre["value"]
    ctx = interp.ctx
    f, s = bu.fields, srv.fields
    k = f["pos"]
    s["seq"] = ctx.fresh_int("r_seq", 0, 127)
    s["exhausted"] = bool(ctx.fresh_bool("r_exhausted"))
    if bool(ctx.fresh_bool("r_pending")):
        A = ctx.fresh_int("r_ack", 0, 127)
        ctx.assume(compare(">=", binop("-", k, binop("*", A, 7)), 0))
        s["pending"] = True
        s["pend_ack"] = A
        s["pend_blk"] = 127
        s["base"] = binop("-", k, binop("*", A, 7))
        s["blksize"] = ctx.fresh_int("r_oldblk", 1, 127)
    else:
        s["pending"] = False
        s["base"] = k
        s["blksize"] = 127
    for nm in ("response", "res_command", "seqno"):
        fr.locals.pop(nm, None)


class _Base(Contract):
    target = "canopen.sdo.client:BlockUploadStream.read"
    props = ("C13",)
    xcheck_n = 4
    max_paths = 6000
    budget_s = 1500
    exits = ("return", "raise:SdoCommunicationError")

    def setup(self, w, case):
        req_crc, srv_crc = case
        index, sub = w.int("index", 0, 0xFFFF), w.int("sub", 0, 0xFF)
        value = w.lbytes("value", 1, (1 << 32) - 1)
        srv = w.obj("env.blockserver:LossyBlockUploadServer", index=index, subindex=sub, value=value, server_crc=srv_crc, use_crc=False,
                    base=0, seq=0, exhausted=False, blksize=0, pending=False, pend_ack=0, pend_blk=0, phase=0, last_len=0,
                    rx_cobid=0x601)
        if not w.native:
            w.interp.l13l = w
            if isinstance(value, LBytes):
                w.assume(crc_prefix_zero(value))
        bu = w.run(Call(("new", BU), [srv, index, sub, req_crc]))
        w.pre.update(bu=bu, srv=srv, value=value)
        return Call(("func", "env.drivers", "upload_all_and_close"), [bu])


@contract
class BlockUploadLossTheorem(_Base):
    id = "BlockUploadLossTheorem"
    functions = ("canopen.sdo.client:BlockUploadStream.__init__", "canopen.sdo.client:BlockUploadStream._ack_block",
                 "canopen.sdo.client:BlockUploadStream._retransmit", "canopen.sdo.client:BlockUploadStream._end_upload",
                 "canopen.sdo.client:BlockUploadStream.close", "canopen.sdo.base:CrcXmodem.process", "canopen.sdo.base:CrcXmodem.final")
    cases = {"crc/crc": (True, True), "no-crc": (False, False)}
    loop_specs = {("upload_all", 0): LoopSpec(_inv, _havoc, _variant),
                  ("BlockUploadStream._retransmit", 0): LoopSpec(_r_inv, _r_havoc, None)}
    __doc__ = __doc__

    @staticmethod
    def ok(s):
        p = s.pre
        if any(e[0] == "illegal" for e in s.ev):
            return False
        if not s.returned:
            return s.raised(COMM)
        if any(e[0] == "abort" for e in s.ev):
            return False
        closed = s.w.get(p["srv"], "phase") == 6
        if isinstance(p["value"], LBytes):
            return And(_prefix_or_empty(s.ret, p["value"], p["value"].n), closed)
        return And(S.is_byteslike(s.ret) and S.same_bytes(s.ret, p["value"]), closed)

    ensures = {"exactly-the-value-or-an-error_never-anything-else": lambda s: BlockUploadLossTheorem.ok(s)}

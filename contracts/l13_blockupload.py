"""Whole-transfer theorem for the real BlockUploadStream against a conformant block server without loss
(env/blockserver.py), by an inductive loop invariant: for every value (1 .. 2**32-1 bytes) the bytes collected by
readall() are exactly the server's value, every client frame (start, one acknowledgement per sub-block with the right
sequence number, end confirmation) is legal in its protocol step, and with CRC negotiated the check passes."""
import z3
from pyvc.engine import Contract, contract
from pyvc.worlds import Call
from pyvc import spec as S
from pyvc.values import And, Or, Not, Implies, Iff, compare, ite, binop, SObj, SBytes, LBytes, truth_val, mk_bool
from pyvc.interp import LoopSpec
from pyvc.models import crc_prefix, crc_prefix_step, crc_prefix_zero
from contracts.l01_transfers import _same_prefix, _prefix_or_empty

BU = "canopen.sdo.client:BlockUploadStream"


def _inv(interp, fr):
    w = interp.l13
    bu, srv, value = w.pre["bu"], w.pre["srv"], w.pre["value"]
    f, s = bu.fields, srv.fields
    out = fr.locals["out"]
    k = s["pos"]
    done = truth_val(f["_done"])
    crc_on = truth_val(f["crc_supported"])
    c = {"collected-is-prefix": _prefix_or_empty(out, value, k),
         "range": And(compare(">=", k, 0), compare("<=", k, value.n)),
         "whole-segments-so-far": Implies(Not(done), compare("==", binop("%", k, 7), 0)) if False else True,
         "sequence-numbers-agree": And(S.eq(f["_ackseq"], s["seq"]), compare(">=", s["seq"], 0), compare("<", s["seq"], 127)),
         "block-size": And(S.eq(s["blksize"], 127), S.eq(f.get("blksize", 127), 127)),
         "crc-flag-agrees": Iff(crc_on, s["use_crc"]),
         "crc-so-far": Implies(crc_on, S.eq(f["_crc"].fields["_value"], crc_prefix(value, k))),
         "no-error": Not(f["_error"]),
         "not-done-means-sending": Implies(Not(done), And(S.eq(s["phase"], 2), Not(s["finished"]), compare("<", k, value.n))),
         "done-means-end-frame-delivered": Implies(done, And(S.eq(s["phase"], 5), compare("==", k, value.n)))}
    return c


def _havoc(interp, fr):
    w = interp.l13
    bu, srv, value = w.pre["bu"], w.pre["srv"], w.pre["value"]
    ctx = interp.ctx
    k = ctx.fresh_int("h_k", 0, (1 << 32) - 1)
    seq = ctx.fresh_int("h_seq", 0, 126)
    srv.fields["pos"] = k
    srv.fields["seq"] = seq
    bu.fields["_ackseq"] = seq
    bu.fields["pos"] = ctx.fresh_int("h_pos", 0, 1 << 33)
    bu.fields["_crc"].fields["_value"] = crc_prefix(value, k)
    fr.locals["out"] = LBytes(value.arr, value.off, k, True)
    if bool(ctx.fresh_bool("h_done")):
        bu.fields["_done"] = True
        srv.fields["phase"] = 5
        srv.fields["finished"] = True
    else:
        bu.fields["_done"] = False
        srv.fields["phase"] = 2
        srv.fields["finished"] = False
    # instances of the defining recursion of crc_prefix needed by one iteration: a full segment, or the last 1..7 bytes
    for m in range(1, 8):
        ctx.assume(crc_prefix_step(value, k, m))
    del ctx.events[:]
    ctx.emit("havoc-trace")


def _variant(interp, fr):
    w = interp.l13
    return binop("+", binop("-", w.pre["value"].n, w.pre["srv"].fields["pos"]),
                 ite(truth_val(w.pre["bu"].fields["_done"]), 0, 1))


@contract
class BlockUploadTheorem(Contract):
    target = "canopen.sdo.client:BlockUploadStream.read"
    id = "BlockUploadTheorem"
    functions = ("canopen.sdo.client:BlockUploadStream.__init__", "canopen.sdo.client:BlockUploadStream._ack_block",
                 "canopen.sdo.client:BlockUploadStream._end_upload", "canopen.sdo.client:BlockUploadStream.close",
                 "canopen.sdo.base:CrcXmodem.process", "canopen.sdo.base:CrcXmodem.final")
    props = ("C13",)
    cases = {"crc/crc": (True, True), "crc-requested/server-without": (True, False), "no-crc-requested/server-with": (False, True)}
    loop_specs = {("upload_all", 0): LoopSpec(_inv, _havoc, _variant)}
    xcheck_n = 4
    max_paths = 3000
    __doc__ = __doc__

    def setup(self, w, case):
        req_crc, srv_crc = case
        index, sub = w.int("index", 0, 0xFFFF), w.int("sub", 0, 0xFF)
        value = w.lbytes("value", 1, (1 << 32) - 1)
        srv = w.obj("env.blockserver:BlockUploadServer", index=index, subindex=sub, value=value, server_crc=srv_crc, use_crc=False,
                    pos=0, seq=0, blksize=0, phase=0, finished=False, rx_cobid=0x601, last_len=0)
        if not w.native:
            w.interp.l13 = w
            if isinstance(value, LBytes):
                w.assume(crc_prefix_zero(value))
        bu = w.run(Call(("new", BU), [srv, index, sub, req_crc]))
        w.pre.update(bu=bu, srv=srv, value=value)
        return Call(("func", "env.drivers", "upload_all_and_close"), [bu])

    @staticmethod
    def ok(s):
        p = s.pre
        if not s.returned or any(e[0] in ("illegal", "abort") for e in s.ev):
            return False
        closed = s.w.get(p["srv"], "phase") == 6
        if isinstance(p["value"], LBytes):
            return And(_prefix_or_empty(s.ret, p["value"], p["value"].n), closed)
        return And(S.is_byteslike(s.ret) and S.same_bytes(s.ret, p["value"]), closed)

    ensures = {"returns-exactly-the-value_acks-legal_transfer-closed": lambda s: BlockUploadTheorem.ok(s)}

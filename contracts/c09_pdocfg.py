"""C09 — saving a PDO configuration follows the safe order and reads back identically (PdoMap.save / read)."""
from pyvc.engine import Contract, contract
from pyvc.worlds import Call
from pyvc import spec as S
from pyvc.values import And, Or, Not, Implies, Iff, compare, ite, binop, SObj, SBytes, truth_val
from contracts.c04_codec import OD

PM = "canopen.pdo.base:PdoMap"
INVALID = 1 << 31
NO_RTR = 1 << 30


def mk_device(w, n_prior=None):
    has3, has5, has6 = w.bool("has3"), w.bool("has5"), w.bool("has6")
    dev = w.obj("env.pdodev:Device", cob=w.int("dev_cob", 0, 0xFFFFFFFF), trans_type=w.int("dev_tt", 0, 255),
                inhibit=w.int("dev_inhibit", 0, 0xFFFF), event=w.int("dev_event", 0, 0xFFFF), sync_start=w.int("dev_sync", 0, 255),
                count=w.int("dev_count", 0, 8), entries=w.list([w.int("dev_e%d" % i, 0, 0xFFFFFFFF) for i in range(8)]),
                has3=has3, has5=has5, has6=has6)
    com = w.obj("env.pdodev:Record", dev=dev, kind="com")
    mp = w.obj("env.pdodev:Record", dev=dev, kind="map")
    return dev, com, mp, (w.get(dev, "has3"), w.get(dev, "has5"), w.get(dev, "has6"))


def mk_pdomap(w, com, mp, net, cfg=None, n=0):
    node = w.obj("env.pdodev:PdoNode", network=net, node=w.obj("env.pdodev:NodeOfPdo", object_dictionary=w.obj("env.pdodev:AnyOd")))
    f = dict(pdo_node=node, com_record=com, map_array=mp, enabled=False, cob_id=None, predefined_cob_id=None, rtr_allowed=True,
             trans_type=None, inhibit_time=None, event_timer=None, sync_start_value=None, map=w.list([]), length=0,
             data=w.bytearray([]), timestamp=None, period=None, callbacks=w.list([]), receive_condition=w.new_condition(),
             is_received=False, _task=None)
    if cfg:
        f.update(cfg)
    return w.obj(PM, **f)


def mk_vars(w, n):
    out = []
    for i in range(n):
        # with 8 entries the sub-indexes are taken non-zero (sub-index 0 is covered by the smaller mappings): the
        # `if subindex and ...` branch in add_variable would otherwise multiply the paths by 2 per entry
        idx, sub, ln = w.int("m%d_index" % i, 1, 0xFFFF), w.int("m%d_sub" % i, 1 if n > 2 else 0, 255), w.int("m%d_len" % i, 1, 64)
        od = w.obj(OD, data_type=0x05, name="obj", index=idx, subindex=sub, parent=None)
        out.append((w.obj("canopen.pdo.base:PdoVariable", od=od, pdo_parent=None, offset=0, length=ln, name="obj", index=idx,
                          subindex=sub), idx, sub, ln))
    return out


def mk_config(w, n, flags, optional=True):
    has3, has5, has6 = flags
    if not optional:
        cfg = dict(cob_id=w.int("cob_id", 0, 0x1FFFFFFF), enabled=w.bool("enabled"), rtr_allowed=w.bool("rtr_allowed"),
                   trans_type=w.int("trans_type", 0, 253), inhibit_time=None, event_timer=None, sync_start_value=None)
        vs = mk_vars(w, n)
        cfg["map"] = w.list([v[0] for v in vs])
        return cfg, vs
    cfg = dict(cob_id=w.int("cob_id", 0, 0x1FFFFFFF), enabled=w.bool("enabled"), rtr_allowed=w.bool("rtr_allowed"),
               trans_type=(w.int("trans_type", 0, 255) if w.bool("tt_set") else None),
               inhibit_time=(w.int("inhibit", 0, 0xFFFF) if (bool(has3) and w.bool("inh_set")) else None),
               event_timer=(w.int("event", 0, 0xFFFF) if (bool(has5) and w.bool("ev_set")) else None),
               sync_start_value=(w.int("sync", 0, 255) if (bool(has6) and w.bool("sync_set")) else None))
    vs = mk_vars(w, n)
    cfg["map"] = w.list([v[0] for v in vs])
    return cfg, vs


def writes(s):
    return [e for e in s.ev if e[0] == "sdo_write"]


@contract
class PdoSave(Contract):
    """save() against a strict device in any prior state: nothing is refused; the first write invalidates the PDO
    (sub 1 with bit 31 set, bit 30 iff RTR is not allowed); the mapping count is zeroed before any entry, the entries
    are index<<16 | sub<<8 | length in order, the count is set after them; the PDO is validated last and only if enabled;
    optional parameters are written only if set; the node subscribes to the COB-ID exactly when enabled"""
    target = "canopen.pdo.base:PdoMap.save"
    functions = ("canopen.pdo.base:PdoMap.subscribe", "canopen.pdo.base:PdoMap._update_data_size")
    props = ("C09",)
    cases = {"n=%d" % n: n for n in (0, 1, 2, 8)}
    cases_thorough = {"n=%d" % n: n for n in (3, 4, 5, 6, 7)}
    max_paths = 3000

    def setup(self, w, case):
        dev, com, mp, flags = mk_device(w)
        # the optional communication parameters (set or not, present or not) are exercised with the small mappings
        cfg, vs = mk_config(w, case, flags, optional=(case <= 2))
        if cfg["trans_type"] is not None and case > 2 and w.bool("tt_unset"):
            cfg["trans_type"] = None
        net = w.obj("env.net:Net")
        pm = mk_pdomap(w, com, mp, net, cfg)
        w.pre.update(dev=dev, pm=pm, cfg=cfg, vs=vs, n=case)
        return Call(("method", pm, "save"), [])

    def observe(self, w):
        d = w.pre["dev"]
        return {"cob": w.get(d, "cob"), "count": w.get(d, "count"), "entries": w.get(d, "entries"), "tt": w.get(d, "trans_type")}

    @staticmethod
    def ok(s):
        p = s.pre
        cfg, vs, n = p["cfg"], p["vs"], p["n"]
        g = s.w.get
        if not s.returned or any(e[0] == "refused" for e in s.ev):
            return False
        ws = writes(s)
        if not ws:
            return False
        flagbits = ite(cfg["rtr_allowed"], 0, NO_RTR)
        first = ws[0]
        c = [first[1] == "com" and first[2] == 1, S.eq(first[3], binop("|", binop("|", cfg["cob_id"], INVALID), flagbits))]
        # optional parameters only if set, with their values
        for sub, key in ((2, "trans_type"), (3, "inhibit_time"), (5, "event_timer"), (6, "sync_start_value")):
            w_ = [e for e in ws if e[1] == "com" and e[2] == sub]
            if cfg[key] is None:
                c.append(len(w_) == 0)
            else:
                c.append(len(w_) == 1 and S.eq(w_[0][3], cfg[key]))
        mw = [e for e in ws if e[1] == "map"]
        if len(mw) != n + 2:
            return False
        c += [mw[0][2] == 0, S.eq(mw[0][3], 0), mw[-1][2] == 0, S.eq(mw[-1][3], n)]
        for i in range(n):
            _, idx, sub, ln = vs[i]
            c += [mw[1 + i][2] == i + 1,
                  S.eq(mw[1 + i][3], binop("|", binop("|", binop("<<", idx, 16), binop("<<", sub, 8)), ln))]
        # all communication parameters and the whole mapping are written between invalidation and validation
        last = ws[-1]
        subs = [e for e in s.ev if e[0] == "subscribe"]
        if bool(cfg["enabled"]):
            c += [last[1] == "com" and last[2] == 1, S.eq(last[3], binop("|", cfg["cob_id"], flagbits)),
                  len([e for e in ws if e[1] == "com" and e[2] == 1]) == 2,
                  len(subs) == 1 and S.eq(subs[0][1], cfg["cob_id"]) and s.ev[-1][0] == "subscribe"]
        else:
            c += [len([e for e in ws if e[1] == "com" and e[2] == 1]) == 1, len(subs) == 0]
        dev = p["dev"]
        c.append(Iff(compare("==", binop("&", g(dev, "cob"), INVALID), 0), cfg["enabled"]))
        return And([truth_val(x) for x in c])

    ensures = {"safe-order_encodings_nothing-refused": lambda s: PdoSave.ok(s)}


@contract
class PdoSaveRead(Contract):
    """save(cfg) on one node object, then read() into a fresh node object from the same strict device: same COB-ID,
    flags, transmission type and mapping (and for transmission types 254/255 the same inhibit time, event timer and SYNC
    start value); the fresh node is subscribed to the COB-ID exactly when the PDO is enabled"""
    target = "canopen.pdo.base:PdoMap.read"
    functions = ("canopen.pdo.base:PdoMap.save", "canopen.pdo.base:PdoMap.clear", "canopen.pdo.base:PdoMap.add_variable",
                 "canopen.pdo.base:PdoMap._get_variable", "canopen.pdo.base:PdoMap.subscribe",
                 "canopen.pdo.base:PdoVariable.__init__", "canopen.variable:Variable.__init__")
    props = ("C09",)
    cases = {"n=%d" % n: n for n in (0, 1, 2, 8)}
    cases_thorough = {"n=%d" % n: n for n in (3, 4, 5, 6, 7)}
    max_paths = 3000

    def setup(self, w, case):
        dev, com, mp, flags = mk_device(w)
        cfg, vs = mk_config(w, case, flags, optional=(case == 0))
        if cfg["trans_type"] is None:
            cfg["trans_type"] = w.int("trans_type", 0, 255)
        net_a, net_b = w.obj("env.net:Net"), w.obj("env.net:Net")
        a = mk_pdomap(w, com, mp, net_a, cfg)
        b = mk_pdomap(w, com, mp, net_b)
        w.pre.update(dev=dev, a=a, b=b, cfg=cfg, vs=vs, n=case)
        return Call(("func", "env.drivers", "save_then_read"), [a, b])

    @staticmethod
    def ok(s):
        p = s.pre
        cfg, vs, n, b = p["cfg"], p["vs"], p["n"], p["b"]
        g = s.w.get
        if not s.returned or any(e[0] == "refused" for e in s.ev):
            return False
        c = [S.eq(g(b, "cob_id"), cfg["cob_id"]), Iff(g(b, "enabled"), cfg["enabled"]),
             Iff(g(b, "rtr_allowed"), cfg["rtr_allowed"]), S.eq(g(b, "trans_type"), cfg["trans_type"])]
        m = g(b, "map")
        if len(m.items) != n:
            return False
        off = 0
        for i in range(n):
            _, idx, sub, ln = vs[i]
            f = m.items[i].fields
            c += [S.eq(f["index"], idx), S.eq(f["subindex"], sub), S.eq(f["length"], ln), S.eq(f["offset"], off)]
            off = binop("+", off, ln)
        c.append(S.eq(g(b, "length"), off))
        ev_driven = compare(">=", cfg["trans_type"], 254)
        for key in ("inhibit_time", "event_timer", "sync_start_value"):
            if cfg[key] is not None:
                c.append(Implies(ev_driven, S.eq(g(b, key), cfg[key]) if g(b, key) is not None else False))
        subs_b = [e for e in s.ev if e[0] == "subscribe"]
        n_exp = ite(cfg["enabled"], 2, 0)          # once by save() on the first node, once by read() on the fresh one
        c.append(S.eq(len(subs_b), n_exp))
        return And([truth_val(x) for x in c])

    ensures = {"reads-back-identically": lambda s: PdoSaveRead.ok(s)}


@contract
class PdoReadFromOd(Contract):
    """read(from_od=True): every parameter is the dictionary's ParameterValue (DCF) when there is one — also when it is
    0 — and the DefaultValue (EDS) otherwise; nothing is read from the device"""
    target = "canopen.pdo.base:PdoMap.read"
    id = "PdoReadFromOd"
    props = ("C09",)
    max_paths = 30000

    def setup(self, w, case):
        def param(name, lo, hi):
            val = w.int(name + "_value", lo, hi) if w.bool(name + "_has_value") else None
            dfl = w.int(name + "_default", lo, hi)
            eff = val if val is not None else dfl
            return w.obj("env.pdodev:OdParam", od=w.obj("env.pdodev:OdEntry", value=val, default=dfl)), eff
        cobp, cob = param("cob", 0, 0xFFFFFFFF)
        ttp, tt = param("tt", 0, 253)
        cntp, cnt = param("count", 0, 1)
        e1p, e1 = param("entry1", 0, 0xFFFFFFFF)
        com = w.obj("env.pdodev:OdRecord", params=w.dict({1: cobp, 2: ttp}))
        mp = w.obj("env.pdodev:OdRecord", params=w.dict({0: cntp, 1: e1p}))
        net = w.obj("env.net:Net")
        pm = mk_pdomap(w, com, mp, net)
        w.pre.update(pm=pm, cob=cob, tt=tt, cnt=cnt, e1=e1)
        return Call(("method", pm, "read"), [], {"from_od": True})

    @staticmethod
    def ok(s):
        p = s.pre
        g = s.w.get
        pm = p["pm"]
        if not s.returned or any(e[0] == "sdo_read" for e in s.ev):
            return False
        c = [S.eq(g(pm, "cob_id"), binop("&", p["cob"], 0x1FFFFFFF)),
             Iff(g(pm, "enabled"), compare("==", binop("&", p["cob"], INVALID), 0)),
             Iff(g(pm, "rtr_allowed"), compare("==", binop("&", p["cob"], NO_RTR), 0)), S.eq(g(pm, "trans_type"), p["tt"])]
        m = g(pm, "map").items
        idx, sub, ln = binop(">>", p["e1"], 16), binop("&", binop(">>", p["e1"], 8), 0xFF), binop("&", p["e1"], 0x7F)
        mapped = And(compare("==", p["cnt"], 1), compare("!=", idx, 0), compare("!=", ln, 0))
        if bool(mapped):
            if len(m) != 1:
                return False
            f = m[0].fields
            c += [S.eq(f["index"], idx), S.eq(f["length"], ln)]
        else:
            c.append(len(m) == 0)
        return And([truth_val(x) for x in c])

    ensures = {"dcf-value-then-default": lambda s: PdoReadFromOd.ok(s)}


PRESENT = {"1-4": (0, 1, 2, 3), "only-1": (0,), "gap-1-3": (0, 2), "only-2": (1,), "1-5": (0, 1, 2, 3, 4), "1-and-512": (0, 511),
           "none": ()}


@contract
class PdoMapsInit(Contract):
    """PdoMaps: one map per PDO communication record present in the dictionary — whatever their numbering (gaps, not
    starting at 1, up to number 512) — keyed by PDO number; the first four get the pre-defined COB-ID base + 0x100*(n-1) + node id"""
    target = "canopen.pdo.base:PdoMaps.__init__"
    functions = ("canopen.pdo.base:PdoMap.__init__",)
    props = ("C09",)
    cases = {"%s/%s" % (k, d): (v, d) for k, v in PRESENT.items() for d in ("rx", "tx")}

    def setup(self, w, case):
        nums, direction = case
        com, mp, base = (0x1400, 0x1600, 0x200) if direction == "rx" else (0x1800, 0x1A00, 0x180)
        nid = w.int("node_id", 1, 127)
        node = w.obj("env.pdodev:NodeWithOd", id=nid, object_dictionary=w.obj("env.pdodev:SetOd", present=frozenset(com + n for n in nums)),
                     sdo=w.obj("env.pdodev:SdoOfNode"))
        pdo_node = w.obj("env.pdodev:PdoNodeOf", node=node, network=None)
        w.pre.update(nums=nums, base=base, nid=nid, com=com, mp=mp)
        return Call(("new", "canopen.pdo.base:PdoMaps"), [com, mp, pdo_node, base])

    @staticmethod
    def ok(s):
        p = s.pre
        if not s.returned:
            return False
        maps = s.ret.fields["maps"]
        if sorted(maps.d.keys()) != [n + 1 for n in p["nums"]]:
            return False
        c = []
        for n in p["nums"]:
            m = maps.d[n + 1].fields
            c.append(m["com_record"] == ("record", p["com"] + n) and m["map_array"] == ("record", p["mp"] + n))
            if n < 4:
                c.append(S.eq(m["predefined_cob_id"], binop("+", p["base"] + n * 0x100, p["nid"])))
            else:
                c.append(m["predefined_cob_id"] is None)
        return And([truth_val(x) for x in c])

    ensures = {"one-map-per-declared-pdo": lambda s: PdoMapsInit.ok(s)}

"""C13 — SDO block upload (BlockUploadStream): initiate/start, in-order segments, acknowledgements, end, CRC."""
from pyvc.engine import Contract, contract
from pyvc.worlds import Call
from pyvc import spec as S
from pyvc.values import And, Or, Not, Implies, Iff, compare, ite, binop, SObj, SBytes, LBytes, truth_val
from pyvc.models import crc_fold
from contracts.c01_client import requests, last_outcome, propagated, mux, COMM, ABORT
from contracts.c12_blockdown import sends, aborts, outcomes

BU = "env.blockclient:BuStream"
REAL_BU = "canopen.sdo.client:BlockUploadStream"


@contract
class BuInit(Contract):
    """initiate block upload [0xA0 | cc<<2, mux, blksize 127, pst 0, 0, 0]; response must be scs=6 with the same
    multiplexer (else error, and abort 0x05040001 for a wrong command); the size is taken from it; a CRC is in force
    exactly when the client asked for it and the server supports it (CiA 301); then the start frame [0xA3, 0*7] is sent"""
    target = "canopen.sdo.client:BlockUploadStream.__init__"
    props = ("C13", "C07")
    exits = ("return", "raise:SdoCommunicationError", "raise:SdoAbortedError")

    def setup(self, w, case):
        cl = w.obj("env.blockclient:BlockClient", rx_cobid=0x601)
        index, sub, crc = w.int("index", 0, 0xFFFF), w.int("sub", 0, 0xFF), w.bool("request_crc")
        w.pre.update(index=index, sub=sub, crc=crc)
        return Call(("new", REAL_BU), [cl, index, sub, crc])

    @staticmethod
    def ok(s):
        p = s.pre
        reqs = requests(s)
        if len(reqs) != 1:
            return False
        fr = S.bytes_are(reqs[0], [binop("|", 0xA0, ite(p["crc"], 4, 0))] + mux(p["index"], p["sub"]) + [127, 0, 0, 0])
        pr = propagated(s)
        if pr is not None:
            return And(fr, pr, len(sends(s)) == 0)
        R = last_outcome(s)[1]
        c = S.byte(R, 0)
        if not bool(compare("==", binop("&", c, 0xE0), 0xC0)):
            return And(fr, s.raised(COMM), aborts(s) == [0x05040001], len(sends(s)) == 0)
        if not bool(And(compare("==", S.le_uint(S.sub(R, 1, 3)), p["index"]), compare("==", S.byte(R, 3), p["sub"]))):
            return And(fr, s.raised(COMM), len(sends(s)) == 0)
        if not s.returned:
            return False
        st = s.ret.fields
        sr = sends(s)
        sized = compare("!=", binop("&", c, 2), 0)
        size_ok = ite(sized, S.eq(st.get("size"), S.le_uint(S.sub(R, 4, 8))), st.get("size") is None) if "size" in st else Not(sized)
        return And(fr, len(sr) == 1 and S.bytes_are(sr[0], [0xA3, 0, 0, 0, 0, 0, 0, 0]),
                   Iff(st.get("crc_supported", False), And(p["crc"], compare("!=", binop("&", c, 4), 0))), size_ok, S.eq(st["_ackseq"], 0),
                   S.eq(st["pos"], 0), Not(st["_done"]), Not(st["_error"]), S.eq(st["_crc"].fields["_value"], 0))

    ensures = {"initiate-and-start-frames_checks": lambda s: BuInit.ok(s)}


def mk_bu(w, cls=BU):
    cl = w.obj("env.blockclient:BlockClient", rx_cobid=0x601)
    crcv = w.int("crc_value", 0, 0xFFFF)
    ack = w.int("ackseq", 0, 126)
    bu = w.obj(cls, sdo_client=cl, pos=w.int("pos", 0, 0xFFFFFFFF), _done=w.bool("done"), _ackseq=ack, _error=False,
               _crc=w.obj("canopen.sdo.base:CrcXmodem", _value=crcv), _server_crc=None, crc_supported=w.bool("crc_supported"),
               blksize=127, size=None)
    g = w.get
    w.pre.update(bu=bu, crc0=crcv, ack=ack, pos=g(bu, "pos"), done=g(bu, "_done"), crcs=g(bu, "crc_supported"))
    return bu


@contract
class BuRead(Contract):
    """read(7): data is handed out only from the segment whose sequence number is ackseq+1 (anything else goes through
    retransmission); a full sub-block or the last segment is acknowledged with [0xA2, ackseq, blksize]; the last
    segment is trimmed by the count of unused bytes announced in the end frame; with CRC negotiated a checksum
    mismatch ends in abort 0x05040004 + error instead of data"""
    target = "canopen.sdo.client:BlockUploadStream.read"
    functions = ("canopen.sdo.client:BlockUploadStream._ack_block", "canopen.sdo.client:BlockUploadStream._end_upload",
                 "canopen.sdo.base:CrcXmodem.process", "canopen.sdo.base:CrcXmodem.final")
    props = ("C13",)
    exits = ()
    max_paths = 4000

    def setup(self, w, case):
        bu = mk_bu(w)
        return Call(("method", bu, "read"), [7])

    def observe(self, w):
        bu = w.pre["bu"]
        return {"ackseq": w.get(bu, "_ackseq"), "pos": w.get(bu, "pos"), "done": w.get(bu, "_done")}

    @staticmethod
    def ok(s):
        p = s.pre
        g = s.w.get
        bu = p["bu"]
        if bool(p["done"]):
            return And(s.returned, S.is_bytes(s.ret, 0), len(s.ev) == 0)
        oc = outcomes(s)
        if not oc:
            return False
        # which frame is the accepted segment?
        first = oc[0]
        retrans = [e for e in s.ev if e[0] == "retransmitted"]
        failed_retrans = any(e[0] == "retransmit" for e in s.ev) and not retrans
        if first[0] == "aborted":
            return And(s.raised(ABORT), S.eq(s.code, first[1]))
        seg = None
        if first[0] == "response" and not any(e[0] == "retransmit" for e in s.ev):
            if not bool(compare("==", binop("&", S.byte(first[1], 0), 0x7F), binop("+", p["ack"], 1))):
                return False                       # out-of-order segment must not be accepted directly
            seg = first[1]
        elif retrans:
            seg = retrans[0][1]
            # retransmission is requested exactly when the first frame is missing or out of order
            if first[0] == "response" and bool(compare("==", binop("&", S.byte(first[1], 0), 0x7F), binop("+", p["ack"], 1))):
                return False
        elif failed_retrans:
            return s.raised(COMM)
        if seg is None:
            return False
        c = S.byte(seg, 0)
        seqno = binop("&", c, 0x7F)
        last = compare("!=", binop("&", c, 0x80), 0)
        acks = [x for x in sends(s) if bool(compare("==", S.byte(x, 0), 0xA2))]
        need_ack = Or(compare(">=", seqno, 127), last)
        if bool(need_ack):
            if len(acks) != 1 or not bool(And(S.eq(S.byte(acks[0], 1), seqno), S.eq(S.byte(acks[0], 2), 127))):
                return False
        elif acks:
            return False
        if not bool(last):
            crc_exp = ite(p["crcs"], crc_fold(p["crc0"], [S.byte(seg, i) for i in range(1, 8)]), p["crc0"])
            return And(s.returned, S.bytes_are(s.ret, [S.byte(seg, i) for i in range(1, 8)]), S.eq(g(bu, "pos"), binop("+", p["pos"], 7)),
                       Not(g(bu, "_done")), S.eq(g(g(bu, "_crc"), "_value"), crc_exp))
        # last segment: the end frame decides
        end = oc[-1]
        if end is first and not retrans:
            return False
        if end[0] == "aborted":
            return And(s.raised(ABORT), S.eq(s.code, end[1]))
        if end[0] == "silence":
            return s.raised(COMM)
        E = end[1]
        ec = S.byte(E, 0)
        if not bool(And(compare("==", binop("&", ec, 0xE0), 0xC0), compare("==", binop("&", ec, 3), 1))):
            return And(s.raised(COMM), aborts(s) == [0x05040001])
        n = s.w.ctx.choose(binop("&", binop(">>", ec, 2), 7), range(0, 8))
        data = [S.byte(seg, i) for i in range(1, 8 - n)]
        if bool(p["crcs"]):
            crc = crc_fold(p["crc0"], data)
            if bool(compare("!=", crc, S.le_uint(S.sub(E, 1, 3)))):
                return And(s.raised(COMM), aborts(s) == [0x05040004])
        return And(s.returned, S.bytes_are(s.ret, data), truth_val(g(bu, "_done")),
                   S.eq(g(bu, "pos"), binop("+", p["pos"], len(data))), len(aborts(s)) == 0)

    ensures = {"in-order-only_ack_trim_crc": lambda s: BuRead.ok(s)}


@contract
class BuAckBlock(Contract):
    """_ack_block(): acknowledges [0xA2, ackseq, blksize]; the server then starts a new sub-block whose sequence
    numbers restart at 1 (CiA 301), so the next segment expected is number 1 — after a complete sub-block and after a
    partial one (retransmission request) alike"""
    target = "canopen.sdo.client:BlockUploadStream._ack_block"
    props = ("C13",)

    def setup(self, w, case):
        bu = mk_bu(w, REAL_BU)
        w.setfield(bu, "_ackseq", w.int("ackseq_any", 0, 127))
        w.pre.update(ack=w.get(bu, "_ackseq"))
        return Call(("method", bu, "_ack_block"), [])

    @staticmethod
    def ok(s):
        p = s.pre
        sr = sends(s)
        return And(s.returned, len(sr) == 1 and S.bytes_are(sr[0], [0xA2, p["ack"], 127, 0, 0, 0, 0, 0]),
                   S.eq(s.w.get(p["bu"], "_ackseq"), 0))

    ensures = {"ack-frame_next-sub-block-restarts-at-1": lambda s: BuAckBlock.ok(s)}


@contract
class BuRetransmit(Contract):
    """_retransmit(): acknowledges what arrived in order, then accepts only segment number 1 of the new sub-block
    within the deadline; otherwise abort 0x05040000 + error (loop cut after 2 iterations)"""
    target = "canopen.sdo.client:BlockUploadStream._retransmit"
    props = ("C13",)
    loop_cuts = {"BlockUploadStream._retransmit": 2}
    xcheck = False
    exits = ()

    def setup(self, w, case):
        bu = mk_bu(w, REAL_BU)
        return Call(("method", bu, "_retransmit"), [])

    @staticmethod
    def ok(s):
        p = s.pre
        sr = sends(s)
        if not sr or not bool(S.bytes_are(sr[0], [0xA2, p["ack"], 127, 0, 0, 0, 0, 0])):
            return False
        if s.returned:
            return And(S.is_bytes(s.ret, 8), compare("==", binop("&", S.byte(s.ret, 0), 0x7F), 1),
                       S.eq(s.w.get(p["bu"], "_ackseq"), 1))
        return Or(s.raised(COMM), s.raised(ABORT))

    ensures = {"accepts-only-segment-1-of-the-new-sub-block": lambda s: BuRetransmit.ok(s)}


@contract
class BuClose(Contract):
    """close(): the end frame [0xA1, 0*7] is sent only after a complete, error-free transfer"""
    target = "canopen.sdo.client:BlockUploadStream.close"
    props = ("C13",)

    def setup(self, w, case):
        bu = mk_bu(w, REAL_BU)
        w.setfield(bu, "_error", w.bool("error"))
        w.pre.update(err=w.get(bu, "_error"))
        return Call(("method", bu, "close"), [])

    @staticmethod
    def ok(s):
        p = s.pre
        sr = sends(s)
        if bool(And(p["done"], Not(p["err"]))):
            return And(s.returned, len(sr) == 1 and S.bytes_are(sr[0], [0xA1, 0, 0, 0, 0, 0, 0, 0]))
        return And(s.returned, len(sr) == 0)

    ensures = {"end-frame-only-if-clean": lambda s: BuClose.ok(s)}

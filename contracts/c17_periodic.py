"""C17 — periodic transmissions: at most one live task per producer, carrying the current id/payload/period."""
from pyvc.engine import Contract, contract
from pyvc.worlds import Call
from pyvc import spec as S
from pyvc.values import And, Or, Not, Implies, Iff, compare, ite, binop, SObj, Opaque
from contracts.c10_network import mknet

PMT = "canopen.network:PeriodicMessageTask"


def mk_bus(w, modify):
    return w.obj("env.stubs:BusStubModify" if modify else "env.stubs:BusStub")


def mk_net(w, modify=False, bus=None):
    net, _ = mknet(w, None, bus=bus if bus is not None else mk_bus(w, modify), subs=w.dict({}))
    return net


def bus_of(w, net):
    return w.get(net, "bus")


def mk_running(w, net, can_id, data_items, period, modify=False, remote=False):
    """a live periodic task as left behind by an earlier start(): real PeriodicMessageTask + bus task stub"""
    msg = w.obj("can:Message", arbitration_id=can_id, data=w.bytearray(data_items), is_remote_frame=remote,
                is_extended_id=False, is_error_frame=False, timestamp=0.0, channel=None, dlc=len(data_items),
                is_fd=False, is_rx=True) if not w.native else _native_msg(can_id, data_items, remote)
    t = w.obj("env.stubs:TaskStubModify" if modify else "env.stubs:TaskStub", msg=msg, period=period,
              arbitration_id=can_id, payload=w.bytes_of(data_items), remote=remote, extended=False)
    return w.obj(PMT, bus=bus_of(w, net), period=period, msg=msg, _task=t), t


def _native_msg(can_id, data, remote):
    import can
    return can.Message(arbitration_id=can_id, data=bytes(data), is_remote_frame=remote, is_extended_id=False)


def live_after(s, initially):
    """ghost `live` set of bus tasks: initially + started - stopped (by identity)"""
    live = list(initially)
    for e in s.ev:
        if e[0] == "task.start":
            live.append(e[1])
        elif e[0] == "task.stop":
            live = [t for t in live if t is not e[1]]
    return live


def task_sends(s, t, can_id, payload_items, period, remote=False):
    f = t.fields
    it = s.w.interp
    # ... in the frame format the id calls for (extended exactly above 0x7FF; all ids used here are 11-bit)
    return And(compare("==", f["arbitration_id"], can_id), S.bytes_are(f["payload"], payload_items),
               it.equals(f["period"], period), Iff(f["remote"], remote), Iff(f["extended"], compare(">", can_id, 0x7FF)))


# -------------------------------------------------------------------------------------------- SYNC
@contract
class SyncStart(Contract):
    target = "canopen.sync:SyncProducer.start"
    functions = ("canopen.sync:SyncProducer.stop", "canopen.network:Network.send_periodic",
                 "canopen.network:PeriodicMessageTask.__init__", "canopen.network:PeriodicMessageTask.stop")
    props = ("C17",)
    cases = {"fresh-period-arg": (False, 0.25, None), "fresh-period-attr": (False, None, 0.5),
             "restart-period-arg": (True, 0.25, 0.5), "restart-period-attr": (True, None, 0.5),
             "no-period": (False, None, None), "restart-no-period-zero": (True, 0, 0.5)}
    exits = ()

    def setup(self, w, case):
        running, arg, attr = case
        net = mk_net(w)
        old = t0 = None
        if running:
            old, t0 = mk_running(w, net, 0x80, [], attr)
        sp = w.obj("canopen.sync:SyncProducer", network=net, period=attr, _task=old)
        w.pre.update(sp=sp, t0=t0, arg=arg, attr=attr)
        return Call(("method", sp, "start"), [arg])

    @staticmethod
    def ok(s):
        p = s.pre
        period = p["arg"] if p["arg"] is not None else p["attr"]
        live = live_after(s, [p["t0"]] if p["t0"] is not None else [])
        if not period:
            # refused: nothing new may run; (whatever ran before is unchanged)
            return s.raised(ValueError) and all(e[0] != "task.start" for e in s.ev)
        h = s.w.get(p["sp"], "_task")
        return And(s.returned, len(live) == 1, isinstance(h, SObj) and h.fields.get("_task") is live[0],
                   task_sends(s, live[0], 0x80, [], period))

    ensures = {"one-live-with-current-id-data-period": lambda s: SyncStart.ok(s)}


@contract
class SyncStop(Contract):
    target = "canopen.sync:SyncProducer.stop"
    props = ("C17",)
    cases = {"running": True, "idle": False}

    def setup(self, w, case):
        net = mk_net(w)
        old = t0 = None
        if case:
            old, t0 = mk_running(w, net, 0x80, [], 0.5)
        sp = w.obj("canopen.sync:SyncProducer", network=net, period=0.5, _task=old)
        w.pre.update(sp=sp, t0=t0)
        return Call(("method", sp, "stop"), [])

    ensures = {"none-live": lambda s: And(s.returned, len(live_after(s, [s.pre["t0"]] if s.pre["t0"] is not None else [])) == 0)}


@contract
class SyncStopStart(Contract):
    """stop() followed by start(): exactly one live task, the old one is not stopped a second time"""
    target = "canopen.sync:SyncProducer.stop"
    id = "SyncStopStart"
    props = ("C17",)

    def setup(self, w, case):
        net = mk_net(w)
        old, t0 = mk_running(w, net, 0x80, [], 0.5)
        sp = w.obj("canopen.sync:SyncProducer", network=net, period=0.5, _task=old)
        w.pre.update(sp=sp, t0=t0)
        return Call(("func", "env.drivers", "stop_then_start"), [sp])

    ensures = {"one-live": lambda s: And(s.returned, len(live_after(s, [s.pre["t0"]])) == 1,
                                         len([e for e in s.ev if e[0] == "task.stop"]) == 1)}


# -------------------------------------------------------------------------------------------- PDO map
def mk_map(w, net, running, modify=False, period=0.5, nbytes=2):
    cob = w.int("cob_id", 0x181, 0x57F)
    data = w.bytes("data", nbytes, mutable=True)
    old = t0 = None
    if running:
        old, t0 = mk_running(w, net, cob, list(w.bytes("old_payload", nbytes).items) if not w.native
                             else list(w.bytes("old_payload", nbytes)), period, modify)
    node = w.obj("env.stubs:HandlerStub", network=net)
    pm = w.obj("canopen.pdo.base:PdoMap", pdo_node=node, cob_id=cob, data=data, period=period, _task=old,
               enabled=True, rtr_allowed=True, trans_type=None)
    w.pre.update(pm=pm, t0=t0, cob=cob, data=data, data0=w.bytes_of(data), period=period)
    return pm


@contract
class PdoStart(Contract):
    target = "canopen.pdo.base:PdoMap.start"
    functions = ("canopen.pdo.base:PdoMap.stop", "canopen.pdo.base:PdoMap.name")
    props = ("C17", "C15")
    cases = {"fresh-arg": (False, 0.25), "fresh-attr": (False, None), "restart-arg": (True, 0.25),
             "restart-attr": (True, None)}

    def setup(self, w, case):
        running, arg = case
        net = mk_net(w)
        pm = mk_map(w, net, running)
        w.pre.update(arg=arg)
        return Call(("method", pm, "start"), [arg])

    @staticmethod
    def ok(s):
        p = s.pre
        period = p["arg"] if p["arg"] is not None else p["period"]
        live = live_after(s, [p["t0"]] if p["t0"] is not None else [])
        h = s.w.get(p["pm"], "_task")
        return And(s.returned, len(live) == 1, isinstance(h, SObj) and h.fields.get("_task") is live[0],
                   task_sends(s, live[0], p["cob"], [S.byte(p["data0"], i) for i in range(len(p["data0"].items))], period))

    ensures = {"one-live-with-current-id-data-period": lambda s: PdoStart.ok(s)}


@contract
class PdoStartNoPeriod(Contract):
    target = "canopen.pdo.base:PdoMap.start"
    id = "PdoStartNoPeriod"
    props = ("C17",)
    cases = {"running": True, "idle": False}
    exits = ("raise:ValueError",)

    def setup(self, w, case):
        net = mk_net(w)
        pm = mk_map(w, net, case, period=None)
        return Call(("method", pm, "start"), [None])

    ensures = {"refused-none-live": lambda s: And(s.raised(ValueError),
                                                  len(live_after(s, [s.pre["t0"]] if s.pre["t0"] is not None else [])) == 0)}


@contract
class PdoStop(Contract):
    target = "canopen.pdo.base:PdoMap.stop"
    props = ("C17",)
    cases = {"running": True, "idle": False}

    def setup(self, w, case):
        net = mk_net(w)
        pm = mk_map(w, net, case)
        return Call(("method", pm, "stop"), [])

    ensures = {"none-live-handle-cleared": lambda s: And(
        s.returned, len(live_after(s, [s.pre["t0"]] if s.pre["t0"] is not None else [])) == 0,
        s.w.get(s.pre["pm"], "_task") is None)}


@contract
class PdoUpdate(Contract):
    """update(): the running task transmits the map's current data afterwards — on buses whose cyclic tasks can
    modify data in place and on buses that need a restart; still exactly one live task"""
    target = "canopen.pdo.base:PdoMap.update"
    functions = ("canopen.network:PeriodicMessageTask.update", "canopen.network:PeriodicMessageTask._start")
    props = ("C17", "C15")
    cases = {"modify": (True, True), "restart": (False, True), "idle": (False, False)}

    def setup(self, w, case):
        modify, running = case
        net = mk_net(w, modify)
        pm = mk_map(w, net, running, modify)
        return Call(("method", pm, "update"), [])

    @staticmethod
    def ok(s):
        p = s.pre
        live = live_after(s, [p["t0"]] if p["t0"] is not None else [])
        if p["t0"] is None:
            return s.returned and len(live) == 0 and len(s.ev) == 0
        return And(s.returned, len(live) == 1,
                   task_sends(s, live[0], p["cob"], [S.byte(p["data0"], i) for i in range(len(p["data0"].items))], p["period"]))

    ensures = {"payload-current-one-live": lambda s: PdoUpdate.ok(s)}


# -------------------------------------------------------------------------------------------- heartbeat
def mk_slave(w, net, running, modify=False):
    nid = w.int("own_id", 1, 127)
    st = w.choose(w.int("state", 0, 127), (0, 4, 5, 127))
    old = t0 = None
    if running:
        old, t0 = mk_running(w, net, binop("+", 0x700, nid), [w.choose(w.int("old_state", 0, 127), (0, 4, 5, 127))],
                             0.5, modify)
    sl = w.obj("canopen.nmt:NmtSlave", id=nid, network=net, _state=st, _send_task=old, _heartbeat_time_ms=500,
               _local_node=None)
    w.pre.update(sl=sl, nid=nid, st=st, t0=t0)
    return sl


@contract
class HeartbeatStart(Contract):
    target = "canopen.nmt:NmtSlave.start_heartbeat"
    functions = ("canopen.nmt:NmtSlave.stop_heartbeat",)
    props = ("C17",)
    cases = {"fresh": False, "restart": True}

    def setup(self, w, case):
        net = mk_net(w)
        sl = mk_slave(w, net, case)
        ms = w.int("ms", 0, 65535)
        w.pre.update(ms=ms)
        return Call(("method", sl, "start_heartbeat"), [ms])

    @staticmethod
    def ok(s):
        p = s.pre
        live = live_after(s, [p["t0"]] if p["t0"] is not None else [])
        if bool(compare("==", p["ms"], 0)):
            return And(s.returned, len(live) == 0)
        return And(s.returned, len(live) == 1,
                   task_sends(s, live[0], binop("+", 0x700, p["nid"]), [p["st"]], Opaque("ratio", (p["ms"], 1000))),
                   s.w.get(p["sl"], "_send_task").fields["_task"] is live[0])

    ensures = {"zero-none_else-one-with-period": lambda s: HeartbeatStart.ok(s)}


@contract
class HeartbeatOnWrite(Contract):
    """a download to 0x1017: 0 stops the heartbeat, any other value (re)starts it with that period; other indexes: nothing"""
    target = "canopen.nmt:NmtSlave.on_write"
    props = ("C17",)
    cases = {"1017-fresh": (0x1017, False), "1017-running": (0x1017, True), "other-running": (0x1016, True)}

    def setup(self, w, case):
        index, running = case
        net = mk_net(w)
        sl = mk_slave(w, net, running)
        data = w.bytes("data", 2)
        w.pre.update(data=data, index=index)
        return Call(("method", sl, "on_write"), [index, data])

    @staticmethod
    def ok(s):
        p = s.pre
        live = live_after(s, [p["t0"]] if p["t0"] is not None else [])
        if p["index"] != 0x1017:
            return s.returned and len(s.ev) == 0
        ms = S.le_uint(p["data"])
        if bool(compare("==", ms, 0)):
            return And(s.returned, len(live) == 0)
        return And(s.returned, len(live) == 1,
                   task_sends(s, live[0], binop("+", 0x700, p["nid"]), [p["st"]], Opaque("ratio", (ms, 1000))))

    ensures = {"1017-zero-none_else-one": lambda s: HeartbeatOnWrite.ok(s)}


@contract
class HeartbeatStateChange(Contract):
    """an NMT state change (local or by command from the bus) updates the running heartbeat's payload to the new state"""
    target = "canopen.nmt:NmtSlave.update_heartbeat"
    functions = ("canopen.nmt:NmtSlave.on_command", "canopen.nmt:NmtSlave.send_command",
                 "canopen.network:PeriodicMessageTask.update")
    props = ("C17",)
    cases = {"on_command-modify": ("cmd", True), "on_command-restart": ("cmd", False),
             "send_command-modify": ("send", True), "send_command-restart": ("send", False)}

    def setup(self, w, case):
        how, modify = case
        net = mk_net(w, modify)
        sl = mk_slave(w, net, True, modify)
        cs = w.choose(w.int("cs", 0, 255), (1, 2, 128))
        w.assume(Not(And(compare("==", w.pre["st"], 0), cs == 128)))
        if how == "cmd":
            data = w.bytes_of([cs, 0])
            return Call(("method", sl, "on_command"), [0, data, 0.0])
        return Call(("method", sl, "send_command"), [cs])

    @staticmethod
    def ok(s):
        p = s.pre
        live = live_after(s, [p["t0"]])
        newst = s.w.get(p["sl"], "_state")
        return And(s.returned, len(live) == 1, task_sends(s, live[0], binop("+", 0x700, p["nid"]), [newst], 0.5))

    ensures = {"heartbeat-payload-is-current-state": lambda s: HeartbeatStateChange.ok(s)}


@contract
class NodeGuarding(Contract):
    target = "canopen.nmt:NmtMaster.start_node_guarding"
    functions = ("canopen.nmt:NmtMaster.stop_node_guarding",)
    props = ("C17",)
    cases = {"start-fresh": ("start", False), "start-restart": ("start", True), "stop-running": ("stop", True),
             "stop-idle": ("stop", False)}

    def setup(self, w, case):
        op, running = case
        net = mk_net(w)
        nid = w.int("own_id", 1, 127)
        old = t0 = None
        if running:
            old, t0 = mk_running(w, net, binop("+", 0x700, nid), [], 0.5, remote=True)
        m = w.obj("canopen.nmt:NmtMaster", id=nid, network=net, _state=0, _state_received=None,
                  _node_guarding_producer=old, timestamp=None)
        w.pre.update(m=m, t0=t0, nid=nid, op=op)
        return Call(("method", m, "start_node_guarding"), [0.25]) if op == "start" else Call(("method", m, "stop_node_guarding"), [])

    @staticmethod
    def ok(s):
        p = s.pre
        live = live_after(s, [p["t0"]] if p["t0"] is not None else [])
        if p["op"] == "stop":
            return And(s.returned, len(live) == 0)
        return And(s.returned, len(live) == 1, task_sends(s, live[0], binop("+", 0x700, p["nid"]), [], 0.25, remote=True))

    ensures = {"one-remote-frame-task_or-none": lambda s: NodeGuarding.ok(s)}


@contract
class TaskUpdate(Contract):
    """PeriodicMessageTask.update(d): afterwards exactly one bus task is live and it transmits d"""
    target = "canopen.network:PeriodicMessageTask.update"
    props = ("C17",)
    cases = {"modify": True, "restart": False}

    def setup(self, w, case):
        net = mk_net(w, case)
        cob = w.int("cob_id", 1, 0x7FF)
        old, t0 = mk_running(w, net, cob, list(w.bytes("old_payload", 2).items) if not w.native else list(w.bytes("old_payload", 2)),
                             0.5, case)
        new = w.bytes("new", 2)
        w.pre.update(t0=t0, cob=cob, new=new, task=old)
        return Call(("method", old, "update"), [new])

    @staticmethod
    def ok(s):
        p = s.pre
        live = live_after(s, [p["t0"]])
        return And(s.returned, len(live) == 1,
                   task_sends(s, live[0], p["cob"], [S.byte(p["new"], 0), S.byte(p["new"], 1)], 0.5))

    ensures = {"one-live-sending-new-data": lambda s: TaskUpdate.ok(s)}


@contract
class Disconnect(Contract):
    """disconnecting stops the PDO tasks of all nodes (2 nodes x 2 maps, each running or not: 16 configurations)"""
    target = "canopen.network:Network.disconnect"
    functions = ("canopen.pdo.base:PdoBase.stop", "canopen.pdo.base:PdoMap.stop", "canopen.pdo.base:PdoMaps.__iter__",
                 "canopen.network:Network.check")
    props = ("C17",)
    cases = {"%d%d%d%d" % (a, b, c, d): (a, b, c, d) for a in (0, 1) for b in (0, 1) for c in (0, 1) for d in (0, 1)}
    # thorough: 3 nodes x 3 maps and 1 node x 4 maps / 4 nodes x 1 map in a selection of running / idle patterns
    cases_thorough = {"3x3-%03x" % pat: ((3, 3), tuple((pat >> i) & 1 for i in range(9)))
                      for pat in (0x000, 0x1FF, 0x155, 0x0AA, 0x007, 0x1C0, 0x049, 0x111, 0x010, 0x0EF)}
    cases_thorough.update({"1x4-%x" % pat: ((1, 4), tuple((pat >> i) & 1 for i in range(4))) for pat in range(16)})
    cases_thorough.update({"4x1-%x" % pat: ((4, 1), tuple((pat >> i) & 1 for i in range(4))) for pat in range(16)})

    def setup(self, w, case):
        net = mk_net(w, bus=w.obj("env.stubs:BusStubShutdown"))
        initial = []
        nodes = {}
        k = 0
        (n_nodes, n_maps), case = case if isinstance(case[0], tuple) else ((2, 2), case)
        for n in range(n_nodes):
            maps = {}
            for m in range(n_maps):
                old = None
                if case[k]:
                    old, t0 = mk_running(w, net, 0x180 + 0x100 * m + n + 1, [0], 0.5)
                    initial.append(t0)
                k += 1
                maps[m + 1] = w.obj("canopen.pdo.base:PdoMap", pdo_node=None, cob_id=0x180 + 0x100 * m + n + 1,
                                    data=w.bytearray([0]), period=0.5, _task=old)
            pm = w.obj("canopen.pdo.base:PdoMaps", maps=w.dict(maps))
            pdo = w.obj("canopen.pdo:PDO", map=pm, network=net, node=None)
            nodes[n + 1] = w.obj("env.stubs:NodeWithPdo", id=n + 1, pdo=pdo)
        w.setfield(net, "nodes", w.dict(nodes))
        w.pre.update(initial=initial, net=net)
        return Call(("method", net, "disconnect"), [])

    ensures = {"all-pdo-tasks-stopped": lambda s: And(s.returned, len(live_after(s, s.pre["initial"])) == 0,
                                                      s.w.get(s.pre["net"], "bus") is None)}


@contract
class PdoStartSetUpdate(Contract):
    """history start(); <data changed in place, as PdoVariable.set_data does>; update(): the live task then transmits
    the new data — on both kinds of bus (python-can keeps the bytearray handed to can.Message, so the task's message
    aliases the map's data)"""
    target = "canopen.pdo.base:PdoMap.update"
    id = "PdoStartSetUpdate"
    functions = ("canopen.pdo.base:PdoMap.start", "canopen.network:PeriodicMessageTask.update",
                 "canopen.network:PeriodicMessageTask.__init__")
    props = ("C17", "C15")
    cases = {"modify": True, "restart": False}

    def setup(self, w, case):
        net = mk_net(w, case)
        pm = mk_map(w, net, False, case)
        new = w.bytes("new", 2)
        w.pre.update(new=new)
        return Call(("func", "env.drivers", "start_set_update"), [pm, new])

    @staticmethod
    def ok(s):
        p = s.pre
        live = live_after(s, [])
        return And(s.returned, len(live) == 1,
                   task_sends(s, live[0], p["cob"], [S.byte(p["new"], 0), S.byte(p["new"], 1)], p["period"]))

    ensures = {"payload-current-after-in-place-change": lambda s: PdoStartSetUpdate.ok(s)}


@contract
class HeartbeatAtBootUp(Contract):
    """leaving INITIALISING for PRE-OPERATIONAL (local command 128) starts the heartbeat with the period the heartbeat
    time object 0x1017 holds NOW (whatever was cached from earlier writes): none for 0, else exactly one task with
    0x700 + id, the new state and that period; an earlier task does not keep running"""
    target = "canopen.nmt:NmtSlave.send_command"
    id = "HeartbeatAtBootUp"
    functions = ("canopen.nmt:NmtSlave.start_heartbeat", "canopen.nmt:NmtSlave.stop_heartbeat")
    props = ("C17",)
    cases = {"fresh": False, "earlier-task-running": True}

    def setup(self, w, case):
        net = mk_net(w)
        sl = mk_slave(w, net, case)
        w.setfield(sl, "_state", 0)
        w.setfield(sl, "_heartbeat_time_ms", w.int("cached_ms", 0, 65535))       # what on_write saw last, possibly stale
        hb = w.int("od_1017", 0, 65535)
        node = w.obj("env.stubs:NodeStub", id=w.pre["nid"], sdo=w.dict({0x1017: w.obj("env.stubs:RawVar", od=None, value=hb)}))
        w.setfield(sl, "_local_node", node)
        w.pre.update(hb=hb)
        return Call(("method", sl, "send_command"), [128])

    @staticmethod
    def ok(s):
        p = s.pre
        live = live_after(s, [p["t0"]] if p["t0"] is not None else [])
        if bool(compare("==", p["hb"], 0)):
            return And(s.returned, len(live) == 0)
        return And(s.returned, len(live) == 1,
                   task_sends(s, live[0], binop("+", 0x700, p["nid"]), [127], Opaque("ratio", (p["hb"], 1000))))

    ensures = {"period-of-object-1017-now": lambda s: HeartbeatAtBootUp.ok(s)}

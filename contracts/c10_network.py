"""C10 — subscription table, dispatch, outgoing frame format, node scanner, node association."""
from pyvc.engine import Contract, contract
from pyvc.worlds import Call
from pyvc import spec as S
from pyvc.values import And, Or, Not, Implies, Iff, compare, ite, binop, SObj
from pyvc import interp as I

NET = "canopen.network:Network"


def mknet(w, can_id=None, bus="stub", nodes=None, subs=None):
    if subs is None:
        subs = w.pdict("subs", [can_id] if can_id is not None else [], lambda tag: w.plist(tag))
    net = w.obj(NET, bus=(w.obj("env.stubs:BusStub") if bus == "stub" else bus), scanner=w.obj("env.stubs:ScannerStub"),
                subscribers=subs, nodes=nodes if nodes is not None else w.dict({}), send_lock=w.new_lock(),
                notifier=None, listeners=w.list([]))
    return net, subs


def only_key_touched(subs, can_id):
    """frame condition over the whole map: no other key of the table was written"""
    if subs.base is None:
        return True      # concrete worlds: compared natively by observe()
    return all(compare("==", k, can_id) is True for k, _ in subs.sym) and not subs.d


def cur_list(s, can_id):
    subs = s.pre["subs"]
    if subs.base is None:
        return subs.d.get(can_id, I.ABSENT)
    for k, v in reversed(subs.sym):
        if compare("==", k, can_id) is True:
            return v
    return s.pre.get("old", I.ABSENT)


@contract
class Subscribe(Contract):
    target = "canopen.network:Network.subscribe"
    props = ("C10", "C15")
    cases = {"-": None}

    def setup(self, w, case):
        can_id = w.int("can_id", 0, 0x1FFFFFFF)
        net, subs = mknet(w, can_id)
        old = w.lookup(subs, can_id)
        cb = w.pick(old, "new")
        w.pre.update(net=net, subs=subs, can_id=can_id, cb=cb, old=old,
                     old_snap=(w.snap(old) if old is not I.ABSENT else None))
        return Call(("method", net, "subscribe"), [can_id, cb])

    def observe(self, w):
        return {"subs": w.get(w.pre["net"], "subscribers")}

    @staticmethod
    def ok(s):
        p = s.pre
        new = cur_list(s, p["can_id"])
        if new is I.ABSENT or not s.returned:
            return False
        if p["old"] is I.ABSENT:
            return new.base is None and len(new.items) == 1 and new.items[0] is p["cb"]
        had = s.w.interp.contains(p["old_snap"], p["cb"])
        if bool(had):
            return S.same_list(new, p["old_snap"])
        ok, added = S.appended(new, p["old_snap"], 1)
        return ok and added[0] is p["cb"]

    ensures = {
        "append-unless-present": lambda s: Subscribe.ok(s),
        "others-unchanged": lambda s: only_key_touched(s.pre["subs"], s.pre["can_id"]),
    }


@contract
class Unsubscribe(Contract):
    target = "canopen.network:Network.unsubscribe"
    props = ("C10",)
    cases = {"all": None, "one": "cb"}
    exits = ("return", "raise:KeyError")

    def setup(self, w, case):
        can_id = w.int("can_id", 0, 0x1FFFFFFF)
        net, subs = mknet(w, can_id)
        old = w.lookup(subs, can_id)
        cb = w.pick(old, "cb") if case else None
        w.pre.update(net=net, subs=subs, can_id=can_id, cb=cb, old=old,
                     old_snap=(w.snap(old) if old is not I.ABSENT else None), case=case)
        return Call(("method", net, "unsubscribe"), [can_id] + ([cb] if case else []))

    def observe(self, w):
        return {"subs": w.get(w.pre["net"], "subscribers")}

    @staticmethod
    def ok(s):
        p = s.pre
        if p["old"] is I.ABSENT:
            return s.raised(KeyError)
        new = cur_list(s, p["can_id"])
        if p["case"] is None:
            return s.returned and new is I.ABSENT
        had = s.w.interp.contains(p["old_snap"], p["cb"])
        if not bool(had):
            return s.raised(ValueError) and S.same_list(p["old"], p["old_snap"])
        if not s.returned or new is I.ABSENT:
            return False
        # exactly the first occurrence removed
        if p["old_snap"].base is not None and bool(s.w.interp.opaque_contains(p["old_snap"].base, p["cb"])):
            exp = s.w.interp.opaque_remove_first(p["old_snap"].base, p["cb"])
            return new.base is exp and len(new.items) == len(p["old_snap"].items)
        items = list(p["old_snap"].items)
        idx = [i for i, x in enumerate(items) if s.w.interp.callable_eq(x, p["cb"])][0]
        del items[idx]
        return (new.base is p["old_snap"].base) and len(new.items) == len(items) and all(a is b for a, b in zip(new.items, items))

    ensures = {
        "remove-first-or-all": lambda s: Unsubscribe.ok(s),
        "others-unchanged": lambda s: only_key_touched(s.pre["subs"], s.pre["can_id"]),
    }


@contract
class Notify(Contract):
    target = "canopen.network:Network.notify"
    props = ("C10", "C15")

    def setup(self, w, case):
        can_id = w.int("can_id", 0, 0x1FFFFFFF)
        net, subs = mknet(w, can_id)
        data = w.bytes("data", 8, mutable=True)
        old = w.lookup(subs, can_id)
        w.pre.update(net=net, subs=subs, can_id=can_id, data=data, ts=3.25, old=old,
                     old_snap=(w.snap(old) if old is not I.ABSENT else None))
        return Call(("method", net, "notify"), [can_id, data, 3.25])

    @staticmethod
    def ok(s):
        p = s.pre
        exp = []
        if p["old"] is not I.ABSENT:
            exp = S.expected_calls(p["old_snap"], (p["can_id"], p["data"], p["ts"]))
        exp.append(("scanner", p["can_id"]))
        return And(s.returned, S.events_are(s, exp))

    ensures = {
        "each-once-in-order-then-scanner": lambda s: Notify.ok(s),
        "table-unchanged": lambda s: (not s.pre["subs"].sym) if s.pre["subs"].base is not None else True,
    }


@contract
class SendMessage(Contract):
    target = "canopen.network:Network.send_message"
    functions = ("canopen.network:Network.check",)
    props = ("C10",)
    cases = {"len%d" % n: n for n in range(0, 9)}
    cases["not-connected"] = -1
    exits = ()

    def setup(self, w, case):
        can_id = w.int("can_id", 0, 0x1FFFFFFF)
        net, subs = mknet(w, can_id, bus="stub" if case >= 0 else None)
        data = w.bytes("data", max(case, 0))
        remote = w.bool("remote")
        w.pre.update(can_id=can_id, data=data, remote=remote, case=case)
        return Call(("method", net, "send_message"), [can_id, data, remote])

    @staticmethod
    def ok(s):
        p = s.pre
        if p["case"] < 0:
            return s.raised(RuntimeError) and len(s.ev) == 0
        if not s.returned or len(s.ev) != 1 or s.ev[0][0] != "bus.send":
            return False
        _, aid, d, rem, ext = s.ev[0]
        # a CAN remote frame carries no payload (python-can drops it); otherwise exactly the given data
        exp_data = S.sub(p["data"], 0, 0) if bool(p["remote"]) else p["data"]
        return And(compare("==", aid, p["can_id"]), S.eq(d, exp_data), Iff(rem, p["remote"]),
                   Iff(ext, compare(">", p["can_id"], 0x7FF)))

    ensures = {"frame-exact": lambda s: SendMessage.ok(s)}


@contract
class PeriodicInit(Contract):
    target = "canopen.network:PeriodicMessageTask.__init__"
    functions = ("canopen.network:PeriodicMessageTask._start", "canopen.network:Network.send_periodic")
    props = ("C10", "C17")
    cases = {"len%d" % n: n for n in (0, 1, 8)}

    def setup(self, w, case):
        can_id = w.int("can_id", 0, 0x1FFFFFFF)
        net, subs = mknet(w, can_id)
        data = w.bytes("data", case)
        remote = w.bool("remote")
        w.pre.update(can_id=can_id, data=data, remote=remote)
        return Call(("method", net, "send_periodic"), [can_id, data, 0.5, remote])

    @staticmethod
    def ok(s):
        p = s.pre
        ev = [e for e in s.ev if e[0] == "bus.send_periodic"]
        if not s.returned or len(ev) != 1 or len([e for e in s.ev if e[0] == "task.start"]) != 1:
            return False
        _, aid, d, rem, ext, period = ev[0]
        exp_data = S.sub(p["data"], 0, 0) if bool(p["remote"]) else p["data"]
        return And(compare("==", aid, p["can_id"]), S.eq(d, exp_data), Iff(rem, p["remote"]),
                   Iff(ext, compare(">", p["can_id"], 0x7FF)), period == 0.5)

    ensures = {"frame-exact": lambda s: PeriodicInit.ok(s)}


@contract
class ListenerDispatch(Contract):
    target = "canopen.network:MessageListener.on_message_received"
    props = ("C10",)

    def setup(self, w, case):
        net = w.obj("env.stubs:NotifyNet")
        lst = w.obj("canopen.network:MessageListener", network=net)
        err, rem = w.bool("is_error"), w.bool("is_remote")
        data = w.bytes("data", 8, mutable=True)
        aid = w.int("id", 0, 0x1FFFFFFF)
        msg = w.obj("env.stubs:MsgStub", arbitration_id=aid, data=data, timestamp=1.5, is_error_frame=err, is_remote_frame=rem)
        w.pre.update(err=err, rem=rem, aid=aid, data=data)
        return Call(("method", lst, "on_message_received"), [msg])

    @staticmethod
    def ok(s):
        p = s.pre
        skip = Or(p["err"], p["rem"])
        if bool(skip):
            return s.returned and len(s.ev) == 0
        return And(s.returned, len(s.ev) == 1, S.ev_eq(s.w.interp, s.ev[0], ("notify", p["aid"], p["data"], 1.5)))

    ensures = {"skip-error-and-remote_exceptions-contained": lambda s: ListenerDispatch.ok(s)}


@contract
class Scanner(Contract):
    """lists a node id once, in order of first appearance, only for ids of the predefined-connection-set services"""
    target = "canopen.network:NodeScanner.on_message_received"
    props = ("C10",)
    cases = {"any-history": None, "two-listed": 2, "three-listed": 3}

    def setup(self, w, case):
        can_id = w.int("can_id", 0, 0x1FFFFFFF)
        if case is None:
            nodes = w.plist("nodes", elem=lambda i: 5 + i)
        else:
            # a known history: these ids were seen in this order (any order of their values)
            nodes = w.list([w.int("seen%d" % i, 1, 127) for i in range(case)])
        sc = w.obj("canopen.network:NodeScanner", network=None, nodes=nodes)
        w.pre.update(sc=sc, can_id=can_id, nodes0=w.snap(nodes))
        return Call(("method", sc, "on_message_received"), [can_id])

    def observe(self, w):
        return {"nodes": w.get(w.pre["sc"], "nodes")}

    @staticmethod
    def ok(s):
        p = s.pre
        cid = p["can_id"]
        nid = binop("&", cid, 0x7F)
        service = binop("&", cid, 0x780)
        predefined = And(compare("<=", cid, 0x7FF), compare("!=", nid, 0),
                         Or([compare("==", service, v) for v in (0x80, 0x180, 0x280, 0x380, 0x480, 0x580, 0x700)]))
        seen = s.w.interp.contains(p["nodes0"], nid)
        new = s.w.get(p["sc"], "nodes")
        if bool(And(predefined, Not(seen))):
            ok, added = S.appended(new, p["nodes0"], 1)
            return ok and compare("==", added[0], nid)
        return S.same_list(new, p["nodes0"])

    ensures = {"append-once-only-predefined-services": lambda s: And(s.returned, Scanner.ok(s))}


@contract
class ScannerReset(Contract):
    target = "canopen.network:NodeScanner.reset"
    props = ("C10",)

    def setup(self, w, case):
        sc = w.obj("canopen.network:NodeScanner", network=None, nodes=w.plist("nodes", elem=lambda i: 5 + i))
        w.pre.update(sc=sc)
        return Call(("method", sc, "reset"), [])

    ensures = {"empty": lambda s: And(s.returned, S.is_empty_list(s.w.get(s.pre["sc"], "nodes")))}


def mk_remote(w, nchan):
    nid = w.int("node_id", 1, 127)
    chans = [w.obj("env.stubs:SdoChanStub", rx_cobid=w.int("rx%d" % i, 0, 0x7FF), tx_cobid=w.int("tx%d" % i, 0, 0x7FF),
                   network=None) for i in range(nchan)]
    h = lambda: w.obj("env.stubs:HandlerStub", network=None)
    node = w.obj("canopen.node.remote:RemoteNode", id=nid, sdo_channels=w.list(chans), sdo=chans[0], pdo=h(), tpdo=h(),
                 rpdo=h(), nmt=h(), emcy=h(), network=None)
    return node, nid, chans


def sub_pairs(s, kind):
    return [(e[1], e[2]) for e in s.ev if e[0] == kind]


@contract
class RemoteAssociate(Contract):
    target = "canopen.node.remote:RemoteNode.associate_network"
    functions = ("canopen.node.remote:RemoteNode.remove_network",)
    props = ("C10",)
    cases = {"1chan": 1, "2chan": 2, "3chan": 3}

    def setup(self, w, case):
        node, nid, chans = mk_remote(w, case)
        net = w.obj("env.net:Net")
        w.pre.update(node=node, nid=nid, chans=chans, net=net)
        return Call(("func", "env.drivers", "assoc_then_remove"), [node, net])

    @staticmethod
    def ok(s):
        p = s.pre
        node = p["node"]
        it = s.w.interp
        exp = [(c.fields["tx_cobid"], it.getattr(c, "on_response")) for c in p["chans"]]
        exp += [(binop("+", 0x700, p["nid"]), it.getattr(node.fields["nmt"], "on_heartbeat")),
                (binop("+", 0x80, p["nid"]), it.getattr(node.fields["emcy"], "on_emcy")),
                (0, it.getattr(node.fields["nmt"], "on_command"))]
        subs = sub_pairs(s, "subscribe")
        unsubs = sub_pairs(s, "unsubscribe")
        kinds = [e[0] for e in s.ev]
        return And(s.returned, kinds == ["subscribe"] * len(exp) + ["unsubscribe"] * len(exp),
                   S.ev_eq(it, subs, exp), S.ev_eq(it, unsubs, exp))

    ensures = {"subscribed-set-equals-unsubscribed-set": lambda s: RemoteAssociate.ok(s)}


@contract
class LocalAssociate(Contract):
    target = "canopen.node.local:LocalNode.associate_network"
    functions = ("canopen.node.local:LocalNode.remove_network",)
    props = ("C10",)

    def setup(self, w, case):
        nid = w.int("node_id", 1, 127)
        sdo = w.obj("env.stubs:SdoChanStub", rx_cobid=w.int("rx", 0, 0x7FF), tx_cobid=w.int("tx", 0, 0x7FF), network=None)
        h = lambda: w.obj("env.stubs:HandlerStub", network=None)
        node = w.obj("canopen.node.local:LocalNode", id=nid, sdo=sdo, tpdo=h(), rpdo=h(), nmt=h(), emcy=h(), network=None)
        net = w.obj("env.net:Net")
        w.pre.update(node=node, sdo=sdo)
        return Call(("func", "env.drivers", "assoc_then_remove"), [node, net])

    @staticmethod
    def ok(s):
        p = s.pre
        it = s.w.interp
        exp = [(p["sdo"].fields["rx_cobid"], it.getattr(p["sdo"], "on_request")),
               (0, it.getattr(p["node"].fields["nmt"], "on_command"))]
        kinds = [e[0] for e in s.ev]
        return And(s.returned, kinds == ["subscribe"] * 2 + ["unsubscribe"] * 2,
                   S.ev_eq(it, sub_pairs(s, "subscribe"), exp), S.ev_eq(it, sub_pairs(s, "unsubscribe"), exp))

    ensures = {"subscribed-set-equals-unsubscribed-set": lambda s: LocalAssociate.ok(s)}


@contract
class AddSdo(Contract):
    target = "canopen.node.remote:RemoteNode.add_sdo"
    functions = ("canopen.node.base:BaseNode.has_network", "canopen.sdo.client:SdoClient.__init__",
                 "canopen.sdo.base:SdoBase.__init__")
    props = ("C10",)
    cases = {"with-network": True, "without-network": False}

    def setup(self, w, case):
        node, nid, chans = mk_remote(w, 1)
        net = w.obj("env.net:Net")
        import canopen.network
        node = w.obj("canopen.node.remote:RemoteNode", id=nid, sdo_channels=w.list(chans), sdo=chans[0],
                     network=net if case else w.real(canopen.network._UNINITIALIZED_NETWORK), object_dictionary=None)
        rx, tx = w.int("rx", 0, 0x7FF), w.int("tx", 0, 0x7FF)
        w.pre.update(node=node, rx=rx, tx=tx, case=case, n0=len(chans))
        return Call(("method", node, "add_sdo"), [rx, tx])

    @staticmethod
    def ok(s):
        p = s.pre
        if not s.returned or not isinstance(s.ret, SObj):
            return False
        chans = s.w.get(p["node"], "sdo_channels")
        if len(chans.items) != p["n0"] + 1 or chans.items[-1] is not s.ret:
            return False
        it = s.w.interp
        base = And(compare("==", s.ret.fields["rx_cobid"], p["rx"]), compare("==", s.ret.fields["tx_cobid"], p["tx"]))
        if p["case"]:
            return And(base, len(s.ev) == 1, S.ev_eq(it, s.ev[0], ("subscribe", p["tx"], it.getattr(s.ret, "on_response"))))
        return And(base, len(s.ev) == 0)

    ensures = {"listed-and-subscribed-iff-networked": lambda s: AddSdo.ok(s)}


@contract
class NetSetItem(Contract):
    target = "canopen.network:Network.__setitem__"
    functions = ("canopen.network:Network.__delitem__", "canopen.network:Network.add_node", "canopen.network:Network.create_node")
    props = ("C10",)
    cases = {"setitem": "set", "delitem": "del", "add_node": "add", "create_node": "create"}
    exits = ()

    def setup(self, w, case):
        nid = w.int("node_id", 1, 127)
        nodes = w.pdict("nodes", [nid], lambda tag: w.obj("env.stubs:NodeStub", id=nid))
        net, subs = mknet(w, None, nodes=nodes, subs=w.dict({}))
        old = w.lookup(nodes, nid)
        new = w.obj("env.stubs:NodeStub", id=nid)
        w.pre.update(net=net, nodes=nodes, nid=nid, old=old, new=new, case=case)
        if case == "set":
            return Call(("setitem", net), [nid, new])
        if case == "del":
            return Call(("method", net, "__delitem__"), [nid])
        return Call(("method", net, case + "_node"), [new])

    @staticmethod
    def cur(s):
        nodes, nid = s.pre["nodes"], s.pre["nid"]
        if nodes.base is None:
            return nodes.d.get(nid, I.ABSENT)
        for k, v in reversed(nodes.sym):
            if compare("==", k, nid) is True:
                return v
        return s.pre["old"]

    @staticmethod
    def ok(s):
        p = s.pre
        it = s.w.interp
        cur = NetSetItem.cur(s)
        if p["case"] == "del":
            if p["old"] is I.ABSENT:
                return s.raised(KeyError) and len(s.ev) == 0
            return s.returned and cur is I.ABSENT and len(s.ev) == 1 and s.ev[0] == ("remove", p["old"])
        exp = ([("remove", p["old"])] if p["old"] is not I.ABSENT else []) + [("associate", p["new"], p["net"])]
        return And(s.returned, cur is p["new"], S.ev_eq(it, list(s.ev), exp),
                   (s.ret is p["new"]) if p["case"] in ("add", "create") else True)

    ensures = {
        "old-removed-then-new-associated": lambda s: NetSetItem.ok(s),
        "others-unchanged": lambda s: only_key_touched(s.pre["nodes"], s.pre["nid"]),
    }

"""C18 — LSS master: request frames, replies / errors / silence, fast scan against a conformant slave."""
from pyvc.engine import Contract, contract
from pyvc.worlds import Call
from pyvc import spec as S
from pyvc.values import And, Or, Not, Implies, Iff, compare, ite, binop, SObj, SInt
from pyvc.interp import LoopSpec

LSS = "canopen.lss:LssMaster"
ERR = "canopen.lss:LssError"


def mk_master(w, netcls="env.lss:AnyReplyNet", **netargs):
    m = w.obj(LSS, network=None, _node_id=0, _data=None, responses=w.new_queue(), RESPONSE_TIMEOUT=0.01)
    net = w.obj(netcls, master=m, **netargs)
    w.setfield(m, "network", net)
    w.pre.update(m=m, net=net)
    return m


def frame_is(s, expected):
    """exactly one request was sent: 8 bytes on 0x7E5, not remote, with these byte values"""
    sent = s.sent()
    if len(sent) != 1:
        return False
    _, cid, payload, remote = sent[0]
    return And(compare("==", cid, 0x7E5), S.bytes_are(payload, expected), Not(remote))


def reply(s):
    """(answered?, reply bytes) chosen by the environment on this path"""
    it = s.w.interp
    q = s.pre["m"]
    return None


# ---------------------------------------------------------------------------------------------------------
@contract
class LssNoReplyServices(Contract):
    """services without confirmation: one full 8-byte frame, standard command specifier, little-endian fields, zero padding"""
    target = "canopen.lss:LssMaster.__send_command"
    functions = ("canopen.lss:LssMaster.send_switch_state_global", "canopen.lss:LssMaster.activate_bit_timing",
                 "canopen.lss:LssMaster.send_identify_non_configured_remote_slave", "canopen.lss:LssMaster.send_switch_mode_global")
    props = ("C18",)
    cases = {"switch_state_global": "g", "switch_mode_global": "g2", "activate_bit_timing": "a", "identify_non_configured": "i"}

    def setup(self, w, case):
        m = mk_master(w)
        if case in ("g", "g2"):
            mode = w.int("mode", 0, 255)
            w.pre.update(exp=[0x04, mode, 0, 0, 0, 0, 0, 0])
            return Call(("method", m, "send_switch_state_global" if case == "g" else "send_switch_mode_global"), [mode])
        if case == "a":
            d = w.int("delay", 0, 0xFFFF)
            w.pre.update(exp=[0x15, binop("&", d, 0xFF), binop(">>", d, 8), 0, 0, 0, 0, 0])
            return Call(("method", m, "activate_bit_timing"), [d])
        w.pre.update(exp=[0x4C, 0, 0, 0, 0, 0, 0, 0])
        return Call(("method", m, "send_identify_non_configured_remote_slave"), [])

    ensures = {"request-frame": lambda s: And(s.returned, frame_is(s, s.pre["exp"]))}


def env_choice(s, name):
    """value the environment chose for `name` on this path (symbol or concrete)"""
    sym = s.w.ctx.symbols.get(name)
    if sym is not None:
        kind, t = sym
        if kind == "bool":
            from pyvc.values import SBool
            return SBool(t)
        if kind == "bytes":
            from pyvc.values import SBytes
            return SBytes(t)
    return s.w.ctx.oracle.get(name)


def answered(s):
    a = [e for e in s.ev if e[0] == "answered"]
    return None


@contract
class LssConfigure(Contract):
    """configure node id / bit timing / store: request frame; returns on (same cs, error 0), LssError on an error code,
    a wrong command specifier, or silence"""
    target = "canopen.lss:LssMaster.__send_configure"
    functions = ("canopen.lss:LssMaster.configure_node_id", "canopen.lss:LssMaster.configure_bit_timing",
                 "canopen.lss:LssMaster.store_configuration", "canopen.lss:LssMaster.__send_command",
                 "canopen.lss:LssMaster.on_message_received")
    props = ("C18",)
    cases = {"configure_node_id": "n", "configure_bit_timing": "b", "store_configuration": "s"}
    exits = ("return", "raise:LssError")

    def setup(self, w, case):
        m = mk_master(w, "env.lss:ScriptedNet", answered=w.bool("answered"), reply=w.bytes("reply", 8))
        w.pre.update(answered_=w.get(w.pre["net"], "answered"), reply_=w.get(w.pre["net"], "reply"))
        if case == "n":
            v = w.int("node_id", 0, 255)
            w.pre.update(exp=[0x11, v, 0, 0, 0, 0, 0, 0], cs=0x11)
            return Call(("method", m, "configure_node_id"), [v])
        if case == "b":
            v = w.int("bit_timing", 0, 255)
            w.pre.update(exp=[0x13, 0, v, 0, 0, 0, 0, 0], cs=0x13)
            return Call(("method", m, "configure_bit_timing"), [v])
        w.pre.update(exp=[0x17, 0, 0, 0, 0, 0, 0, 0], cs=0x17)
        return Call(("method", m, "store_configuration"), [])

    @staticmethod
    def ok(s):
        p = s.pre
        r = p["reply_"]
        good = And(p["answered_"], compare("==", S.byte(r, 0), p["cs"]), compare("==", S.byte(r, 1), 0))
        return And(frame_is(s, p["exp"]), Iff(good, s.returned), Implies(Not(good), s.raised(ERR)))

    ensures = {"frame_and_result-or-LssError": lambda s: LssConfigure.ok(s)}


@contract
class LssInquire(Contract):
    target = "canopen.lss:LssMaster.__send_inquire_lss_address"
    functions = ("canopen.lss:LssMaster.inquire_lss_address", "canopen.lss:LssMaster.inquire_node_id",
                 "canopen.lss:LssMaster.__send_inquire_node_id")
    props = ("C18",)
    cases = {"vendor": 0x5A, "product": 0x5B, "revision": 0x5C, "serial": 0x5D, "node_id": 0x5E}
    exits = ("return", "raise:LssError")

    def setup(self, w, case):
        m = mk_master(w, "env.lss:ScriptedNet", answered=w.bool("answered"), reply=w.bytes("reply", 8))
        w.pre.update(answered_=w.get(w.pre["net"], "answered"), reply_=w.get(w.pre["net"], "reply"), cs=case)
        if case == 0x5E:
            return Call(("method", m, "inquire_node_id"), [])
        return Call(("method", m, "inquire_lss_address"), [case])

    @staticmethod
    def ok(s):
        p = s.pre
        r = p["reply_"]
        good = And(p["answered_"], compare("==", S.byte(r, 0), p["cs"]))
        val = S.byte(r, 1) if p["cs"] == 0x5E else S.le_uint(S.sub(r, 1, 5))
        return And(frame_is(s, [p["cs"], 0, 0, 0, 0, 0, 0, 0]), Iff(good, s.returned), Implies(Not(good), s.raised(ERR)),
                   Implies(good, compare("==", s.ret, val) if s.returned else True))

    ensures = {"frame_and_answer-or-LssError": lambda s: LssInquire.ok(s)}


@contract
class LssSendAddress(Contract):
    xcheck_n = 2            # native runs sleep (time.sleep in the real code)
    """one identity part: [cs, LE32 number, 0, 0, 0]; used by selective switch and identify-remote-slave"""
    target = "canopen.lss:LssMaster.__send_lss_address"
    props = ("C18",)
    cases = {"0x%02x" % c: c for c in (0x40, 0x41, 0x42, 0x43, 0x46, 0x47, 0x48, 0x49, 0x4A, 0x4B)}
    exits = ()

    def setup(self, w, case):
        m = mk_master(w, "env.lss:ScriptedNet", answered=w.bool("answered"), reply=w.bytes("reply", 8))
        num = w.int("number", 0, 0xFFFFFFFF)
        w.pre.update(answered_=w.get(w.pre["net"], "answered"), reply_=w.get(w.pre["net"], "reply"), cs=case, num=num)
        return Call(("method", m, "_LssMaster__send_lss_address"), [case, num])

    @staticmethod
    def ok(s):
        p = s.pre
        needs = p["cs"] == 0x43
        fr = frame_is(s, [p["cs"]] + S.le_bytes(p["num"], 4) + [0, 0, 0])
        if not needs:
            return And(fr, s.returned, s.ret is None)
        return And(fr, Iff(p["answered_"], s.returned), Implies(Not(p["answered_"]), s.raised(ERR)),
                   Implies(p["answered_"], S.eq(s.ret, p["reply_"]) if s.returned else True))

    ensures = {"frame_and_reply": lambda s: LssSendAddress.ok(s)}


@contract
class LssSwitchSelective(Contract):
    xcheck_n = 2            # native runs sleep (time.sleep in the real code)
    """four frames (vendor, product, revision, serial), confirmed iff the reply to the last one has cs 0x44"""
    target = "canopen.lss:LssMaster.send_switch_state_selective"
    props = ("C18",)
    exits = ("return", "raise:LssError")

    def setup(self, w, case):
        m = mk_master(w, "env.lss:ScriptedNet", answered=w.bool("answered"), reply=w.bytes("reply", 8))
        ids = [w.int("id%d" % i, 0, 0xFFFFFFFF) for i in range(4)]
        w.pre.update(answered_=w.get(w.pre["net"], "answered"), reply_=w.get(w.pre["net"], "reply"), ids=ids)
        return Call(("method", m, "send_switch_state_selective"), ids)

    @staticmethod
    def ok(s):
        p = s.pre
        sent = s.sent()
        if len(sent) != 4:
            return False
        frames = And([And(compare("==", sent[i][1], 0x7E5), S.bytes_are(sent[i][2], [0x40 + i] + S.le_bytes(p["ids"][i], 4) + [0, 0, 0]))
                      for i in range(4)])
        confirmed = And(p["answered_"], compare("==", S.byte(p["reply_"], 0), 0x44))
        return And(frames, Implies(Not(p["answered_"]), s.raised(ERR)),
                   Implies(p["answered_"], And(s.returned, Iff(confirmed, S.is_true(s.ret))) if s.returned else False))

    ensures = {"four-frames_confirmed-iff-0x44": lambda s: LssSwitchSelective.ok(s)}


@contract
class LssFastScanMessage(Contract):
    target = "canopen.lss:LssMaster.__send_fast_scan_message"
    props = ("C18",)

    def setup(self, w, case):
        m = mk_master(w, "env.lss:ScriptedNet", answered=w.bool("answered"), reply=w.bytes("reply", 8))
        idn, bc, sub, nxt = w.int("id", 0, 0xFFFFFFFF), w.int("bit_check", 0, 255), w.int("sub", 0, 255), w.int("next", 0, 255)
        w.pre.update(answered_=w.get(w.pre["net"], "answered"), reply_=w.get(w.pre["net"], "reply"), a=(idn, bc, sub, nxt))
        return Call(("method", m, "_LssMaster__send_fast_scan_message"), [idn, bc, sub, nxt])

    @staticmethod
    def ok(s):
        p = s.pre
        idn, bc, sub, nxt = p["a"]
        yes = And(p["answered_"], compare("==", S.byte(p["reply_"], 0), 0x4F))
        return And(s.returned, frame_is(s, [0x51] + S.le_bytes(idn, 4) + [bc, sub, nxt]), Iff(yes, S.is_true(s.ret)),
                   S.is_bool(s.ret))

    ensures = {"frame_and_true-iff-identify-slave": lambda s: LssFastScanMessage.ok(s)}


# ---------------------------------------------------------------------------------------------------------
def _fs_inv(interp, fr):
    """inner loop of fast_scan (sub = k concrete): the bits of lss_id[k] at and above bit_check equal the slave's,
    the bits below are still 0, earlier parts are complete, the slave still waits at position k"""
    w = interp.fs_world
    sid = w.pre["sid"]
    k = fr.locals["lss_sub"]
    bc = fr.locals["lss_bit_check"]
    lid = fr.locals["lss_id"].items
    net = fr.locals["self"].fields["network"]
    sid = net.fields["sid"].items
    conds = [compare(">=", bc, 0), compare("<=", bc, 32),
             compare("==", binop(">>", binop("^", lid[k], sid[k]), bc), 0),
             compare("==", binop("&", lid[k], binop("-", binop("<<", 1, bc), 1)), 0),
             compare("==", net.fields["pos"], k), S.is_false(net.fields["config_state"]),
             compare("==", fr.locals["lss_next"], k)]
    for j in range(4):
        if j < k:
            conds.append(compare("==", lid[j], sid[j]))
        elif j > k:
            conds.append(compare("==", lid[j], 0))
        conds.append(And(compare(">=", lid[j], 0), compare("<=", lid[j], 0xFFFFFFFF)))
    return And(conds)


def _fs_havoc(interp, fr):
    k = fr.locals["lss_sub"]
    fr.locals["lss_bit_check"] = interp.ctx.fresh_int("h_bit_check", 0, 32)
    fr.locals["lss_id"].items[k] = interp.ctx.fresh_int("h_lss_id", -(1 << 40), 1 << 40)
    del interp.ctx.events[:]
    interp.ctx.emit("havoc-trace")


@contract
class LssFastScan(Contract):
    xcheck_n = 2            # native runs sleep (time.sleep in the real code)
    """for every 128-bit identity: fast scan returns (True, identity) and leaves the slave in configuration state;
    with no slave present it returns (False, None).  The outer loop (4 identity parts) is unrolled; the inner loop
    (32 bits) is cut by its inductive invariant with variant bit_check."""
    target = "canopen.lss:LssMaster.fast_scan"
    functions = ("canopen.lss:LssMaster.__send_fast_scan_message", "canopen.lss:LssMaster.__send_command",
                 "canopen.lss:LssMaster.on_message_received")
    props = ("C18",)
    cases = {"slave-present": True, "no-slave": False}
    loop_specs = {("LssMaster.fast_scan", 1): LoopSpec(_fs_inv, _fs_havoc, lambda interp, fr: fr.locals["lss_bit_check"])}
    xcheck = True

    def setup(self, w, case):
        sid = [w.int("sid%d" % i, 0, 0xFFFFFFFF) for i in range(4)]
        m = mk_master(w, "env.lss:FastScanSlaveNet", present=case, sid=w.list(sid), pos=w.int("pos0", 0, 3),
                      config_state=False)
        w.pre.update(sid=sid, present=case)
        if not w.native:
            w.interp.fs_world = w
        return Call(("method", m, "fast_scan"), [])

    def observe(self, w):
        return {"config_state": w.get(w.pre["net"], "config_state")}

    @staticmethod
    def ok(s):
        p = s.pre
        if not s.returned or not isinstance(s.ret, tuple) or len(s.ret) != 2:
            return False
        if not p["present"]:
            return And(S.is_false(s.ret[0]), s.ret[1] is None)
        found, ids = s.ret
        from pyvc.interp import SList
        if found is not True or not isinstance(ids, SList) or len(ids.items) != 4:
            return False
        return And([compare("==", ids.items[i], p["sid"][i]) for i in range(4)]
                   + [S.is_true(s.w.get(p["net"], "config_state"))])

    ensures = {"finds-identity-bit-for-bit": lambda s: LssFastScan.ok(s)}


@contract
class LssFastScanTwice(Contract):
    xcheck_n = 2            # native runs sleep (time.sleep in the real code)
    """history: a scan on one master followed by a scan on another master (different slave) still returns exactly the
    second slave's identity — nothing found by an earlier scan leaks into a later one"""
    target = "canopen.lss:LssMaster.fast_scan"
    id = "LssFastScanTwice"
    props = ("C18",)
    loop_specs = LssFastScan.loop_specs

    def setup(self, w, case):
        sid_a = [w.int("a_sid%d" % i, 0, 0xFFFFFFFF) for i in range(4)]
        sid_b = [w.int("sid%d" % i, 0, 0xFFFFFFFF) for i in range(4)]
        ma = mk_master(w, "env.lss:FastScanSlaveNet", present=True, sid=w.list(sid_a), pos=0, config_state=False)
        mb = mk_master(w, "env.lss:FastScanSlaveNet", present=True, sid=w.list(sid_b), pos=0, config_state=False)
        w.pre.update(sid=sid_b, present=True, two=True, sid_first=sid_a)
        if not w.native:
            w.interp.fs_world = w
            w.interp.fs_nets = [w.get(ma, "network"), w.get(mb, "network")]
        return Call(("func", "env.drivers", "scan_twice"), [ma, mb])

    def observe(self, w):
        return {"config_state": w.get(w.pre["net"], "config_state")}

    ensures = {"second-scan-finds-second-identity": lambda s: LssFastScan.ok(s)}


@contract
class LssStaleReplies(Contract):
    """unsolicited frames queued before a request (e.g. answers of several slaves to a service the master does not
    wait for) are all discarded: the answer returned is the one that arrives after the request"""
    target = "canopen.lss:LssMaster.__send_command"
    id = "LssStaleReplies"
    props = ("C18",)
    cases = {"stale=%s" % k: k for k in ("any", 1, 2, 3, 4)}
    exits = ("return", "raise:LssError")

    def setup(self, w, case):
        if case == "any":
            stale = w.plist("stale", maxn=2, elem=lambda i: w.bytes("stale%d" % i, 8))
        else:
            stale = w.list([w.bytes("stale%d" % i, 8) for i in range(case)])
        m = w.obj(LSS, network=None, _node_id=0, _data=None, responses=w.new_queue(stale), RESPONSE_TIMEOUT=0.01)
        net = w.obj("env.lss:ScriptedNet", master=m, answered=w.bool("answered"), reply=w.bytes("reply", 8))
        w.setfield(m, "network", net)
        w.pre.update(m=m, answered_=w.get(net, "answered"), reply_=w.get(net, "reply"))
        return Call(("method", m, "inquire_node_id"), [])

    @staticmethod
    def ok(s):
        p = s.pre
        r = p["reply_"]
        good = And(p["answered_"], compare("==", S.byte(r, 0), 0x5E))
        return And(frame_is(s, [0x5E, 0, 0, 0, 0, 0, 0, 0]), Iff(good, s.returned), Implies(Not(good), s.raised(ERR)),
                   Implies(good, S.eq(s.ret, S.byte(r, 1)) if s.returned else True))

    ensures = {"answer-is-the-one-after-the-request": lambda s: LssStaleReplies.ok(s)}

"""C05 — PDO variables occupy exactly their mapped bits (PdoVariable.get_data / set_data, PdoMap.add_variable)."""
from pyvc.engine import Contract, contract
from pyvc.worlds import Call
from pyvc import spec as S
from pyvc.values import And, Or, Not, Implies, Iff, compare, ite, binop, SObj
from contracts.c04_codec import INT_TYPES, OD, rng

PV = "canopen.pdo.base:PdoVariable"
# fields: all integer types with their own length; BOOLEAN and the 8-bit types also with a sub-byte length
FIELD_TYPES = dict(INT_TYPES, BOOLEAN=(0x01, 8, False))


def mk_pdovar(w, case):
    code, bits, signed = case
    od = w.obj(OD, data_type=code, min=None, max=None, name="v", index=0x2000, subindex=0, parent=None)
    n = w.choose(w.int("N", 1, 8), range(1, 9))           # frame length in bytes, ceil(total/8)
    frame = w.bytes("frame", n, mutable=True)
    offset = w.int("offset", 0, 63)
    if bits == 8:
        length = w.int("length", 1, 8)
    else:
        length = bits
    w.assume(compare("<=", binop("+", offset, length), 8 * n))
    # the frame is as long as the mapping needs: last mapped bit lies in the last byte
    pm = w.obj("env.stubs:MapStub", data=frame, name="map")
    var = w.obj(PV, od=od, pdo_parent=pm, offset=offset, length=length, name="v", index=0x2000, subindex=0)
    w.pre.update(frame0=w.bytes_of(frame), offset=offset, length=length, bits=bits, signed=signed, n=n, pm=pm,
                 code=code)
    return var


def field_of(s, frame):
    """value of the mapped bit field of `frame` as the spec defines it (bit 0 of byte 0 first, little endian)"""
    X = S.le_uint(frame)
    ln, off = s.pre["length"], s.pre["offset"]
    m = binop("-", binop("<<", 1, ln), 1)
    f = binop("&", binop(">>", X, off), m)
    return S.sext(f, ln) if s.pre["signed"] else f


@contract
class PdoGet(Contract):
    target = "canopen.pdo.base:PdoVariable.get_data"
    props = ("C05", "C15")
    cases = FIELD_TYPES

    def setup(self, w, case):
        var = mk_pdovar(w, case)
        return Call(("method", var, "get_data"), [])

    def observe(self, w):
        return {"frame": w.get(w.pre["pm"], "data")}

    ensures = {
        "no-raise": lambda s: s.returned,
        "field-value": lambda s: Implies(s.returned, S.bytes_are(s.ret, S.le_bytes(field_of(s, s.pre["frame0"]),
                                                                                    s.pre["bits"] // 8))),
        "frame-untouched": lambda s: S.eq(s.w.get(s.pre["pm"], "data"), s.pre["frame0"]),
    }


@contract
class PdoSet(Contract):
    target = "canopen.pdo.base:PdoVariable.set_data"
    props = ("C05", "C15")
    cases = FIELD_TYPES

    def setup(self, w, case):
        code, bits, signed = case
        var = mk_pdovar(w, case)
        ln = w.pre["length"]
        # any value of the field's range (signed fields: two's complement range of `length` bits)
        if signed:
            v = w.int("v", -(1 << 63), (1 << 63) - 1)
            half = binop("<<", 1, binop("-", ln, 1))
            w.assume(And(compare(">=", v, binop("-", 0, half)), compare("<", v, half)))
        else:
            v = w.int("v", 0, (1 << 64) - 1)
            w.assume(compare("<", v, binop("<<", 1, ln)))
        data = w.bytes_of(S.le_bytes_items(v, bits // 8))
        w.pre.update(v=v)
        return Call(("method", var, "set_data"), [data])

    def observe(self, w):
        return {"frame": w.get(w.pre["pm"], "data")}

    @staticmethod
    def expected(s):
        X = S.le_uint(s.pre["frame0"])
        ln, off = s.pre["length"], s.pre["offset"]
        m = binop("-", binop("<<", 1, ln), 1)
        return binop("|", binop("&", X, binop("^", binop("<<", m, off), (1 << 64) - 1)),
                     binop("<<", binop("&", s.pre["v"], m), off))

    ensures = {
        "no-raise": lambda s: s.returned,
        "length-unchanged": lambda s: Implies(s.returned, S.is_bytes(s.w.get(s.pre["pm"], "data"), s.pre["n"])),
        "field-written-others-unchanged": lambda s: Implies(
            And(s.returned, S.is_bytes(s.w.get(s.pre["pm"], "data"), s.pre["n"])),
            compare("==", S.le_uint(s.w.get(s.pre["pm"], "data")), PdoSet.expected(s))),
        "update-called-once": lambda s: Implies(s.returned, len([e for e in s.ev if e == ("update",)]) == 1),
    }


@contract
class PdoDataSize(Contract):
    """the frame of a map is ceil(total mapped bits / 8) bytes long"""
    target = "canopen.pdo.base:PdoMap._update_data_size"
    props = ("C05",)

    def setup(self, w, case):
        total = w.int("total_bits", 0, 64)
        pm = w.obj("canopen.pdo.base:PdoMap", length=total, data=w.bytearray([]))
        w.pre.update(pm=pm, total=total)
        return Call(("method", pm, "_update_data_size"), [])

    ensures = {"ceil": lambda s: And(s.returned, compare("==", S.blen(s.w.get(s.pre["pm"], "data")),
                                                         binop(">>", binop("+", s.pre["total"], 7), 3)))}


@contract
class PdoNeighbours(Contract):
    """two variables mapped into one frame at disjoint bit fields: a value written to one is read back unchanged and
    the other reads exactly what it read before (the "consequently" clause, as a two-call history on the real code)"""
    target = "canopen.pdo.base:PdoVariable.set_data"
    id = "PdoNeighbours"
    functions = ("canopen.pdo.base:PdoVariable.get_data",)
    props = ("C05", "C15")
    cases = {"U8/U16": ("UNSIGNED8", "UNSIGNED16"), "I16/I8": ("INTEGER16", "INTEGER8"), "BOOL/I32": ("BOOLEAN", "INTEGER32"),
             "U24/U8": ("UNSIGNED24", "UNSIGNED8"), "I8/I8": ("INTEGER8", "INTEGER8")}

    def setup(self, w, case):
        t1, t2 = FIELD_TYPES[case[0]], FIELD_TYPES[case[1]]
        n = w.choose(w.int("N", 1, 8), range(1, 9))
        frame = w.bytes("frame", n, mutable=True)
        pm = w.obj("env.stubs:MapStub", data=frame, name="map")

        def mk(tag, t):
            code, bits, signed = t
            od = w.obj(OD, data_type=code, min=None, max=None, name=tag, index=0x2000, subindex=0, parent=None)
            off = w.int(tag + "_offset", 0, 63)
            ln = w.int(tag + "_length", 1, 8) if bits == 8 else bits
            w.assume(compare("<=", binop("+", off, ln), 8 * n))
            return w.obj(PV, od=od, pdo_parent=pm, offset=off, length=ln, name=tag, index=0x2000, subindex=0), off, ln
        v1, o1, l1 = mk("a", t1)
        v2, o2, l2 = mk("b", t2)
        # disjoint fields, as PdoMap.add_variable lays them out (running sum of lengths)
        w.assume(Or(compare("<=", binop("+", o1, l1), o2), compare("<=", binop("+", o2, l2), o1)))
        code, bits, signed = t1
        if signed:
            val = w.int("v", -(1 << 63), (1 << 63) - 1)
            half = binop("<<", 1, binop("-", l1, 1))
            w.assume(And(compare(">=", val, binop("-", 0, half)), compare("<", val, half)))
        else:
            val = w.int("v", 0, (1 << 64) - 1)
            w.assume(compare("<", val, binop("<<", 1, l1)))
        data = w.bytes_of(S.le_bytes_items(val, bits // 8))
        w.pre.update(data=data)
        return Call(("func", "env.drivers", "pdo_set_then_get"), [v1, v2, data])

    ensures = {"own-value-read-back_neighbour-undisturbed": lambda s: And(
        s.returned, isinstance(s.ret, tuple) and len(s.ret) == 3, S.eq(s.ret[0], s.ret[1]) if s.returned else False,
        S.eq(s.ret[2], s.pre["data"]) if s.returned else False)}


@contract
class PdoAddVariable(Contract):
    """add_variable: the new variable starts where the previous ones end (offset = running sum of lengths), the total
    length accumulates, the frame is ceil(total/8) bytes; a custom bit length is honoured"""
    target = "canopen.pdo.base:PdoMap.add_variable"
    functions = ("canopen.pdo.base:PdoMap._get_variable", "canopen.pdo.base:PdoMap._update_data_size",
                 "canopen.pdo.base:PdoVariable.__init__")
    props = ("C05",)
    cases = {"own-length": False, "custom-length": True}

    def setup(self, w, case):
        total = w.int("total", 0, 56)
        existing = w.plist("map", elem=lambda i: w.obj(PV, od=None, pdo_parent=None, offset=0, length=8, name="x", index=1, subindex=0))
        node = w.obj("env.pdodev:PdoNode", network=None, node=w.obj("env.pdodev:NodeOfPdo", object_dictionary=w.obj("env.pdodev:AnyOd")))
        pm = w.obj("canopen.pdo.base:PdoMap", pdo_node=node, map=existing, length=total, data=w.bytearray([]))
        index = w.int("index", 1, 0xFFFF)
        ln = w.int("length", 1, 8) if case else None
        w.pre.update(pm=pm, total=total, ln=ln, map0=w.snap(existing))
        return Call(("method", pm, "add_variable"), [index, 0, ln])

    @staticmethod
    def ok(s):
        p = s.pre
        g = s.w.get
        pm = p["pm"]
        if not s.returned or not isinstance(s.ret, SObj):
            return False
        ok_, new = S.appended(g(pm, "map"), p["map0"], 1)
        ln = p["ln"] if p["ln"] is not None else 8
        tot = binop("+", p["total"], ln)
        return And(ok_ and new[0] is s.ret, S.eq(s.ret.fields["offset"], p["total"]), S.eq(s.ret.fields["length"], ln),
                   S.eq(g(pm, "length"), tot), S.eq(S.blen(g(pm, "data")), binop(">>", binop("+", tot, 7), 3)),
                   s.ret.fields["pdo_parent"] is pm)

    ensures = {"offset-is-running-sum": lambda s: PdoAddVariable.ok(s)}

"""C05 — PDO variables occupy exactly their mapped bits (PdoVariable.get_data / set_data, PdoMap.add_variable)."""
from pyvc.engine import Contract, contract
from pyvc.worlds import Call
from pyvc import spec as S
from pyvc.values import And, Or, Not, Implies, Iff, compare, ite, binop
from contracts.c04_codec import INT_TYPES, OD, rng

PV = "canopen.pdo.base:PdoVariable"
# fields: all integer types with their own length; BOOLEAN and the 8-bit types also with a sub-byte length
FIELD_TYPES = dict(INT_TYPES, BOOLEAN=(0x01, 8, False))


def mk_pdovar(w, case):
    code, bits, signed = case
    od = w.obj(OD, data_type=code, min=None, max=None, name="v", index=0x2000, subindex=0, parent=None)
    n = w.choose(w.int("N", 1, 8), range(1, 9))           # frame length in bytes, ceil(total/8)
    frame = w.bytes("frame", n, mutable=True)
    offset = w.int("offset", 0, 63)
    if bits == 8:
        length = w.int("length", 1, 8)
    else:
        length = bits
    w.assume(compare("<=", binop("+", offset, length), 8 * n))
    # the frame is as long as the mapping needs: last mapped bit lies in the last byte
    pm = w.obj("env.stubs:MapStub", data=frame, name="map")
    var = w.obj(PV, od=od, pdo_parent=pm, offset=offset, length=length, name="v", index=0x2000, subindex=0)
    w.pre.update(frame0=w.bytes_of(frame), offset=offset, length=length, bits=bits, signed=signed, n=n, pm=pm,
                 code=code)
    return var


def field_of(s, frame):
    """value of the mapped bit field of `frame` as the spec defines it (bit 0 of byte 0 first, little endian)"""
    X = S.le_uint(frame)
    ln, off = s.pre["length"], s.pre["offset"]
    m = binop("-", binop("<<", 1, ln), 1)
    f = binop("&", binop(">>", X, off), m)
    return S.sext(f, ln) if s.pre["signed"] else f


@contract
class PdoGet(Contract):
    target = "canopen.pdo.base:PdoVariable.get_data"
    props = ("C05", "C15")
    cases = FIELD_TYPES

    def setup(self, w, case):
        var = mk_pdovar(w, case)
        return Call(("method", var, "get_data"), [])

    def observe(self, w):
        return {"frame": w.get(w.pre["pm"], "data")}

    ensures = {
        "no-raise": lambda s: s.returned,
        "field-value": lambda s: Implies(s.returned, S.bytes_are(s.ret, S.le_bytes(field_of(s, s.pre["frame0"]),
                                                                                    s.pre["bits"] // 8))),
        "frame-untouched": lambda s: S.eq(s.w.get(s.pre["pm"], "data"), s.pre["frame0"]),
    }


@contract
class PdoSet(Contract):
    target = "canopen.pdo.base:PdoVariable.set_data"
    props = ("C05", "C15")
    cases = FIELD_TYPES

    def setup(self, w, case):
        code, bits, signed = case
        var = mk_pdovar(w, case)
        ln = w.pre["length"]
        # any value of the field's range (signed fields: two's complement range of `length` bits)
        if signed:
            v = w.int("v", -(1 << 63), (1 << 63) - 1)
            half = binop("<<", 1, binop("-", ln, 1))
            w.assume(And(compare(">=", v, binop("-", 0, half)), compare("<", v, half)))
        else:
            v = w.int("v", 0, (1 << 64) - 1)
            w.assume(compare("<", v, binop("<<", 1, ln)))
        data = w.bytes_of(S.le_bytes_items(v, bits // 8))
        w.pre.update(v=v)
        return Call(("method", var, "set_data"), [data])

    def observe(self, w):
        return {"frame": w.get(w.pre["pm"], "data")}

    @staticmethod
    def expected(s):
        X = S.le_uint(s.pre["frame0"])
        ln, off = s.pre["length"], s.pre["offset"]
        m = binop("-", binop("<<", 1, ln), 1)
        return binop("|", binop("&", X, binop("^", binop("<<", m, off), (1 << 64) - 1)),
                     binop("<<", binop("&", s.pre["v"], m), off))

    ensures = {
        "no-raise": lambda s: s.returned,
        "length-unchanged": lambda s: Implies(s.returned, S.is_bytes(s.w.get(s.pre["pm"], "data"), s.pre["n"])),
        "field-written-others-unchanged": lambda s: Implies(
            And(s.returned, S.is_bytes(s.w.get(s.pre["pm"], "data"), s.pre["n"])),
            compare("==", S.le_uint(s.w.get(s.pre["pm"], "data")), PdoSet.expected(s))),
        "update-called-once": lambda s: Implies(s.returned, len([e for e in s.ev if e == ("update",)]) == 1),
    }


@contract
class PdoDataSize(Contract):
    """the frame of a map is ceil(total mapped bits / 8) bytes long"""
    target = "canopen.pdo.base:PdoMap._update_data_size"
    props = ("C05",)

    def setup(self, w, case):
        total = w.int("total_bits", 0, 64)
        pm = w.obj("canopen.pdo.base:PdoMap", length=total, data=w.bytearray([]))
        w.pre.update(pm=pm, total=total)
        return Call(("method", pm, "_update_data_size"), [])

    ensures = {"ceil": lambda s: And(s.returned, compare("==", S.blen(s.w.get(s.pre["pm"], "data")),
                                                         binop(">>", binop("+", s.pre["total"], 7), 3)))}

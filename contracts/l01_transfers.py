"""Whole-transfer theorems for the segmented SDO client against a conformant server (env/sdoserver.py), proved by an
inductive loop invariant over the REAL WritableStream.write/close and ReadableStream.read code:
for every payload (any length up to 2**32-1, any contents) and every way the caller chunks its writes, every request
frame is legal in its protocol step and the server commits exactly the payload; an upload returns exactly the
server's value."""
import z3
from pyvc.engine import Contract, contract
from pyvc.worlds import Call
from pyvc import spec as S
from pyvc.values import And, Or, Not, Implies, Iff, compare, ite, binop, SObj, SBytes, LBytes, truth_val, SInt
from pyvc.interp import LoopSpec

WS = "canopen.sdo.client:WritableStream"
RS = "canopen.sdo.client:ReadableStream"


def _same_prefix(buf, data, n):
    """buf is exactly data[:n]: the same byte array (extensional array equality, decided by the solver), the same
    offset, length n"""
    from pyvc.values import mk_bool
    if not (isinstance(buf, LBytes) and isinstance(data, LBytes)):
        return False
    return And(mk_bool(buf.arr == data.arr), compare("==", buf.off, data.off), compare("==", buf.n, n))


def _dl_inv(interp, fr):
    w = interp.l01
    ws, srv, data = w.pre["ws"], w.pre["srv"], w.pre["data"]
    pos = fr.locals["pos"]
    f, s = ws.fields, srv.fields
    size = w.pre["size"]
    c = {"pos-range": And(compare(">=", pos, 0), compare("<=", pos, data.n)),
         "client-pos": S.eq(f["pos"], pos),
         "toggles-agree": And(S.eq(f["_toggle"], s["toggle"]), Or(S.eq(s["toggle"], 0), S.eq(s["toggle"], 0x10))),
         "segmented": f["_exp_header"] is None,
         "server-has-prefix": _same_prefix(s["buf"], data, pos),
         "total": S.eq(fr.locals["total"], data.n),
         "declared": (s["declared"] is None) if size is None else S.eq(s["declared"], data.n)}
    if size is None:
        c["open"] = And(Not(f["_done"]), S.eq(s["mode"], 1), s["committed"] is None)
    else:
        finished = compare(">=", pos, data.n)
        c["done-iff-all-sent"] = Iff(f["_done"], finished)
        c["server-mode"] = ite(finished, S.eq(s["mode"], 0), S.eq(s["mode"], 1))
        c["committed-iff-all-sent"] = ite(finished, _same_prefix(s["committed"], data, data.n) if isinstance(s["committed"], LBytes)
                                          else False, s["committed"] is None)
    return c


def _dl_havoc(interp, fr):
    w = interp.l01
    ws, srv, data = w.pre["ws"], w.pre["srv"], w.pre["data"]
    ctx = interp.ctx
    pos = ctx.fresh_int("h_pos", 0, (1 << 32) - 1)
    tog = ctx.fresh_int("h_toggle", 0, 0x10)
    fr.locals["pos"] = pos
    ws.fields["pos"] = pos
    ws.fields["_toggle"] = tog
    srv.fields["toggle"] = tog
    srv.fields["buf"] = LBytes(data.arr, data.off, pos, True)
    if w.pre["size"] is not None:
        # (the loop guard pos < total excludes the finished state inside the loop; on exit it is the finished one)
        fin = ctx.fresh_bool("h_finished")
        ctx.assume(Iff(fin, compare(">=", pos, data.n)))
        if bool(fin):
            ws.fields["_done"] = True
            srv.fields["mode"] = 0
            srv.fields["committed"] = LBytes(data.arr, data.off, data.n, False)
        else:
            ws.fields["_done"] = False
            srv.fields["mode"] = 1
            srv.fields["committed"] = None
    del ctx.events[:]
    ctx.emit("havoc-trace")


@contract
class DownloadTheorem(Contract):
    """segmented download of ANY payload in ANY chunking: no illegal frame, server commits exactly the payload"""
    target = "canopen.sdo.client:WritableStream.write"
    id = "DownloadTheorem"
    functions = ("canopen.sdo.client:WritableStream.__init__", "canopen.sdo.client:WritableStream.close")
    props = ("C01", "C03")
    cases = {"size-declared": True, "size-not-declared": False}
    loop_specs = {("download_in_chunks", 0): LoopSpec(_dl_inv, _dl_havoc,
                                                      lambda interp, fr: binop("-", fr.locals["total"], fr.locals["pos"]))}
    xcheck_n = 4
    max_paths = 3000

    def setup(self, w, case):
        index, sub = w.int("index", 0, 0xFFFF), w.int("sub", 0, 0xFF)
        data = w.lbytes("data", 5 if case else 0, (1 << 32) - 1)        # 1..4 declared bytes go expedited (own contract)
        srv = w.obj("env.sdoserver:ServerPeer", index=index, subindex=sub, buf=w.empty_prefix_of(data), value=None, announce_size=False,
                    toggle=0, mode=0, declared=None, committed=None, upos=0, rx_cobid=0x601)
        size = (data.n if hasattr(data, "n") else len(data)) if case else None
        ws = w.run(Call(("new", WS), [srv, index, sub, size, False]))
        w.pre.update(ws=ws, srv=srv, data=data, size=size)
        if not w.native:
            w.interp.l01 = w
        return Call(("func", "env.drivers", "download_in_chunks"), [ws, data])

    def observe(self, w):
        return {"committed": w.get(w.pre["srv"], "committed")}

    @staticmethod
    def ok(s):
        p = s.pre
        srv = p["srv"]
        com = s.w.get(srv, "committed")
        if not s.returned or any(e[0] == "illegal" for e in s.ev):
            return False
        if isinstance(com, LBytes) and isinstance(p["data"], LBytes):
            return _same_prefix(com, p["data"], p["data"].n)
        return S.is_byteslike(com) and S.same_bytes(com, p["data"])

    ensures = {"no-illegal-frame_commits-exactly-the-payload": lambda s: DownloadTheorem.ok(s)}


def _prefix_or_empty(buf, data, n):
    if isinstance(buf, SBytes):
        return And(len(buf.items) == 0, compare("==", n, 0))
    return _same_prefix(buf, data, n)


def _ul_inv(interp, fr):
    w = interp.l01
    rs, srv, value = w.pre["rs"], w.pre["srv"], w.pre["value"]
    f, s = rs.fields, srv.fields
    out = fr.locals["out"]
    upos = s["upos"]
    done = truth_val(f["_done"])
    return {"server-pos-range": And(compare(">=", upos, 0), compare("<=", upos, value.n)),
            "collected-is-prefix": _prefix_or_empty(out, value, upos),
            "toggles-agree": And(S.eq(f["_toggle"], s["toggle"]), Or(S.eq(s["toggle"], 0), S.eq(s["toggle"], 0x10))),
            "segmented": f["exp_data"] is None,
            "done-iff-server-finished": Iff(done, S.eq(s["mode"], 0)),
            "not-done-means-upload-open": Implies(Not(done), S.eq(s["mode"], 2)),
            "done-means-everything-sent": Implies(done, compare("==", upos, value.n))}


def _ul_havoc(interp, fr):
    w = interp.l01
    rs, srv, value = w.pre["rs"], w.pre["srv"], w.pre["value"]
    ctx = interp.ctx
    upos = ctx.fresh_int("h_upos", 0, (1 << 32) - 1)
    tog = ctx.fresh_int("h_toggle", 0, 0x10)
    srv.fields["upos"] = upos
    srv.fields["toggle"] = tog
    rs.fields["_toggle"] = tog
    rs.fields["pos"] = ctx.fresh_int("h_rspos", 0, (1 << 33))
    fr.locals["out"] = LBytes(value.arr, value.off, upos, True)
    if bool(ctx.fresh_bool("h_done")):
        rs.fields["_done"] = True
        srv.fields["mode"] = 0
    else:
        rs.fields["_done"] = False
        srv.fields["mode"] = 2
    del ctx.events[:]
    ctx.emit("havoc-trace")


def _ul_variant(interp, fr):
    w = interp.l01
    s = w.pre["srv"].fields
    return binop("+", binop("-", w.pre["value"].n, s["upos"]), ite(truth_val(w.pre["rs"].fields["_done"]), 0, 1))


@contract
class UploadTheorem(Contract):
    """segmented upload of ANY value from a conformant server, size announced or not: every request frame is legal and
    the bytes collected by readall() are exactly the server's value"""
    target = "canopen.sdo.client:ReadableStream.read"
    id = "UploadTheorem"
    functions = ("canopen.sdo.client:ReadableStream.__init__",)
    props = ("C01", "C03")
    cases = {"size-announced": True, "size-not-announced": False}
    loop_specs = {("upload_all", 0): LoopSpec(_ul_inv, _ul_havoc, _ul_variant)}
    xcheck_n = 4
    max_paths = 3000

    def setup(self, w, case):
        index, sub = w.int("index", 0, 0xFFFF), w.int("sub", 0, 0xFF)
        value = w.lbytes("value", 0, (1 << 32) - 1)
        srv = w.obj("env.sdoserver:ServerPeer", index=index, subindex=sub, buf=None, value=value, announce_size=case,
                    toggle=0, mode=0, declared=None, committed=None, upos=0, rx_cobid=0x601)
        rs = w.run(Call(("new", RS), [srv, index, sub]))
        w.pre.update(rs=rs, srv=srv, value=value)
        if not w.native:
            w.interp.l01 = w
        return Call(("func", "env.drivers", "upload_all"), [rs])

    @staticmethod
    def ok(s):
        p = s.pre
        if not s.returned or any(e[0] == "illegal" for e in s.ev):
            return False
        if isinstance(p["value"], LBytes):
            return _prefix_or_empty(s.ret, p["value"], p["value"].n)
        return S.is_byteslike(s.ret) and S.same_bytes(s.ret, p["value"])

    ensures = {"no-illegal-frame_returns-exactly-the-value": lambda s: UploadTheorem.ok(s)}

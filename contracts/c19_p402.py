"""C19 — CiA 402 statusword decoding and commanded state transitions (profiles/p402.py)."""
from pyvc.engine import Contract, contract
from pyvc.worlds import Call
from pyvc import spec as S
from pyvc.values import And, Or, Not, Implies, Iff, compare, ite, binop, SObj
from spec import cia402

NODE = "canopen.profiles.p402:BaseNode402"
DSTATES = ("NOT READY TO SWITCH ON", "SWITCH ON DISABLED", "READY TO SWITCH ON", "SWITCHED ON", "OPERATION ENABLED",
           "QUICK STOP ACTIVE", "FAULT REACTION ACTIVE", "FAULT")


def matches(sw, state):
    m, v = cia402.SW_PATTERN[state]
    return compare("==", binop("&", sw, m), v)


@contract
class StateDecode(Contract):
    """every 16-bit statusword is reported as exactly the power state whose pattern it matches, else UNKNOWN"""
    target = "canopen.profiles.p402:BaseNode402.state"
    functions = ("canopen.profiles.p402:BaseNode402.statusword",)
    props = ("C19",)

    def setup(self, w, case):
        sw = w.int("sw", 0, 0xFFFF)
        node = w.obj(NODE, id=1, tpdo_values=w.dict({0x6041: sw}), tpdo_pointers=w.dict({}), rpdo_pointers=w.dict({}))
        w.pre.update(sw=sw)
        return Call(("getattr", node, "state"), [])

    @staticmethod
    def ok(s):
        if not s.returned or not isinstance(s.ret, str):
            return False
        sw = s.pre["sw"]
        conds = [Implies(matches(sw, st), s.ret == st) for st in cia402.STATES]
        conds.append(Implies(Not(Or([matches(sw, st) for st in cia402.STATES])), s.ret == "UNKNOWN"))
        return And(conds)

    ensures = {"decode": lambda s: StateDecode.ok(s)}


def mk_node_with_drive(w, from_state, auto):
    drive = w.obj("env.drive402:Drive", state=DSTATES.index(from_state), auto=auto, mode=0, supported=0)
    sdo = w.dict({0x6041: w.obj("env.drive402:StatusVar", drive=drive), 0x6040: w.obj("env.drive402:ControlVar", drive=drive),
                  0x6060: w.obj("env.drive402:ModeVar", drive=drive), 0x6061: w.obj("env.drive402:ModeVar", drive=drive),
                  0x6502: w.obj("env.drive402:SupportedVar", drive=drive)})
    node = w.obj(NODE, id=1, tpdo_values=w.dict({}), tpdo_pointers=w.dict({}), rpdo_pointers=w.dict({}), sdo=sdo)
    w.pre.update(drive=drive, node=node)
    return node, drive


PAIRS = {"%s->%s" % (f, t): (f, t) for f in DSTATES for t in cia402.COMMANDABLE}


@contract
class NextState(Contract):
    """one planning step: the state returned is reachable from the current one by a transition CiA 402 defines
    (commanded or automatic), and OPERATION ENABLED is only chosen when the target is OPERATION ENABLED or QUICK STOP ACTIVE"""
    target = "canopen.profiles.p402:BaseNode402._next_state"
    functions = ("canopen.profiles.p402:State402.next_state_indirect", "canopen.profiles.p402:BaseNode402.state")
    props = ("C19",)
    cases = PAIRS

    def setup(self, w, case):
        frm, tgt = case
        node, drive = mk_node_with_drive(w, frm, False)
        w.pre.update(frm=frm, tgt=tgt)
        return Call(("method", node, "_next_state"), [tgt])

    @staticmethod
    def ok(s):
        frm, tgt = s.pre["frm"], s.pre["tgt"]
        if frm == tgt:
            return True          # never asked (the setter's loop guard)
        if not s.returned or not isinstance(s.ret, str):
            return False
        r = s.ret
        legal = (frm, r) in cia402.TRANSITIONS or (frm, r) in cia402.AUTOMATIC
        return legal and (r != "OPERATION ENABLED" or tgt in ("OPERATION ENABLED", "QUICK STOP ACTIVE"))

    ensures = {"step-legal-and-no-unrequested-enable": lambda s: NextState.ok(s)}


@contract
class NextStateRefused(Contract):
    target = "canopen.profiles.p402:BaseNode402._next_state"
    id = "NextStateRefused"
    props = ("C19",)
    cases = {"%s->%s" % (f, t): (f, t) for f in DSTATES for t in cia402.NOT_COMMANDABLE}
    exits = ("raise:ValueError",)

    def setup(self, w, case):
        frm, tgt = case
        node, drive = mk_node_with_drive(w, frm, False)
        return Call(("method", node, "_next_state"), [tgt])

    ensures = {"refused-without-command": lambda s: And(s.raised(ValueError), len([e for e in s.ev if e[0] == "cw"]) == 0)}


@contract
class ChangeState(Contract):
    """_change_state(to) from `frm` for every transition CiA 402 lets a master command: exactly one controlword is
    written, it is the CiA 402 command for that transition, and True is returned only when the drive reports `to`.
    (loop cut after one iteration: the loop head state is again an arbitrary drive state)"""
    target = "canopen.profiles.p402:BaseNode402._change_state"
    functions = ("canopen.profiles.p402:BaseNode402.controlword.setter", "canopen.profiles.p402:BaseNode402.check_statusword")
    props = ("C19",)
    cases = {"%s->%s" % k: k for k in cia402.TRANSITIONS}
    loop_cuts = {"BaseNode402._change_state": 1}
    xcheck = False

    def setup(self, w, case):
        frm, to = case
        node, drive = mk_node_with_drive(w, frm, False)
        w.pre.update(frm=frm, to=to)
        return Call(("method", node, "_change_state"), [to])

    @staticmethod
    def ok(s):
        frm, to = s.pre["frm"], s.pre["to"]
        cws = [e for e in s.ev if e[0] == "cw"]
        if len(cws) != 1:
            return False
        m, v = cia402.CW[cia402.TRANSITIONS[(frm, to)]]
        good_cw = compare("==", binop("&", cws[0][1], m), v)
        if s.returned and bool(S.is_true(s.ret)):
            return And(good_cw, s.w.get(s.pre["drive"], "state") == DSTATES.index(to))
        return And(good_cw, s.returned)

    ensures = {"controlword-is-the-CiA402-command": lambda s: ChangeState.ok(s)}


@contract
class SetState(Contract):
    """`node.state = target` against the conformant drive (no automatic transitions pending): terminates in the
    target state and operation is never enabled unless the target is OPERATION ENABLED or QUICK STOP ACTIVE"""
    target = "canopen.profiles.p402:BaseNode402.state.setter"
    functions = ("canopen.profiles.p402:BaseNode402._next_state", "canopen.profiles.p402:BaseNode402._change_state")
    props = ("C19",)
    cases = {k: v for k, v in PAIRS.items() if v[0] not in ("NOT READY TO SWITCH ON", "FAULT REACTION ACTIVE")}
    max_paths = 400
    frozen_time = True
    clock_patience = 200        # a conformant drive reacts at once: 200 clock reads without completion = stalled

    def setup(self, w, case):
        frm, tgt = case
        node, drive = mk_node_with_drive(w, frm, False)
        w.pre.update(frm=frm, tgt=tgt)
        return Call(("setattr", node, "state"), [tgt])

    @staticmethod
    def ok(s):
        tgt = s.pre["tgt"]
        if not s.returned:
            return False
        if s.w.get(s.pre["drive"], "state") != DSTATES.index(tgt):
            return False
        visited = [e[2] for e in s.ev if e[0] == "drive" and e[1] == "to"]
        if tgt not in ("OPERATION ENABLED", "QUICK STOP ACTIVE") and DSTATES.index("OPERATION ENABLED") in visited:
            return False
        return True

    ensures = {"reaches-target-legally": lambda s: SetState.ok(s)}


@contract
class SetStateAuto(Contract):
    """same, starting in a state the drive leaves on its own (automatic transition before or after any status read)"""
    target = "canopen.profiles.p402:BaseNode402.state.setter"
    id = "SetStateAuto"
    props = ("C19",)
    cases = {k: v for k, v in PAIRS.items() if v[0] in ("NOT READY TO SWITCH ON", "FAULT REACTION ACTIVE")}
    max_paths = 3000
    loop_cuts = {"BaseNode402._change_state": 3, "BaseNode402.state": 12}
    exits = ()
    frozen_time = True          # the drive reacts at once; deadlines are not part of this contract

    def setup(self, w, case):
        frm, tgt = case
        node, drive = mk_node_with_drive(w, frm, True)
        w.pre.update(frm=frm, tgt=tgt)
        return Call(("setattr", node, "state"), [tgt])

    ensures = {"reaches-target-or-times-out": lambda s: Or(And(s.returned, SetState.ok(s)), s.raised(RuntimeError))}


def mk_node_with_pdo_drive(w, from_state, periodic):
    """controlword in an RPDO, statusword in a TPDO (no SDO objects for them: any SDO access would be a KeyError); the
    cached statusword is the drive's current one (as after setup_402_state_machine and one reception)"""
    drive = w.obj("env.drive402:Drive", state=DSTATES.index(from_state), auto=False, mode=0, supported=0)
    sw0 = w.int("sw0", 0, 0xFFFF)
    mask, val = cia402.SW_PATTERN[from_state]
    w.assume(compare("==", binop("&", sw0, mask), val))
    node = w.obj(NODE, id=1, tpdo_values=w.dict({0x6041: sw0}), tpdo_pointers=w.dict({}), rpdo_pointers=w.dict({}),
                 sdo=w.dict({0x6041: w.obj("env.drive402:StatusVar", drive=drive)}))
    link = w.obj("env.drive402:PdoLink", drive=drive, node=node, periodic=periodic, cw=0, cw_pending=False, sw=sw0)
    tv = w.obj("env.drive402:TpdoVar", link=link, pdo_parent=w.obj("env.drive402:TpdoMap", link=link))
    rv = w.obj("env.drive402:RpdoVar", link=link, pdo_parent=w.obj("env.drive402:RpdoMap", link=link))
    w.setfield(node, "tpdo_pointers", w.dict({0x6041: tv}))
    w.setfield(node, "rpdo_pointers", w.dict({0x6040: rv}))
    w.pre.update(drive=drive, node=node, link=link)
    return node, drive


@contract
class SetStatePdo(Contract):
    """`node.state = target` with the controlword carried by an RPDO and the statusword by a TPDO (event-driven or
    periodic; env/drive402.py PdoLink): terminates in the target state, operation never enabled on the way unless the
    target asks for it, and the cached statusword ends up being the drive's"""
    target = "canopen.profiles.p402:BaseNode402.state.setter"
    id = "SetStatePdo"
    functions = ("canopen.profiles.p402:BaseNode402._next_state", "canopen.profiles.p402:BaseNode402._change_state",
                 "canopen.profiles.p402:BaseNode402.check_statusword", "canopen.profiles.p402:BaseNode402.statusword",
                 "canopen.profiles.p402:BaseNode402.controlword.setter", "canopen.profiles.p402:BaseNode402.on_TPDOs_update_callback")
    props = ("C19",)
    cases = {"%s/%s" % (k, "periodic" if per else "event"): (v, per) for k, v in PAIRS.items()
             if v[0] not in ("NOT READY TO SWITCH ON", "FAULT REACTION ACTIVE") for per in (False, True)}
    max_paths = 600
    frozen_time = True
    clock_patience = 200

    def setup(self, w, case):
        (frm, tgt), periodic = case
        node, drive = mk_node_with_pdo_drive(w, frm, periodic)
        w.pre.update(frm=frm, tgt=tgt)
        return Call(("setattr", node, "state"), [tgt])

    ensures = {"reaches-target-legally": lambda s: SetState.ok(s)}


MODES = {m: m for m in cia402.MODE_CODE}


@contract
class OpModeSet(Contract):
    """an operation mode the drive does not advertise is refused (nothing written); a supported one is written to the
    drive as its CiA 402 mode code"""
    target = "canopen.profiles.p402:BaseNode402.op_mode.setter"
    functions = ("canopen.profiles.p402:BaseNode402.is_op_mode_supported", "canopen.profiles.p402:BaseNode402.op_mode")
    props = ("C19",)
    cases = MODES
    xcheck = False
    exits = ("return", "raise:TypeError")

    def setup(self, w, case):
        node, drive = mk_node_with_drive(w, "SWITCH ON DISABLED", False)
        sup = w.int("supported", 0, 0xFFFFFFFF)
        drive.fields["supported"] = sup
        # the mode the drive displays beforehand is any defined one - also the requested one, also one it does not advertise
        codes = sorted(set(cia402.MODE_CODE.values()))
        drive.fields["mode"] = w.choose(w.int("displayed_mode", min(codes), max(codes)), codes)
        w.pre.update(sup=sup, mode=case)
        return Call(("setattr", node, "op_mode"), [case])

    @staticmethod
    def ok(s):
        mode = s.pre["mode"]
        has = compare("!=", binop("&", s.pre["sup"], 1 << cia402.MODE_BIT[mode]), 0)
        writes = [e for e in s.ev if e[0] == "mode"]
        if bool(has):
            return And(s.returned, len(writes) == 1, compare("==", writes[0][1], cia402.MODE_CODE[mode]))
        return And(s.raised(TypeError), len(writes) == 0)

    ensures = {"unsupported-refused_supported-written-as-code": lambda s: OpModeSet.ok(s)}


def mk_node_with_mode_pdo(w, periodic):
    """6060h in an RPDO, 6061h in a TPDO (no SDO objects for them: any SDO access would be a KeyError); the cached
    display is the drive's current one (as after setup_pdos and one reception)"""
    codes = sorted(set(cia402.MODE_CODE.values()))
    cur = w.choose(w.int("displayed_mode", min(codes), max(codes)), codes)
    sup = w.int("supported", 0, 0xFFFFFFFF)
    drive = w.obj("env.drive402:Drive", state=1, auto=False, mode=cur, supported=sup)
    node = w.obj(NODE, id=1, tpdo_values=w.dict({0x6061: cur}), tpdo_pointers=w.dict({}), rpdo_pointers=w.dict({}),
                 sdo=w.dict({0x6502: w.obj("env.drive402:SupportedVar", drive=drive)}))
    link = w.obj("env.drive402:ModeLink", drive=drive, node=node, periodic=periodic, code=0, pending=False, display=cur)
    tv = w.obj("env.drive402:ModeTpdoVar", link=link, pdo_parent=w.obj("env.drive402:ModeTpdoMap", link=link))
    rv = w.obj("env.drive402:ModeRpdoVar", link=link, pdo_parent=w.obj("env.drive402:ModeRpdoMap", link=link))
    w.setfield(node, "tpdo_pointers", w.dict({0x6061: tv}))
    w.setfield(node, "rpdo_pointers", w.dict({0x6060: rv}))
    w.pre.update(drive=drive, node=node, link=link, sup=sup, cur=cur)
    return node, drive


@contract
class OpModePdo(Contract):
    """`node.op_mode = mode` with 6060h carried by an RPDO and 6061h by a TPDO (event-driven or periodic; env/drive402.py
    ModeLink): an unsupported mode is refused with nothing written or transmitted; a supported one reaches the drive as
    its CiA 402 code (nothing else is ever written or transmitted), and the setter returns with the drive in that mode and
    the cached display equal to that code"""
    target = "canopen.profiles.p402:BaseNode402.op_mode.setter"
    id = "OpModePdo"
    functions = ("canopen.profiles.p402:BaseNode402.is_op_mode_supported", "canopen.profiles.p402:BaseNode402.op_mode",
                 "canopen.profiles.p402:BaseNode402.on_TPDOs_update_callback")
    props = ("C19",)
    cases = {"%s/%s" % (m, "periodic" if per else "event"): (m, per) for m in MODES for per in (False, True)}
    xcheck = False
    exits = ("return", "raise:TypeError")
    frozen_time = True
    clock_patience = 200

    def setup(self, w, case):
        mode, periodic = case
        node, drive = mk_node_with_mode_pdo(w, periodic)
        w.pre.update(mode=mode, periodic=periodic)
        return Call(("setattr", node, "op_mode"), [mode])

    @staticmethod
    def ok(s):
        mode = s.pre["mode"]
        code = cia402.MODE_CODE[mode]
        has = compare("!=", binop("&", s.pre["sup"], 1 << cia402.MODE_BIT[mode]), 0)
        writes = [e for e in s.ev if e[0] == "mode"]
        sent = [e for e in s.ev if e[0] == "rpdo"]
        if not bool(has):
            return And(s.raised(TypeError), len(writes) == 0, len(sent) == 0)
        if not s.returned or len(writes) < 1:
            return False
        tv = s.w.get(s.pre["node"], "tpdo_values")
        cached = (tv.d if hasattr(tv, "d") else tv).get(0x6061)
        if cached is None:
            return False
        return And(And([compare("==", e[1], code) for e in writes]), compare("==", s.w.get(s.pre["drive"], "mode"), code),
                   compare("==", cached, code), And([compare("==", e[1], code) for e in sent]))

    ensures = {"unsupported-refused_supported-reaches-drive-as-code": lambda s: OpModePdo.ok(s)}

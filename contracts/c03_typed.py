"""C03 — typed access through SdoVariable: raw <-> bytes through encode/decode and upload/download; lookups; COB-ids."""
from pyvc.engine import Contract, contract
from pyvc.worlds import Call
from pyvc import spec as S
from pyvc.values import And, Or, Not, Implies, Iff, compare, ite, binop, SObj, SBytes, truth_val
from contracts.c04_codec import INT_TYPES, OD, rng

SV = "canopen.sdo.base:SdoVariable"


def mk_sv(w, code, held=None):
    od = w.obj(OD, data_type=code, min=None, max=None, name="v", index=w.int("index", 0, 0xFFFF), subindex=w.int("sub", 0, 255),
               parent=None, value_descriptions=w.dict({}), factor=1)
    node = w.obj("env.stubs:SdoNodeStub", od=None, held=held)
    sv = w.obj(SV, sdo_node=node, od=od, name="v", index=w.get(od, "index"), subindex=w.get(od, "subindex"))
    w.pre.update(sv=sv, od=od, index=w.get(od, "index"), sub=w.get(od, "subindex"))
    return sv


@contract
class RawSet(Contract):
    """var.raw = v: exactly one download of the CiA 301 little-endian encoding of v to the variable's multiplexer;
    DOMAIN data is always sent segmented"""
    target = "canopen.variable:Variable.raw.setter"
    functions = ("canopen.variable:Variable.data.setter", "canopen.sdo.base:SdoVariable.set_data",
                 "canopen.objectdictionary:ODVariable.encode_raw")
    props = ("C03",)
    cases = dict(INT_TYPES, DOMAIN=(0x0F, 0, False), OCTET_STRING=(0x0A, 0, False))

    def setup(self, w, case):
        code, bits, signed = case
        sv = mk_sv(w, code)
        if bits:
            lo, hi = rng(bits, signed)
            v = w.int("v", lo, hi)
        else:
            v = w.lbytes("v", 0, 1 << 16)
        w.pre.update(v=v, bits=bits, code=code)
        return Call(("setattr", sv, "raw"), [v])

    @staticmethod
    def ok(s):
        p = s.pre
        dl = [e for e in s.ev if e[0] == "download"]
        if not s.returned or len(dl) != 1 or len(s.ev) != 1:
            return False
        _, idx, sub, data, force = dl[0]
        payload = S.bytes_are(data, S.le_bytes(p["v"], p["bits"] // 8)) if p["bits"] else S.same_bytes(data, p["v"])
        return And(S.eq(idx, p["index"]), S.eq(sub, p["sub"]), payload, force is (p["code"] == 0x0F))

    ensures = {"encode-then-download": lambda s: RawSet.ok(s)}


@contract
class RawGet(Contract):
    """var.raw: exactly one upload from the variable's multiplexer, decoded as the CiA 301 representation"""
    target = "canopen.variable:Variable.raw"
    functions = ("canopen.variable:Variable.data", "canopen.sdo.base:SdoVariable.get_data",
                 "canopen.objectdictionary:ODVariable.decode_raw")
    props = ("C03",)
    cases = INT_TYPES

    def setup(self, w, case):
        code, bits, signed = case
        held = w.bytes("held", bits // 8)
        sv = mk_sv(w, code, held)
        w.pre.update(held=held, bits=bits, signed=signed)
        return Call(("getattr", sv, "raw"), [])

    @staticmethod
    def ok(s):
        p = s.pre
        ul = [e for e in s.ev if e[0] == "upload"]
        if not s.returned or len(ul) != 1:
            return False
        x = S.le_uint(p["held"])
        return And(S.eq(ul[0][1], p["index"]), S.eq(ul[0][2], p["sub"]), S.is_int(s.ret),
                   S.eq(s.ret, S.sext(x, p["bits"]) if p["signed"] else x))

    ensures = {"upload-then-decode": lambda s: RawGet.ok(s)}


@contract
class SdoGetItem(Contract):
    """node.sdo[index], node.sdo['Name'], node.sdo['Record.Member'] and node.sdo[index][sub] wrap the same dictionary entry"""
    target = "canopen.sdo.base:SdoBase.__getitem__"
    functions = ("canopen.sdo.base:SdoRecord.__getitem__", "canopen.sdo.base:SdoArray.__getitem__",
                 "canopen.sdo.base:SdoVariable.__init__", "canopen.variable:Variable.__init__")
    props = ("C03",)

    def setup(self, w, case):
        return Call(("func", "env.drivers", "sdo_getitem"), [])

    ensures = {"same-entry-by-index-name-dotted": lambda s: And(s.returned, S.is_true(s.ret))}


@contract
class CobIds(Contract):
    """a node with id n talks SDO on 0x600+n (requests) and 0x580+n (responses): distinct node ids never share a COB-ID"""
    target = "canopen.node.remote:RemoteNode.__init__"
    functions = ("canopen.node.local:LocalNode.__init__", "canopen.node.base:BaseNode.__init__",
                 "canopen.node.remote:RemoteNode.add_sdo")
    props = ("C03",)
    cases = {"remote": "canopen.node.remote:RemoteNode", "local": "canopen.node.local:LocalNode"}
    xcheck = False

    def stubs(self, interp):
        def skip(interp_, fv, args, kwargs):
            return None
        return {("canopen.pdo", "PdoBase.__init__"): skip, ("canopen.pdo", "TPDO.__init__"): skip, ("canopen.pdo", "RPDO.__init__"): skip,
                ("canopen.pdo", "PDO.__init__"): skip, ("canopen.node.local", "LocalNode.add_write_callback"): skip}

    def setup(self, w, case):
        nid = w.int("node_id", 1, 127)
        import canopen
        od = w.obj("canopen.objectdictionary:ObjectDictionary", indices=w.dict({}), names=w.dict({}), node_id=None, bitrate=None,
                   comments="")
        w.pre.update(nid=nid, case=case)
        return Call(("new", case), [nid, od])

    @staticmethod
    def ok(s):
        p = s.pre
        if not s.returned:
            return False
        sdo = s.ret.fields["sdo"].fields
        return And(S.eq(sdo["rx_cobid"], binop("+", 0x600, p["nid"])), S.eq(sdo["tx_cobid"], binop("+", 0x580, p["nid"])),
                   S.eq(s.ret.fields["id"], p["nid"]))

    ensures = {"sdo-cob-ids": lambda s: CobIds.ok(s)}

"""C04 — data type codec (ODVariable.encode_raw / decode_raw, IntegerN / UnsignedN, STRUCT_TYPES)."""
from pyvc.engine import Contract, contract
from pyvc.worlds import Call
from pyvc import spec as S
from pyvc.values import And, Or, Not, Implies, Iff, compare, ite

# CiA 301 data type codes -> (bits, signed); taken from the standard, not from the repo's constants
INT_TYPES = {
    "INTEGER8": (0x02, 8, True), "INTEGER16": (0x03, 16, True), "INTEGER24": (0x10, 24, True),
    "INTEGER32": (0x04, 32, True), "INTEGER40": (0x12, 40, True), "INTEGER48": (0x13, 48, True),
    "INTEGER56": (0x14, 56, True), "INTEGER64": (0x15, 64, True),
    "UNSIGNED8": (0x05, 8, False), "UNSIGNED16": (0x06, 16, False), "UNSIGNED24": (0x16, 24, False),
    "UNSIGNED32": (0x07, 32, False), "UNSIGNED40": (0x18, 40, False), "UNSIGNED48": (0x19, 48, False),
    "UNSIGNED56": (0x1A, 56, False), "UNSIGNED64": (0x1B, 64, False),
}
OD = "canopen.objectdictionary:ODVariable"


def rng(bits, signed):
    return (-(1 << (bits - 1)), (1 << (bits - 1)) - 1) if signed else (0, (1 << bits) - 1)


def mkvar(w, code, with_limits=True):
    mn = mx = None
    if with_limits:
        if w.bool("has_min"):
            mn = w.int("min", -(1 << 70), 1 << 70)
        if w.bool("has_max"):
            mx = w.int("max", -(1 << 70), 1 << 70)
    return w.obj(OD, data_type=code, min=mn, max=mx, name="v", index=0x2000, subindex=0, parent=None)


@contract
class EncodeRaw(Contract):
    target = "canopen.objectdictionary:ODVariable.encode_raw"
    functions = ("canopen.objectdictionary.datatypes:IntegerN.pack", "canopen.objectdictionary.datatypes:UnsignedN.pack",
                 "canopen.objectdictionary.datatypes:IntegerN.size", "canopen.objectdictionary.datatypes:UnsignedN.size")
    props = ("C04", "C03")
    cases = INT_TYPES
    exits = ("return", "raise:ValueError")

    def setup(self, w, case):
        code, bits, signed = case
        var = mkvar(w, code)
        v = w.int("v", -(1 << 100), 1 << 100)
        w.pre.update(v=v, bits=bits, signed=signed)
        return Call(("method", var, "encode_raw"), [v])

    ensures = {
        "exact": lambda s: Implies(S.inrange(s.pre["v"], *rng(s.pre["bits"], s.pre["signed"])),
                                   And(s.returned, S.bytes_are(s.ret, S.le_bytes(s.pre["v"], s.pre["bits"] // 8)))),
        "out-of-range-rejected": lambda s: Implies(Not(S.inrange(s.pre["v"], *rng(s.pre["bits"], s.pre["signed"]))),
                                                   s.raised(ValueError)),
        "only-ValueError": lambda s: Or(s.returned, s.raised(ValueError)),
    }
    regions = {
        # known finding: IntegerN/UnsignedN.pack truncate instead of rejecting (24/40/48/56-bit types)
        "wraps-within-carrier": lambda s: Not(S.inrange(s.pre["v"], *rng(s.pre["bits"], s.pre["signed"]))),
    }


@contract
class EncodeRawBool(Contract):
    target = "canopen.objectdictionary:ODVariable.encode_raw"
    id = "EncodeRawBool"
    props = ("C04",)
    cases = {"BOOLEAN": 0x01}

    def setup(self, w, case):
        var = mkvar(w, case, False)
        v = w.bool("v")
        w.pre.update(v=v)
        return Call(("method", var, "encode_raw"), [v])

    ensures = {
        "exact": lambda s: And(s.returned, S.bytes_are(s.ret, [ite(s.pre["v"], 1, 0)])),
    }


@contract
class DecodeRaw(Contract):
    target = "canopen.objectdictionary:ODVariable.decode_raw"
    functions = ("canopen.objectdictionary.datatypes:IntegerN.unpack", "canopen.objectdictionary.datatypes:UnsignedN.unpack")
    props = ("C04", "C03")
    cases = INT_TYPES

    def setup(self, w, case):
        code, bits, signed = case
        var = mkvar(w, code, False)
        data = w.bytes("data", bits // 8)
        w.pre.update(data=data, bits=bits, signed=signed)
        return Call(("method", var, "decode_raw"), [data])

    ensures = {
        "inverse": lambda s: And(s.returned, S.is_int(s.ret),
                                 compare("==", s.ret, S.sext(S.le_uint(s.pre["data"]), s.pre["bits"]) if s.pre["signed"]
                                         else S.le_uint(s.pre["data"]))),
    }


@contract
class DecodeRawBool(Contract):
    target = "canopen.objectdictionary:ODVariable.decode_raw"
    props = ("C04",)
    cases = {"BOOLEAN": 0x01}

    def setup(self, w, case):
        var = mkvar(w, case, False)
        data = w.bytes("data", 1)
        w.pre.update(data=data)
        return Call(("method", var, "decode_raw"), [data])

    ensures = {
        "inverse": lambda s: And(s.returned, S.is_bool(s.ret),
                                 Iff(s.ret, compare("!=", S.byte(s.pre["data"], 0), 0))),
    }


@contract
class DecodeWrongLength(Contract):
    """a byte string of the wrong length is never decoded into a number"""
    target = "canopen.objectdictionary:ODVariable.decode_raw"
    props = ("C04", "C06")
    cases = dict(INT_TYPES, BOOLEAN=(0x01, 8, False), REAL32=(0x08, 32, False), REAL64=(0x11, 64, False))
    exits = ()

    def setup(self, w, case):
        code, bits, signed = case
        var = mkvar(w, code, False)
        data = w.lbytes("data", 0, 16)
        w.assume(compare("!=", data.n if hasattr(data, "n") else len(data), bits // 8))
        return Call(("method", var, "decode_raw"), [data])

    ensures = {
        "wrong-length-rejected": lambda s: s.raised(),
    }


@contract
class DecodeEncode(Contract):
    """decoding any pattern of the right length and re-encoding reproduces the pattern"""
    target = "canopen.objectdictionary:ODVariable.decode_raw"
    id = "DecodeEncode"
    props = ("C04",)
    cases = INT_TYPES

    def setup(self, w, case):
        code, bits, signed = case
        var = mkvar(w, code, False)
        data = w.bytes("data", bits // 8)
        w.pre.update(data=data)
        return Call(("func", "env.drivers", "decode_encode"), [var, data])

    ensures = {
        "pattern-reproduced": lambda s: And(s.returned, S.is_bytes(s.ret), S.eq(s.ret, s.pre["data"])),
    }


@contract
class EncodeDecode(Contract):
    """value -> bytes -> value is the identity for every value in range"""
    target = "canopen.objectdictionary:ODVariable.encode_raw"
    id = "EncodeDecode"
    props = ("C04", "C03")
    cases = INT_TYPES

    def setup(self, w, case):
        code, bits, signed = case
        var = mkvar(w, code, False)
        lo, hi = rng(bits, signed)
        v = w.int("v", lo, hi)
        w.pre.update(v=v)
        return Call(("func", "env.drivers", "encode_decode"), [var, v])

    ensures = {
        "roundtrip": lambda s: And(s.returned, S.is_int(s.ret), compare("==", s.ret, s.pre["v"])),
    }


@contract
class VarLen(Contract):
    target = "canopen.objectdictionary:ODVariable.__len__"
    props = ("C04", "C05")
    cases = dict(INT_TYPES, BOOLEAN=(0x01, 8, False), REAL32=(0x08, 32, False), REAL64=(0x11, 64, False),
                 DOMAIN=(0x0F, 8, False), VISIBLE_STRING=(0x09, 8, False))

    def setup(self, w, case):
        code, bits, signed = case
        var = mkvar(w, code, False)
        w.pre.update(bits=bits)
        return Call(("method", var, "__len__"), [])

    ensures = {"bits": lambda s: And(s.returned, compare("==", s.ret, s.pre["bits"]))}

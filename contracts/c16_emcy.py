"""C16 — EMCY consumer log / active list, producer frames, error class descriptions."""
from pyvc.engine import Contract, contract
from pyvc.worlds import Call
from pyvc import spec as S
from pyvc.values import And, Or, Not, Implies, Iff, compare, ite, binop, SObj
from spec import cia301

CONS = "canopen.emcy:EmcyConsumer"


def entry_is(e, code, register, data5, ts):
    """e is an EmcyError carrying exactly these values"""
    if not (isinstance(e, SObj) and e.cls.__name__ == "EmcyError"):
        return False
    return And(compare("==", e.fields["code"], code), compare("==", e.fields["register"], register),
               S.is_bytes(e.fields["data"], 5), S.eq(e.fields["data"], data5), e.fields["timestamp"] == ts)


@contract
class OnEmcy(Contract):
    target = "canopen.emcy:EmcyConsumer.on_emcy"
    functions = ("canopen.emcy:EmcyError.__init__",)
    props = ("C16",)
    cases = {"-": None}

    def setup(self, w, case):
        log = w.plist("log", elem=lambda i: w.obj("canopen.emcy:EmcyError", code=i, register=0, data=b"\0" * 5, timestamp=0.0))
        active = w.plist("active", elem=lambda i: w.obj("canopen.emcy:EmcyError", code=0x1000 + i, register=0, data=b"\0" * 5, timestamp=0.0))
        cbs = w.plist("callbacks")
        cons = w.obj(CONS, log=log, active=active, callbacks=cbs,
                     emcy_received=w.new_condition())
        data = w.bytes("data", 8)
        ts = 12.5
        w.pre.update(cons=cons, data=data, ts=ts, log0=w.snap(log), active0=w.snap(active), cbs0=w.snap(cbs))
        return Call(("method", cons, "on_emcy"), [0x81, data, ts])

    def observe(self, w):
        c = w.pre["cons"]
        return {"nlog": len(w.get(c, "log")), "nactive": len(w.get(c, "active"))}

    @staticmethod
    def fields(s):
        d = s.pre["data"]
        code = S.le_uint(S.sub(d, 0, 2))
        return code, S.byte(d, 2), S.sub(d, 3, 8)

    @staticmethod
    def log_ok(s):
        ok, new = S.appended(s.w.get(s.pre["cons"], "log"), s.pre["log0"], 1)
        if not ok:
            return False
        code, reg, d5 = OnEmcy.fields(s)
        return entry_is(new[0], code, reg, d5, s.pre["ts"])

    @staticmethod
    def active_ok(s):
        code, reg, d5 = OnEmcy.fields(s)
        act = s.w.get(s.pre["cons"], "active")
        is_reset = compare("==", binop("&", code, 0xFF00), 0)
        if bool(is_reset):                      # forks in the proof world
            return S.is_empty_list(act)
        ok, new = S.appended(act, s.pre["active0"], 1)
        return ok and entry_is(new[0], code, reg, d5, s.pre["ts"]) and new[0] is s.w.get(s.pre["cons"], "log").items[-1]

    @staticmethod
    def callbacks_ok(s):
        log = s.w.get(s.pre["cons"], "log")
        if not log.items:
            return False
        return S.events_are(s, S.expected_calls(s.pre["cbs0"], (log.items[-1],)), kinds=("cb", "foreach-call"))

    ensures = {
        "no-raise": lambda s: s.returned,
        "log-append": lambda s: OnEmcy.log_ok(s),
        "active-reset-or-append": lambda s: OnEmcy.active_ok(s),
        "callbacks-once-in-order": lambda s: OnEmcy.callbacks_ok(s),
        "callbacks-unchanged": lambda s: S.same_list(s.w.get(s.pre["cons"], "callbacks"), s.pre["cbs0"]),
        "waiters-notified": lambda s: len([e for e in s.ev if e == ("notify_all",)]) == 1,
    }


@contract
class EmcyReset(Contract):
    target = "canopen.emcy:EmcyConsumer.reset"
    props = ("C16",)

    def setup(self, w, case):
        cons = w.obj(CONS, log=w.plist("log"), active=w.plist("active"), callbacks=w.plist("callbacks"))
        w.pre.update(cons=cons)
        return Call(("method", cons, "reset"), [])

    ensures = {"both-empty": lambda s: And(s.returned, S.is_empty_list(s.w.get(s.pre["cons"], "log")),
                                           S.is_empty_list(s.w.get(s.pre["cons"], "active"))),
               "two-separate-lists": lambda s: s.w.get(s.pre["cons"], "log") is not s.w.get(s.pre["cons"], "active")}


@contract
class EmcyResetThenFrames(Contract):
    """history: reset() followed by two error frames: the log holds exactly those two entries once each, in order, and
    so does the active list"""
    target = "canopen.emcy:EmcyConsumer.reset"
    id = "EmcyResetThenFrames"
    functions = ("canopen.emcy:EmcyConsumer.on_emcy",)
    props = ("C16",)

    def setup(self, w, case):
        cons = w.obj(CONS, log=w.plist("log"), active=w.plist("active"), callbacks=w.list([]), emcy_received=w.new_condition())
        d1, d2 = w.bytes("d1", 8), w.bytes("d2", 8)
        w.assume(compare("!=", S.byte(d1, 1), 0))
        w.assume(compare("!=", S.byte(d2, 1), 0))
        w.pre.update(cons=cons, d1=d1, d2=d2)
        return Call(("func", "env.drivers", "emcy_reset_then", ), [cons, d1, d2])

    def observe(self, w):
        c = w.pre["cons"]
        return {"nlog": len(w.get(c, "log")), "nactive": len(w.get(c, "active"))}

    @staticmethod
    def ok(s):
        c = s.pre["cons"]
        log, act = s.w.get(c, "log"), s.w.get(c, "active")
        if log.base is not None or act.base is not None or len(log.items) != 2 or len(act.items) != 2:
            return False
        return And(entry_is(log.items[0], S.le_uint(S.sub(s.pre["d1"], 0, 2)), S.byte(s.pre["d1"], 2), S.sub(s.pre["d1"], 3, 8), 1.0),
                   entry_is(log.items[1], S.le_uint(S.sub(s.pre["d2"], 0, 2)), S.byte(s.pre["d2"], 2), S.sub(s.pre["d2"], 3, 8), 2.0),
                   act.items[0] is log.items[0], act.items[1] is log.items[1])

    ensures = {"one-entry-per-frame-after-reset": lambda s: And(s.returned, EmcyResetThenFrames.ok(s))}


@contract
class EmcyAddCallback(Contract):
    target = "canopen.emcy:EmcyConsumer.add_callback"
    props = ("C16",)

    def setup(self, w, case):
        cbs = w.plist("callbacks")
        cons = w.obj(CONS, log=w.plist("log"), active=w.plist("active"), callbacks=cbs)
        cb = w.callback("new")
        w.pre.update(cons=cons, cb=cb, cbs0=w.snap(cbs))
        return Call(("method", cons, "add_callback"), [cb])

    @staticmethod
    def ok(s):
        ok, new = S.appended(s.w.get(s.pre["cons"], "callbacks"), s.pre["cbs0"], 1)
        return ok and new[0] is s.pre["cb"]
    ensures = {"appended-last": lambda s: And(s.returned, EmcyAddCallback.ok(s))}


@contract
class EmcySend(Contract):
    """producer frame = <HB5s (code LE16, register, data zero-padded to 5) on the producer's COB-ID"""
    target = "canopen.emcy:EmcyProducer.send"
    functions = ("canopen.emcy:EmcyProducer.reset",)
    props = ("C16",)
    cases = {"send-%d" % n: ("send", n) for n in range(0, 6)}
    cases.update({"reset-%d" % n: ("reset", n) for n in range(0, 6)})

    def setup(self, w, case):
        which, n = case
        net = w.obj("env.net:Net")
        cob = w.int("cob", 0x81, 0xFF)
        prod = w.obj("canopen.emcy:EmcyProducer", network=net, cob_id=cob)
        reg = w.int("register", 0, 255)
        data = w.bytes("data", n)
        if which == "send":
            code = w.int("code", 0, 0xFFFF)
            w.pre.update(code=code, reg=reg, data=data, cob=cob)
            return Call(("method", prod, "send"), [code, reg, data])
        w.pre.update(code=0, reg=reg, data=data, cob=cob)
        return Call(("method", prod, "reset"), [reg, data])

    @staticmethod
    def frame_ok(s):
        sent = s.sent()
        if len(sent) != 1 or len(s.ev) != 1:
            return False
        _, cid, payload, remote = sent[0]
        p = s.pre
        exp = S.le_bytes(p["code"], 2) + [p["reg"]] + [S.byte(p["data"], i) for i in range(len(p["data"].items))] \
            + [0] * (5 - len(p["data"].items))
        return And(compare("==", cid, p["cob"]), S.bytes_are(payload, exp), Not(remote))

    ensures = {"one-frame-exact": lambda s: And(s.returned, EmcySend.frame_ok(s))}


@contract
class EmcyGetDesc(Contract):
    """every 16-bit code maps to its CiA 301 error class description (where CiA 301 defines the class)"""
    target = "canopen.emcy:EmcyError.get_desc"
    props = ("C16",)

    def setup(self, w, case):
        code = w.int("code", 0, 0xFFFF)
        e = w.obj("canopen.emcy:EmcyError", code=code, register=0, data=b"\0" * 5, timestamp=0.0, args=())
        w.pre.update(code=code)
        return Call(("method", e, "get_desc"), [])

    @staticmethod
    def ok(s):
        if not s.returned or not isinstance(s.ret, str):
            return False
        # on every path the returned description is a concrete string; the path condition must imply
        # that the code lies in a CiA 301 class carrying exactly that description, or in no defined class
        code = s.pre["code"]
        conds = []
        for (lo, hi, desc) in cia301.EMCY_CLASSES:
            inr = S.inrange(code, lo, hi)
            conds.append(Implies(inr, s.ret == desc))
        return And(conds)

    ensures = {"class-description": lambda s: EmcyGetDesc.ok(s)}


@contract
class EmcyWait(Contract):
    """wait(): hands out the entry that arrived during the wait if it matches the filter (and is in time), or
    None.  Condition.wait is a havoc point: either nothing arrived (time-out) or >= 1 entries were appended
    by on_emcy (whose post-condition is the step relation: log' = log ++ entries).  The `while True` loop is cut
    after one iteration: its head state (arbitrary log, fixed end_time, later clock) is a member of this
    contract's pre-state family, so every return of every iteration is covered (partial correctness)."""
    target = "canopen.emcy:EmcyConsumer.wait"
    props = ("C16",)
    cases = {"filtered": True, "unfiltered": False}
    xcheck = False
    loop_cuts = {"EmcyConsumer.wait": 1}
    exits = ("return",)

    def setup(self, w, case):
        log = w.plist("log")
        cons = w.obj(CONS, log=log, active=w.plist("active"), callbacks=w.plist("callbacks"),
                     emcy_received=w.new_condition())
        flt = w.int("filter", 0, 0xFFFF) if case else None
        w.pre.update(cons=cons, flt=flt, log0=w.snap(log))
        from pyvc import interp as I

        def hook(interp, cond, timeout):
            arrived = interp.ctx.fresh_bool("arrived")
            if bool(arrived):
                lg = cons.fields["log"]
                extra = interp.ctx.fresh_int("extra", 0, 1 << 20)
                code = interp.ctx.fresh_int("newcode", 0, 0xFFFF)
                e = w.obj("canopen.emcy:EmcyError", code=code, register=0, data=b"\0" * 5, timestamp=1.0, args=())
                from pyvc.values import binop
                total = binop("+", binop("+", lg.base.length, len(lg.items)), extra)
                cons.fields["log"] = I.SList([e], I.PBase(lg.base.name + "+", total))
                w.pre["last"] = e
                interp.ctx.emit("wait", True)
            else:
                interp.ctx.emit("wait", False)
            return None
        w.interp.cond_wait_hook = hook
        return Call(("method", cons, "wait"), [flt, 10])

    @staticmethod
    def ok(s):
        if not s.returned:
            return False
        arrived = [e for e in s.ev if e[0] == "wait"][-1][1]
        if not arrived:
            return s.ret is None                      # nothing on time-out
        last = s.pre["last"]
        if s.ret is None:
            return True                               # late or not matching: nothing handed out in this round
        if s.ret is not last:
            return False
        return True if s.pre["flt"] is None else compare("==", last.fields["code"], s.pre["flt"])

    ensures = {"returns-match-or-None": lambda s: EmcyWait.ok(s)}

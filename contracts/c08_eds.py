"""C08 / C14 — the numeric helpers of EDS import/export and the dictionary's lookups (whole-document processing is
text handling outside the engine: bounded stand-ins in bounded/eds.py)."""
from pyvc.engine import Contract, contract
from pyvc.worlds import Call
from pyvc import spec as S
from pyvc.values import And, Or, Not, Implies, Iff, compare, ite, binop, SObj, SBytes, truth_val
from contracts.c04_codec import INT_TYPES, rng

SIGNED = {k: v for k, v in INT_TYPES.items() if v[2]}
EDS = "canopen.objectdictionary.eds"


@contract
class CalcBitLength(Contract):
    target = "canopen.objectdictionary.eds:_calc_bit_length"
    props = ("C08",)
    cases = SIGNED

    def setup(self, w, case):
        w.pre.update(bits=case[1])
        return Call(("func", EDS, "_calc_bit_length"), [case[0]])

    ensures = {"width": lambda s: And(s.returned, S.eq(s.ret, s.pre["bits"]))}


@contract
class SignedIntFromHex(Contract):
    """a hex limit of a signed type is read as two's complement: n >= 2**(bits-1) means n - 2**bits"""
    target = "canopen.objectdictionary.eds:_signed_int_from_hex"
    props = ("C08",)
    cases = {"%d" % b: b for b in (8, 16, 24, 32, 40, 48, 56, 64)}

    def setup(self, w, case):
        n = w.int("n", 0, (1 << case) - 1)
        w.pre.update(n=n, bits=case)
        return Call(("func", EDS, "_signed_int_from_hex"), [w.inttext(n), case])

    ensures = {"twos-complement": lambda s: And(s.returned, S.eq(s.ret, S.sext(s.pre["n"], s.pre["bits"])))}


def mk_cfg(w, section, options):
    return w.obj("env.cfg:Config", sections=w.dict({section: w.dict(options)}))


@contract
class BuildVariableNumbers(Contract):
    """build_variable: data type, access type (lower-cased), PDO mappability, default / parameter value, and limits —
    two's-complement hex limits of signed types become negative numbers"""
    target = "canopen.objectdictionary.eds:build_variable"
    functions = ("canopen.objectdictionary.eds:_convert_variable", "canopen.objectdictionary.eds:_signed_int_from_hex",
                 "canopen.objectdictionary.eds:_calc_bit_length", "canopen.objectdictionary:ODVariable.__init__")
    props = ("C08", "C14")
    cases = INT_TYPES

    def setup(self, w, case):
        code, bits, signed = case
        lo, hi = rng(bits, signed)
        dflt = w.int("default", 0, hi)
        val = w.int("value", 0, hi)
        lowp = w.int("low_pattern", 0, (1 << bits) - 1)        # limits are written as bit patterns (hex)
        highp = w.int("high_pattern", 0, (1 << bits) - 1)
        mappable = w.bool("mappable")
        opts = {"ParameterName": "Some name", "DataType": "0x%04X" % code, "AccessType": "RW",
                "PDOMapping": "1" if bool(mappable) else "0", "DefaultValue": w.inttext(dflt), "ParameterValue": w.inttext(val, "%d"),
                "LowLimit": w.inttext(lowp), "HighLimit": w.inttext(highp)}
        cfg = mk_cfg(w, "2000", opts)
        w.pre.update(code=code, bits=bits, signed=signed, dflt=dflt, val=val, lowp=lowp, highp=highp, mappable=mappable)
        return Call(("func", EDS, "build_variable"), [cfg, "2000", None, 0x2000, 0])

    @staticmethod
    def ok(s):
        p = s.pre
        if not s.returned or not isinstance(s.ret, SObj):
            return False
        f = s.ret.fields
        lim = (lambda x: S.sext(x, p["bits"])) if p["signed"] else (lambda x: x)
        return And(f["name"] == "Some name", S.eq(f["index"], 0x2000), S.eq(f["subindex"], 0), S.eq(f["data_type"], p["code"]),
                   f["access_type"] == "rw", Iff(f["pdo_mappable"], p["mappable"]), S.eq(f["default"], p["dflt"]),
                   S.eq(f["value"], p["val"]), S.eq(f["min"], lim(p["lowp"])), S.eq(f["max"], lim(p["highp"])),
                   f["storage_location"] is None)

    ensures = {"fields-as-described": lambda s: BuildVariableNumbers.ok(s)}


# every data type CiA 301 defines in the static data types area 0x01..0x1B (0x0E and 0x17 are reserved and left
# unconstrained); the library's own tables lack TIME_OF_DAY 0x0C and TIME_DIFFERENCE 0x0D, an EDS may still describe them
ALL_CODES = {"0x%02X" % c: c for c in range(0x01, 0x1C) if c not in (0x0E, 0x17)}
NON_NUMERIC = (0x08, 0x11, 0x09, 0x0A, 0x0B, 0x0F)       # REAL32/64, the three string types, DOMAIN


@contract
class BuildVariableDataType(Contract):
    """build_variable keeps the described data type for EVERY data type code CiA 301 defines in 0x01..0x1B (also the ones the library has no
    codec for: TIME_OF_DAY, TIME_DIFFERENCE), and for all of them that are not strings / reals / DOMAIN the default
    and parameter values are read as the numbers they spell"""
    target = "canopen.objectdictionary.eds:build_variable"
    id = "BuildVariableDataType"
    functions = ("canopen.objectdictionary.eds:_convert_variable", "canopen.objectdictionary:ODVariable.__init__")
    props = ("C08", "C14")
    # two families, so that a wrong type is reported even where the wrong type's value conversion is outside the engine
    cases = dict([(k, (c, False)) for k, c in ALL_CODES.items()] +
                 [(k + "/values", (c, True)) for k, c in ALL_CODES.items() if c not in NON_NUMERIC])

    def setup(self, w, case):
        code, numeric = case
        opts = {"ParameterName": "Some name", "DataType": "0x%04X" % code, "AccessType": "ro", "PDOMapping": "0"}
        dflt = val = None
        if numeric:
            dflt = w.int("default", 0, 0xFF)
            val = w.int("value", 0, 0xFF)
            opts["DefaultValue"] = w.inttext(dflt)
            opts["ParameterValue"] = w.inttext(val, "%d")
        cfg = mk_cfg(w, "2000", opts)
        w.pre.update(code=code, numeric=numeric, dflt=dflt, val=val)
        return Call(("func", EDS, "build_variable"), [cfg, "2000", None, 0x2000, 0])

    @staticmethod
    def ok(s):
        p = s.pre
        if not s.returned or not isinstance(s.ret, SObj):
            return False
        f = s.ret.fields
        r = And(S.eq(f["data_type"], p["code"]), f["access_type"] == "ro", Not(f["pdo_mappable"]))
        if p["numeric"]:
            r = And(r, S.eq(f["default"], p["dflt"]), S.eq(f["value"], p["val"]))
        return r

    ensures = {"type-kept_numbers-read": lambda s: BuildVariableDataType.ok(s)}


@contract
class RevertConvert(Contract):
    """export then import of a number: _convert_variable(_revert_variable(v)) == v for every value of the type,
    negative ones included"""
    target = "canopen.objectdictionary.eds:_revert_variable"
    functions = ("canopen.objectdictionary.eds:_convert_variable",)
    props = ("C14",)
    cases = INT_TYPES

    def setup(self, w, case):
        code, bits, signed = case
        lo, hi = rng(bits, signed)
        v = w.int("v", lo, hi)
        w.pre.update(v=v)
        return Call(("func", "env.drivers", "revert_convert"), [code, v])

    ensures = {"inverse": lambda s: And(s.returned, S.eq(s.ret, s.pre["v"]))}


@contract
class OdLookup(Contract):
    """after add_object / add_member, looking an object up by index, by name, or by 'Parent.Child' reaches the same object"""
    target = "canopen.objectdictionary:ObjectDictionary.__getitem__"
    functions = ("canopen.objectdictionary:ObjectDictionary.add_object", "canopen.objectdictionary:ODRecord.add_member",
                 "canopen.objectdictionary:ODRecord.__getitem__", "canopen.objectdictionary:ObjectDictionary.get_variable",
                 "canopen.objectdictionary:ObjectDictionary.__contains__", "canopen.objectdictionary:ODArray.add_member",
                 "canopen.objectdictionary:ODArray.__getitem__")
    props = ("C08", "C03")
    cases = {"record": "canopen.objectdictionary:ODRecord", "array": "canopen.objectdictionary:ODArray"}

    def setup(self, w, case):
        w.pre.update(case=case)
        return Call(("func", "env.drivers", "od_lookup"), [w.cls(case)])

    ensures = {"index-name-dotted-agree": lambda s: And(s.returned, S.is_true(s.ret))}

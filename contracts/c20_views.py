"""C20 — bit-field, described and physical views of a variable (variable.py, ODVariable.encode/decode_bits/desc/phys)."""
from pyvc.engine import Contract, contract
from pyvc.worlds import Call
from pyvc import spec as S
from pyvc.values import And, Or, Not, Implies, Iff, compare, ite, binop, SObj, SBytes, truth_val
from contracts.c04_codec import OD

ODE = "canopen.objectdictionary:ObjectDictionaryError"


def mkvar(w, bitdefs=None, descs=None):
    return w.obj(OD, data_type=0x07, min=None, max=None, name="v", index=0x2000, subindex=0, parent=None, factor=1,
                 bit_definitions=w.dict(bitdefs or {}), value_descriptions=w.dict(descs or {}))


def field_mask(lo, hi):
    return ((1 << (hi - lo)) - 1) << lo


# every contiguous bit range [lo, hi) within 32 bits; the raw value and the field value stay symbolic
RANGES = {"%d:%d" % (lo, hi): (lo, hi) for lo in range(0, 32) for hi in range(lo + 1, 33)}
SPELL = ("list", "name")
# thorough tier: every range within 32 bits in both spellings, and ranges reaching into the upper half of 64-bit values
RANGES64 = {"%d:%d" % (lo, hi): (lo, hi) for lo in range(0, 64) for hi in range(lo + 1, 65)
            if hi > 32 and (lo % 7 == 0 or hi - lo in (1, 2, 8, 33, 63, 64) or hi == 64)}


@contract
class EncodeBits(Contract):
    """assigning v to bits [lo, hi) changes exactly those bits of the raw value (two's complement for negatives)"""
    target = "canopen.objectdictionary:ODVariable.encode_bits"
    props = ("C20",)
    cases = {"%s/%s" % (k, sp): (v, sp) for k, v in RANGES.items() if (v[0] % 5 == 0 or v[1] - v[0] in (1, 2, 8, 31, 32)
                                                                        or v[1] == 32) for sp in SPELL}
    cases_thorough = {"%s/%s" % (k, sp): (v, sp) for k, v in list(RANGES.items()) + list(RANGES64.items()) for sp in SPELL}

    def setup(self, w, case):
        (lo, hi), sp = case
        bits = list(range(lo, hi))
        var = mkvar(w, {"field": w.list(bits)} if sp == "name" else None)
        raw = w.int("raw", -(1 << 63), (1 << 64) - 1)
        v = w.int("v", 0, (1 << (hi - lo)) - 1)
        w.pre.update(raw=raw, v=v, lo=lo, hi=hi)
        return Call(("method", var, "encode_bits"), [raw, "field" if sp == "name" else w.list(bits), v])

    @staticmethod
    def ok(s):
        p = s.pre
        m = field_mask(p["lo"], p["hi"])
        if not s.returned or not S.is_int(s.ret):
            return False
        outside_same = compare("==", binop("&", binop("^", s.ret, p["raw"]), ~m), 0)
        inside = compare("==", binop("&", binop(">>", s.ret, p["lo"]), (1 << (p["hi"] - p["lo"])) - 1), p["v"])
        return And(outside_same, inside)

    ensures = {"only-those-bits": lambda s: EncodeBits.ok(s)}


@contract
class DecodeBits(Contract):
    target = "canopen.objectdictionary:ODVariable.decode_bits"
    props = ("C20",)
    cases = EncodeBits.cases
    cases_thorough = EncodeBits.cases_thorough

    def setup(self, w, case):
        (lo, hi), sp = case
        bits = list(range(lo, hi))
        var = mkvar(w, {"field": w.list(bits)} if sp == "name" else None)
        raw = w.int("raw", -(1 << 63), (1 << 64) - 1)
        w.pre.update(raw=raw, lo=lo, hi=hi)
        return Call(("method", var, "decode_bits"), [raw, "field" if sp == "name" else w.list(bits)])

    ensures = {"field": lambda s: And(s.returned, S.eq(s.ret, binop("&", binop(">>", s.pre["raw"], s.pre["lo"]),
                                                                    (1 << (s.pre["hi"] - s.pre["lo"])) - 1)))}


@contract
class GetBits(Contract):
    """the four spellings of a bit field: bit number, list, slice a:b (bits a..b-1), defined name"""
    target = "canopen.variable:Bits._get_bits"
    props = ("C20",)
    cases = {"int": "int", "list": "list", "slice": "slice", "slice-step1": "slice1", "name": "name"}

    def setup(self, w, case):
        lo = w.choose(w.int("lo", 0, 31), range(0, 32))
        hi = w.choose(w.int("hi", 1, 32), range(1, 33))
        w.assume(lo < hi)
        w.pre.update(lo=lo, hi=hi, case=case)
        key = {"int": lo, "list": w.list(list(range(lo, hi))), "slice": slice(lo, hi), "slice1": slice(lo, hi, 1),
               "name": "field"}[case]
        # called the way Bits.__getitem__ / __setitem__ call it (through an instance of a 32-bit variable's view), so that
        # the helper may be a static or an instance method
        var = mkvar(w, {"field": w.list(list(range(lo, hi)))})
        holder = w.obj("env.stubs:RawVar", od=var, value=0)
        bits = w.obj("canopen.variable:Bits", variable=holder, raw=0)
        return Call(("method", bits, "_get_bits"), [key])

    @staticmethod
    def ok(s):
        p = s.pre
        if not s.returned:
            return False
        if p["case"] == "name":
            return s.ret == "field"
        exp = [p["lo"]] if p["case"] == "int" else list(range(p["lo"], p["hi"]))
        try:
            got = s.w.interp.iterate(s.ret)
        except Exception:
            return False
        return list(got) == exp

    ensures = {"bits-denoted": lambda s: GetBits.ok(s)}


@contract
class BitsSetItem(Contract):
    """var.bits[key] = v: reads the raw value when the view is created, writes back exactly once the raw value with
    exactly those bits changed; var.bits[key] reads them"""
    target = "canopen.variable:Bits.__setitem__"
    functions = ("canopen.variable:Bits.__init__", "canopen.variable:Bits.read", "canopen.variable:Bits.write",
                 "canopen.variable:Bits.__getitem__", "canopen.variable:Variable.bits")
    props = ("C20",)
    cases = {"set-int": ("set", "int"), "set-slice": ("set", "slice"), "set-list": ("set", "list"), "set-name": ("set", "name"),
             "get-int": ("get", "int"), "get-slice": ("get", "slice"), "get-list": ("get", "list"), "get-name": ("get", "name")}

    def setup(self, w, case):
        op, sp = case
        lo = w.choose(w.int("lo", 0, 31), range(0, 32))
        hi = lo + 1 if sp == "int" else w.choose(w.int("hi", 1, 32), range(1, 33))
        w.assume(lo < hi)
        var = mkvar(w, {"field": w.list(list(range(lo, hi)))})
        raw = w.int("raw", 0, (1 << 32) - 1)
        holder = w.obj("env.stubs:RawVar", od=var, value=raw)
        key = {"int": lo, "list": w.list(list(range(lo, hi))), "slice": slice(lo, hi), "name": "field"}[sp]
        v = w.int("v", 0, (1 << 32) - 1)
        w.assume(compare("<", v, 1 << (hi - lo)))
        w.pre.update(lo=lo, hi=hi, raw=raw, v=v, op=op, holder=holder)
        return Call(("func", "env.drivers", "bits_set" if op == "set" else "bits_get"), [holder, key] + ([v] if op == "set" else []))

    @staticmethod
    def ok(s):
        p = s.pre
        m = field_mask(p["lo"], p["hi"])
        writes = [e for e in s.ev if e[0] == "raw.set"]
        if not s.returned:
            return False
        if p["op"] == "get":
            return And(len(writes) == 0, S.eq(s.ret, binop(">>", binop("&", p["raw"], m), p["lo"])))
        if len(writes) != 1:
            return False
        exp = binop("|", binop("&", p["raw"], ~m & 0xFFFFFFFF), binop("<<", p["v"], p["lo"]))
        return S.eq(writes[0][1], exp)

    ensures = {"exactly-those-bits-written-back-once": lambda s: BitsSetItem.ok(s)}


DESCS = {"two": {0: "Off", 1: "On"}, "sparse": {0: "A", 5: "B", 0x7FFF: "C", -3: "D"}, "dup-text": {1: "X", 2: "X", 3: "Y"},
         "one": {42: "Answer"}, "twenty": {i * 3: "s%d" % i for i in range(20)}}


@contract
class DecodeDesc(Contract):
    """reading the described view: the description of the current value; a value without description is an error"""
    target = "canopen.objectdictionary:ODVariable.decode_desc"
    props = ("C20",)
    cases = dict(DESCS, none={})
    exits = ()

    def setup(self, w, case):
        var = mkvar(w, None, case)
        value = w.int("value", -(1 << 31), (1 << 32) - 1)
        w.pre.update(value=value, table=case)
        return Call(("method", var, "decode_desc"), [value])

    @staticmethod
    def ok(s):
        t, v = s.pre["table"], s.pre["value"]
        conds = [Implies(compare("==", v, k), And(s.returned, s.ret == d)) for k, d in t.items()]
        conds.append(Implies(Not(Or([compare("==", v, k) for k in t])), s.raised(ODE)))
        return And(conds)

    ensures = {"lookup-or-error": lambda s: DecodeDesc.ok(s)}


@contract
class EncodeDesc(Contract):
    """setting a description writes a value that carries it (the first one in table order); unknown text is an error"""
    target = "canopen.objectdictionary:ODVariable.encode_desc"
    props = ("C20",)
    cases = {"%s/%s" % (tn, d): (t, d) for tn, t in DESCS.items() for d in sorted(set(t.values())) + ["nope"] if tn != "twenty"}
    cases["none/x"] = ({}, "x")
    exits = ()

    def setup(self, w, case):
        t, d = case
        var = mkvar(w, None, t)
        w.pre.update(table=t, d=d)
        return Call(("method", var, "encode_desc"), [d])

    @staticmethod
    def ok(s):
        t, d = s.pre["table"], s.pre["d"]
        if not t:
            return s.raised(ODE)
        first = [k for k, x in t.items() if x == d]
        if not first:
            return s.raised(ValueError)
        return And(s.returned, S.eq(s.ret, first[0]))

    ensures = {"first-matching-value": lambda s: EncodeDesc.ok(s)}


@contract
class BitsAfterOtherView(Contract):
    """history on one Variable object: read a bit field, change the value through the raw view, then assign a bit
    field: the final raw value is the *current* value with exactly the assigned bits changed (no stale copy)"""
    target = "canopen.variable:Variable.bits"
    id = "BitsAfterOtherView"
    functions = ("canopen.variable:Variable.raw", "canopen.variable:Bits.__setitem__", "canopen.variable:Bits.__getitem__")
    props = ("C20",)
    cases = {"list": "list", "slice": "slice", "int": "int"}

    def setup(self, w, case):
        lo = w.choose(w.int("lo", 0, 31), range(0, 32, 5))
        hi = lo + 1 if case == "int" else w.choose(w.int("hi", 1, 32), (lo + 1, lo + 3, 32))
        w.assume(lo < hi and hi <= 32)
        od = mkvar(w)
        raw0 = w.bytes("raw0", 4)
        var = w.obj("env.stubs:MemVariable", od=od, mem=raw0, name="v", index=0x2000, subindex=0)
        newraw = w.int("newraw", 0, (1 << 32) - 1)
        v = w.int("v", 0, (1 << 32) - 1)
        w.assume(compare("<", v, 1 << (hi - lo)))
        key = {"int": lo, "list": w.list(list(range(lo, hi))), "slice": slice(lo, hi)}[case]
        w.pre.update(lo=lo, hi=hi, newraw=newraw, v=v)
        return Call(("func", "env.drivers", "bits_after_other_view"), [var, 0, newraw, key, v])

    @staticmethod
    def ok(s):
        p = s.pre
        m = field_mask(p["lo"], p["hi"])
        exp = binop("|", binop("&", p["newraw"], ~m & 0xFFFFFFFF), binop("<<", p["v"], p["lo"]))
        return And(s.returned, S.eq(s.ret, exp))

    ensures = {"no-stale-copy": lambda s: BitsAfterOtherView.ok(s)}


TEMPLATE_ATTRS = ("data_type", "unit", "factor", "min", "max", "default", "access_type", "description", "value_descriptions",
                  "bit_definitions", "storage_location")


@contract
class ArrayTemplate(Contract):
    """an array member that is not declared individually is created from the first element: same data type, unit,
    scaling factor, limits, default, access type, descriptions, bit definitions and storage location"""
    target = "canopen.objectdictionary:ODArray.__getitem__"
    props = ("C20", "C08")
    exits = ("return", "raise:KeyError")
    cases = {"sample-values": False, "any-limits-and-default": True}

    def setup(self, w, case):
        lo, hi, dflt = (w.int("min", -32768, 32767), w.int("max", -32768, 32767), w.int("default", -32768, 32767)) if case else (-5, 500, 7)
        tmpl = w.obj(OD, data_type=0x03, unit="mm", factor=0.1, min=lo, max=hi, default=dflt, access_type="ro", description="d",
                     value_descriptions=w.dict({1: "one"}), bit_definitions=w.dict({"b": w.list([0, 1])}), storage_location="RAM",
                     name="Element", index=0x2100, subindex=1, parent=None, value=None, relative=False, pdo_mappable=False)
        arr = w.obj("canopen.objectdictionary:ODArray", name="List", index=0x2100, subindices=w.dict({1: tmpl}),
                    names=w.dict({"Element": tmpl}), parent=None, storage_location=None)
        sub = w.int("sub", 0, 300)
        w.pre.update(tmpl=tmpl, sub=sub, arr=arr)
        return Call(("getitem", arr), [sub])

    @staticmethod
    def ok(s):
        p = s.pre
        sub = p["sub"]
        if bool(compare("==", sub, 1)):
            return s.returned and s.ret is p["tmpl"]
        if bool(Or(compare("<", sub, 1), compare(">", sub, 255))):
            return s.raised(KeyError)
        if not s.returned or not isinstance(s.ret, SObj):
            return False
        f, t = s.ret.fields, p["tmpl"].fields
        it = s.w.interp
        return And([S.eq(f["subindex"], sub), S.eq(f["index"], 0x2100), f.get("parent") is p["arr"]]
                   + [truth_val(it.equals(f.get(a), t[a])) for a in TEMPLATE_ATTRS])

    ensures = {"template-attributes-copied": lambda s: ArrayTemplate.ok(s)}

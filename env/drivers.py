"""Two-call harnesses over real code (round trips); interpreted by the engine and run natively."""


def decode_encode(var, data):
    return var.encode_raw(var.decode_raw(data))


def encode_decode(var, value):
    return var.decode_raw(var.encode_raw(value))


def assoc_then_remove(node, net):
    node.associate_network(net)
    node.remove_network()


def nop():
    return None


def stop_then_start(producer):
    producer.stop()
    producer.start()


def start_set_update(pm, new):
    pm.start()
    pm.data[:] = new
    pm.update()


def scan_twice(master_a, master_b):
    master_a.fast_scan()
    return master_b.fast_scan()


def bits_set(holder, key, value):
    from canopen.variable import Bits
    b = Bits(holder)
    b[key] = value


def bits_get(holder, key):
    from canopen.variable import Bits
    return Bits(holder)[key]


def bits_after_other_view(var, k1, newraw, key, value):
    """history: look at a bit field, change the value through the raw view, then assign a bit field"""
    var.bits[k1]
    var.raw = newraw
    var.bits[key] = value
    return var.raw


def subscribe_n(pm, n):
    for i in range(n):
        pm.subscribe()


def save_then_read(map_a, map_b):
    map_a.save()
    map_b.read()


def revert_convert(data_type, value):
    from canopen.objectdictionary import eds
    return eds._convert_variable(None, data_type, eds._revert_variable(data_type, value))


def od_lookup(container_cls):
    from canopen import objectdictionary as od_
    od = od_.ObjectDictionary()
    v = od_.ODVariable("Plain variable", 0x2000, 0)
    od.add_object(v)
    rec = container_cls("Group", 0x2001)
    m1 = od_.ODVariable("First member", 0x2001, 1)
    m2 = od_.ODVariable("Second member", 0x2001, 2)
    rec.add_member(m1)
    rec.add_member(m2)
    od.add_object(rec)
    ok = od[0x2000] is v and od["Plain variable"] is v and od[0x2001] is rec and od["Group"] is rec
    ok = ok and od[0x2001][1] is m1 and od["Group"]["First member"] is m1 and od["Group.First member"] is m1
    ok = ok and od["Group.Second member"] is m2 and od[0x2001][2] is m2 and od.get_variable(0x2001, 2) is m2
    ok = ok and od.get_variable(0x2000) is v and (0x2001 in od) and ("Group" in od) and (0x2002 not in od)
    ok = ok and v.parent is od and m1.parent is rec and rec.parent is od
    return ok


def sdo_getitem():
    from canopen import objectdictionary as od_
    from canopen.sdo.base import SdoBase, SdoVariable, SdoRecord, SdoArray
    od = od_.ObjectDictionary()
    v = od_.ODVariable("Plain variable", 0x2000, 0)
    od.add_object(v)
    rec = od_.ODRecord("Group", 0x2001)
    m1 = od_.ODVariable("First member", 0x2001, 1)
    rec.add_member(m1)
    od.add_object(rec)
    arr = od_.ODArray("List", 0x2002)
    a1 = od_.ODVariable("Element", 0x2002, 1)
    arr.add_member(a1)
    od.add_object(arr)
    sdo = SdoBase(0x601, 0x581, od)
    ok = sdo[0x2000].od is v and sdo["Plain variable"].od is v and isinstance(sdo[0x2000], SdoVariable)
    ok = ok and isinstance(sdo[0x2001], SdoRecord) and sdo[0x2001][1].od is m1 and sdo["Group"]["First member"].od is m1
    ok = ok and sdo["Group.First member"].od is m1 and sdo[0x2001][1].sdo_node is sdo
    ok = ok and isinstance(sdo[0x2002], SdoArray) and sdo[0x2002][1].od is a1 and sdo["List.Element"].od is a1
    ok = ok and sdo[0x2000].index == 0x2000 and sdo[0x2001][1].subindex == 1 and sdo["Group.First member"].name == "Group.First member"
    return ok


def emcy_reset_then(consumer, d1, d2):
    consumer.reset()
    consumer.on_emcy(0x81, d1, 1.0)
    consumer.on_emcy(0x81, d2, 2.0)


def download_in_chunks(stream, data):
    """the file-like layer above a raw stream: offers the not yet accepted data in pieces of arbitrary size until all
    of it was taken, then closes (the assumed contract of io.BufferedWriter / a direct caller of write())"""
    from env import rt
    pos = 0
    total = len(data)
    while pos < total:
        k = rt.choose_int("chunk", 1, 1 << 32)
        n = stream.write(data[pos:pos + k])
        pos = pos + n
    stream.close()


def upload_all(stream):
    """RawIOBase.readall(): concatenates successive read() results until an empty one"""
    out = bytearray()
    while True:
        d = stream.read(7)
        if not d:
            break
        out.extend(d)
    return out


def upload_all_and_close(stream):
    data = upload_all(stream)
    stream.close()
    return data


def pdo_set_then_get(var_a, var_b, data):
    before = var_b.get_data()
    var_a.set_data(data)
    return (before, var_b.get_data(), var_a.get_data())


def block_download_in_chunks(stream, data):
    """the file layer above a block-download stream: offers at least 7 bytes at a time (or all that is left)"""
    from env import rt
    pos = 0
    total = len(data)
    while pos < total:
        k = rt.choose_int("chunk", 7, 1 << 32)
        n = stream.write(data[pos:pos + k])
        pos = pos + n
    stream.close()


def open_and_upload_all(client, index, subindex):
    """open a raw upload stream on the client and read it to the end (what SdoClient.open(..., 'rb', buffering=0)
    followed by readall() does)"""
    from canopen.sdo.client import ReadableStream
    stream = ReadableStream(client, index, subindex)
    return upload_all(stream)


def write_once_and_close(stream, data):
    """a caller that hands the whole payload to write() at once"""
    stream.write(data)
    stream.close()


def download_then_upload(client, index, subindex, data, size):
    """a complete write of one object followed by a complete read of it through raw streams"""
    from canopen.sdo.client import WritableStream, ReadableStream
    ws = WritableStream(client, index, subindex, size, False)
    download_in_chunks(ws, data)
    rs = ReadableStream(client, index, subindex)
    return upload_all(rs)


def write_once_then_upload(client, index, subindex, data, size):
    from canopen.sdo.client import WritableStream, ReadableStream
    ws = WritableStream(client, index, subindex, size, False)
    write_once_and_close(ws, data)
    rs = ReadableStream(client, index, subindex)
    return upload_all(rs)


def write_then_close(stream, b):
    """what `with client.open(...) as f: f.write(b)` does when the write fails: the stream is still closed"""
    from env import rt
    from canopen.sdo.exceptions import SdoError
    failed = False
    try:
        stream.write(b)
    except SdoError:
        failed = True
        rt.emit("write-failed")
    stream.close()
    return failed


def write_two_pieces(stream, b1, b2):
    """a caller (or a BufferedWriter with a small buffer) hands the payload over in two pieces"""
    r1 = stream.write(b1)
    r2 = stream.write(b2)
    return (r1, r2)


def open_and_download(client, index, subindex, size, data):
    """open a raw download stream on the client and write the payload in chunks (what SdoClient.open(..., 'wb',
    buffering=0) followed by writes and close does)"""
    from canopen.sdo.client import WritableStream
    stream = WritableStream(client, index, subindex, size, False)
    download_in_chunks(stream, data)


def write_pieces(stream, pieces):
    """a caller hands the payload over in several pieces, one write() each"""
    r = []
    for p in pieces:
        r.append(stream.write(p))
    return tuple(r)

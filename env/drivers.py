"""Two-call harnesses over real code (round trips); interpreted by the engine and run natively."""


def decode_encode(var, data):
    return var.encode_raw(var.decode_raw(data))


def encode_decode(var, value):
    return var.decode_raw(var.encode_raw(value))


def assoc_then_remove(node, net):
    node.associate_network(net)
    node.remove_network()


def nop():
    return None


def stop_then_start(producer):
    producer.stop()
    producer.start()


def start_set_update(pm, new):
    pm.start()
    pm.data[:] = new
    pm.update()


def scan_twice(master_a, master_b):
    master_a.fast_scan()
    return master_b.fast_scan()

"""Two-call harnesses over real code (round trips); interpreted by the engine and run natively."""


def decode_encode(var, data):
    return var.encode_raw(var.decode_raw(data))


def encode_decode(var, value):
    return var.decode_raw(var.encode_raw(value))


def assoc_then_remove(node, net):
    node.associate_network(net)
    node.remove_network()


def nop():
    return None


def stop_then_start(producer):
    producer.stop()
    producer.start()


def start_set_update(pm, new):
    pm.start()
    pm.data[:] = new
    pm.update()


def scan_twice(master_a, master_b):
    master_a.fast_scan()
    return master_b.fast_scan()


def bits_set(holder, key, value):
    from canopen.variable import Bits
    b = Bits(holder)
    b[key] = value


def bits_get(holder, key):
    from canopen.variable import Bits
    return Bits(holder)[key]


def bits_after_other_view(var, k1, newraw, key, value):
    """history: look at a bit field, change the value through the raw view, then assign a bit field"""
    var.bits[k1]
    var.raw = newraw
    var.bits[key] = value
    return var.raw


def subscribe_n(pm, n):
    for i in range(n):
        pm.subscribe()


def save_then_read(map_a, map_b):
    map_a.save()
    map_b.read()

"""RawConfigParser reduced to what build_variable / copy_variable use: get (with fallback), has_option."""
from configparser import NoOptionError, NoSectionError

class _Missing:
    pass


_MISSING = _Missing()


class Config:
    def __init__(self, sections):
        self.sections = sections          # {section: {option: text}}

    def has_option(self, section, option):
        return section in self.sections and option in self.sections[section]

    def get(self, section, option, fallback=_MISSING):
        if section not in self.sections:
            if fallback is not _MISSING:
                return fallback
            raise NoSectionError(section)
        if option not in self.sections[section]:
            if fallback is not _MISSING:
                return fallback
            raise NoOptionError(option, section)
        return self.sections[section][option]

"""Runtime primitives for environment models.  Natively they read the oracle / append to the trace;
in the engine every function here is replaced by an intrinsic (pyvc.libmodels)."""
from pyvc.worlds import NativeRT, NativeAbort


def emit(*ev):
    NativeRT.events.append(tuple(ev))


def _last(name):
    """a native replay in real time may ask the environment more often than the proof-world path did (a wait loop spins
    until its real deadline): the environment then keeps answering as it did the last time"""
    k = (NativeRT.names.get(name, 0) - 1) if NativeRT.repeat_last else -1
    while k >= 0:
        n = name if k == 0 else "%s#%d" % (name, k)
        if n in NativeRT.oracle:
            return NativeRT.oracle[n]
        k -= 1
    raise NativeAbort("oracle has no value for " + name)


def choose_int(name, lo=None, hi=None):
    n = NativeRT.uniq(name)
    v = int(NativeRT.oracle[n] if n in NativeRT.oracle else _last(name))
    if (lo is not None and v < lo) or (hi is not None and v > hi):
        raise NativeAbort("oracle value out of range for " + n)
    return v


def choose_bool(name):
    n = NativeRT.uniq(name)
    return bool(NativeRT.oracle[n] if n in NativeRT.oracle else _last(name))


def choose_bytes(name, n):
    k = NativeRT.uniq(name)
    if k not in NativeRT.oracle:
        raise NativeAbort("oracle has no value for " + k)
    b = bytes(NativeRT.oracle[k])
    return (b + bytes(n))[:n]


def assume(c):
    if not c:
        raise NativeAbort("assumption false")


def snapshot(b):
    """immutable copy of a bytes-like (for event payloads)"""
    return bytes(b)


def crc_of(data):
    """CRC-16/XMODEM of a whole byte string (the peer's own computation)"""
    import binascii
    return binascii.crc_hqx(bytes(data), 0)


def segment7(data, start):
    """the seven bytes of data from position start, zero-padded behind the end of data (one CAN segment payload)"""
    return (bytes(data[start:start + 7]) + bytes(7))[:7]

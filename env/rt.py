"""Runtime primitives for environment models.  Natively they read the oracle / append to the trace;
in the engine every function here is replaced by an intrinsic (pyvc.libmodels)."""
from pyvc.worlds import NativeRT, NativeAbort


def emit(*ev):
    NativeRT.events.append(tuple(ev))


def choose_int(name, lo=None, hi=None):
    n = NativeRT.uniq(name)
    if n not in NativeRT.oracle:
        raise NativeAbort("oracle has no value for " + n)
    v = int(NativeRT.oracle[n])
    if (lo is not None and v < lo) or (hi is not None and v > hi):
        raise NativeAbort("oracle value out of range for " + n)
    return v


def choose_bool(name):
    n = NativeRT.uniq(name)
    if n not in NativeRT.oracle:
        raise NativeAbort("oracle has no value for " + n)
    return bool(NativeRT.oracle[n])


def choose_bytes(name, n):
    k = NativeRT.uniq(name)
    if k not in NativeRT.oracle:
        raise NativeAbort("oracle has no value for " + k)
    b = bytes(NativeRT.oracle[k])
    return (b + bytes(n))[:n]


def assume(c):
    if not c:
        raise NativeAbort("assumption false")


def snapshot(b):
    """immutable copy of a bytes-like (for event payloads)"""
    return bytes(b)


def crc_of(data):
    """CRC-16/XMODEM of a whole byte string (the peer's own computation)"""
    import binascii
    return binascii.crc_hqx(bytes(data), 0)


def segment7(data, start):
    """the seven bytes of data from position start, zero-padded behind the end of data (one CAN segment payload)"""
    return (bytes(data[start:start + 7]) + bytes(7))[:7]

"""Assumed contract of SdoClient.request_response as the stream classes see it (the real function is contracted
separately): the request is handed over; the answer is any 8-byte frame that is not an abort frame, or an
SdoAbortedError carrying the peer's code, or an SdoCommunicationError (no answer)."""
from env import rt
from canopen.sdo.exceptions import SdoAbortedError, SdoCommunicationError


class ClientStub:
    def __init__(self, rx_cobid):
        self.rx_cobid = rx_cobid

    def request_response(self, request):
        rt.emit("request", rt.snapshot(request))
        k = rt.choose_int("outcome", 0, 2)
        if k == 1:
            code = rt.choose_int("abort_code", 0, 0xFFFFFFFF)
            rt.emit("aborted", code)
            raise SdoAbortedError(code)
        if k == 2:
            rt.emit("silence")
            raise SdoCommunicationError("No SDO response received")
        r = rt.choose_bytes("response", 8)
        rt.assume(r[0] != 0x80)
        rt.emit("response", r)
        return r


class ReplyNet:
    """the bus + peer as request_response sees them: every frame sent is recorded; the peer answers a request with one
    arbitrary 8-byte frame (delivered through the real SdoClient.on_response) or stays silent"""

    def __init__(self, client, tx_cobid):
        self.client = client
        self.tx_cobid = tx_cobid

    def send_message(self, can_id, data, remote=False):
        rt.emit("send", can_id, rt.snapshot(data), remote)
        if len(data) == 8 and data[0] == 0x80:
            return                                   # a client abort is never answered
        if rt.choose_bool("answered"):
            r = rt.choose_bytes("reply", 8)
            rt.emit("reply", r)
            self.client.on_response(self.tx_cobid, r, 0.0)
        else:
            rt.emit("noreply")


from canopen.sdo.client import SdoClient


class FpStub:
    """the stream object open() hands back, reduced to what upload()/download() use.  For upload its read() result is
    the conclusion of the upload lemma: exactly the bytes the conformant server holds."""

    def __init__(self, size, data):
        self.size = size
        self.data = data

    def __enter__(self):
        return self

    def __exit__(self, *a):
        rt.emit("fp.close")
        return None

    def read(self, size=-1):
        rt.emit("fp.read", size)
        return self.data

    def write(self, b):
        rt.emit("fp.write", rt.snapshot(b))
        return len(b)


class OpenStubClient(SdoClient):
    """SdoClient whose open() is replaced by a recording stub; upload()/download() are the real inherited methods"""

    def open(self, index, subindex=0, mode="rb", encoding="ascii", buffering=1024, size=None, block_transfer=False,
             force_segment=False, request_crc_support=True):
        rt.emit("open", index, subindex, mode, buffering, size, block_transfer, force_segment)
        return self.fp


class OdVarStub:
    def __init__(self, var):
        self.var = var

    def get_variable(self, index, subindex=0):
        rt.emit("get_variable", index, subindex)
        return self.var

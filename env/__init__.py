"""Environment models (assumed contracts), written in the interpreted Python subset: the engine executes
their ASTs symbolically; natively they are ordinary Python driven by the same oracle (pyvc.worlds.NativeRT)."""

"""Small collaborator objects used in pre-states."""
from env import rt


class MapStub:
    """Stands for the PdoMap a PdoVariable lives in: owns the frame bytes, records update() calls."""

    def __init__(self, data):
        self.data = data
        self.name = "map"

    def update(self):
        rt.emit("update")


class NodeStub:
    """a node as the Network sees it (association is contracted separately on the real node classes)"""

    def __init__(self, node_id):
        self.id = node_id

    def associate_network(self, network):
        rt.emit("associate", self, network)

    def remove_network(self):
        rt.emit("remove", self)


class BusStub:
    """python-can bus: records the message handed to send()"""

    def send(self, msg):
        rt.emit("bus.send", msg.arbitration_id, rt.snapshot(msg.data), msg.is_remote_frame, msg.is_extended_id)

    def send_periodic(self, msg, period):
        rt.emit("bus.send_periodic", msg.arbitration_id, rt.snapshot(msg.data), msg.is_remote_frame,
                msg.is_extended_id, period)
        t = TaskStub(msg, period)
        rt.emit("task.start", t)
        return t


class BusStubModify(BusStub):
    """a bus whose cyclic tasks can modify their data in place"""

    def send_periodic(self, msg, period):
        rt.emit("bus.send_periodic", msg.arbitration_id, rt.snapshot(msg.data), msg.is_remote_frame,
                msg.is_extended_id, period)
        t = TaskStubModify(msg, period)
        rt.emit("task.start", t)
        return t


class TaskStub:
    """python-can cyclic task: transmits (id, payload snapshot taken at creation, period) until stopped"""

    def __init__(self, msg, period):
        self.msg = msg
        self.period = period
        self.arbitration_id = msg.arbitration_id
        self.payload = rt.snapshot(msg.data)
        self.remote = msg.is_remote_frame
        self.extended = msg.is_extended_id

    def stop(self):
        rt.emit("task.stop", self)


class TaskStubModify(TaskStub):
    def modify_data(self, msg):
        # python-can: the new message must keep the arbitration id; its other attributes replace the old ones
        self.payload = rt.snapshot(msg.data)
        self.remote = msg.is_remote_frame
        self.extended = msg.is_extended_id
        rt.emit("task.modify", self)


class ScannerStub:
    def on_message_received(self, can_id):
        rt.emit("scanner", can_id)


class NotifyNet:
    """network whose notify() either returns or raises (chosen by the oracle)"""

    def notify(self, can_id, data, timestamp):
        rt.emit("notify", can_id, data, timestamp)
        if rt.choose_bool("notify_raises"):
            raise ValueError("handler failed")


class MsgStub:
    def __init__(self, arbitration_id, data, timestamp, is_error_frame, is_remote_frame):
        self.arbitration_id = arbitration_id
        self.data = data
        self.timestamp = timestamp
        self.is_error_frame = is_error_frame
        self.is_remote_frame = is_remote_frame


class SdoChanStub:
    """an SDO channel as a node sees it: tx/rx COB-ids and the two handlers"""

    def __init__(self, rx_cobid, tx_cobid):
        self.rx_cobid = rx_cobid
        self.tx_cobid = tx_cobid
        self.network = None

    def on_response(self, can_id, data, timestamp):
        rt.emit("on_response", self)

    def on_request(self, can_id, data, timestamp):
        rt.emit("on_request", self)


class HandlerStub:
    def __init__(self):
        self.network = None

    def on_heartbeat(self, can_id, data, timestamp):
        rt.emit("on_heartbeat", self)

    def on_emcy(self, can_id, data, timestamp):
        rt.emit("on_emcy", self)

    def on_command(self, can_id, data, timestamp):
        rt.emit("on_command", self)


class BusStubShutdown(BusStub):
    def shutdown(self):
        rt.emit("bus.shutdown")


class NodeWithPdo:
    def __init__(self, node_id, pdo):
        self.id = node_id
        self.pdo = pdo


class RawVar:
    """a canopen.variable.Variable whose raw value lives in a field: records every write of the raw view"""

    def __init__(self, od, value):
        self.od = od
        self.value = value

    @property
    def raw(self):
        rt.emit("raw.get")
        return self.value

    @raw.setter
    def raw(self, v):
        rt.emit("raw.set", v)
        self.value = v


from canopen import variable as _variable


class MemVariable(_variable.Variable):
    """a real canopen Variable (raw / phys / desc / bits views inherited unchanged) backed by a bytes field"""

    def __init__(self, od, data):
        _variable.Variable.__init__(self, od)
        self.mem = data

    def get_data(self):
        rt.emit("get_data")
        return self.mem

    def set_data(self, data):
        rt.emit("set_data", rt.snapshot(data))
        self.mem = bytes(data)


class SdoNodeStub:
    """the SDO end point behind an SdoVariable: upload/download are the (contracted) transfers"""

    def __init__(self, od, held):
        self.od = od
        self.held = held

    def upload(self, index, subindex):
        rt.emit("upload", index, subindex)
        return self.held

    def download(self, index, subindex, data, force_segment=False):
        rt.emit("download", index, subindex, rt.snapshot(data), force_segment)

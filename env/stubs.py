"""Small collaborator objects used in pre-states."""
from env import rt


class MapStub:
    """Stands for the PdoMap a PdoVariable lives in: owns the frame bytes, records update() calls."""

    def __init__(self, data):
        self.data = data
        self.name = "map"

    def update(self):
        rt.emit("update")

"""Assumed contract of a standard-conformant SDO *block* server as the block-upload stream sees it through the
SdoClient interface (request_response / send_request / read_response / abort), without loss: it announces the size,
sends the value in segments of 7 bytes with sequence numbers 1..blksize per sub-block (the last segment flagged),
expects exactly one acknowledgement [A2, last sequence number, blksize] per sub-block, then sends the end frame with the
count of unused bytes and (when negotiated) the CRC of the whole value, and expects the final A1.  Every client frame
is checked for legality (rt.emit("illegal", why))."""
from env import rt
from canopen.sdo.base import CrcXmodem
from canopen.sdo.exceptions import SdoAbortedError, SdoCommunicationError


class BlockUploadServer:
    crc_cls = CrcXmodem
    RESPONSE_TIMEOUT = 0.3

    def __init__(self, index, subindex, value, server_crc):
        self.index = index
        self.subindex = subindex
        self.value = value
        self.server_crc = server_crc      # the server supports CRC
        self.use_crc = False
        self.pos = 0                      # bytes handed out
        self.seq = 0                      # sequence number of the last segment of the running sub-block
        self.blksize = 0
        self.phase = 0                    # 0 idle, 1 initiated, 2 sending, 3 awaiting ack, 4 end frame due, 5 awaiting A1, 6 closed
        self.finished = False
        self.rx_cobid = 0x601

    def illegal(self, why):
        rt.emit("illegal", why)
        raise SdoAbortedError(0x08000000)

    def request_response(self, request):
        if len(request) != 8 or self.phase != 0:
            self.illegal("unexpected request")
        cmd = request[0]
        if (cmd & 0xFB) != 0xA0 or (request[1] | (request[2] << 8)) != self.index or request[3] != self.subindex:
            self.illegal("initiate block upload: wrong command or multiplexer")
        if request[4] < 1 or request[4] > 127 or request[6] != 0 or request[7] != 0:
            self.illegal("initiate block upload: block size / reserved bytes")
        self.blksize = request[4]
        self.use_crc = self.server_crc and (cmd & 4) != 0
        self.phase = 1
        n = len(self.value)
        return bytes([0xC2 | (4 if self.server_crc else 0), request[1], request[2], request[3],
                      n & 0xFF, (n >> 8) & 0xFF, (n >> 16) & 0xFF, (n >> 24) & 0xFF])

    def send_request(self, request):
        rt.emit("client-frame", rt.snapshot(request))
        if len(request) != 8:
            self.illegal("frame not 8 bytes")
        cmd = request[0]
        if self.phase == 1:
            if cmd != 0xA3 or request[1] != 0 or request[2] != 0 or request[3] != 0:
                self.illegal("expected the start frame A3 00..")
            self.phase = 2
            self.seq = 0
        elif self.phase == 3:
            if cmd != 0xA2:
                self.illegal("expected a sub-block acknowledgement A2")
            if request[1] != self.seq:
                self.illegal("acknowledged sequence number is not the last one sent")
            if request[2] < 1 or request[2] > 127:
                self.illegal("block size out of range")
            self.blksize = request[2]
            self.seq = 0
            self.phase = 4 if self.finished else 2
        elif self.phase == 5:
            if cmd != 0xA1:
                self.illegal("expected the end confirmation A1")
            self.phase = 6
        else:
            self.illegal("client frame in the wrong protocol step")

    def read_response(self):
        if self.phase == 2:
            chunk = self.value[self.pos:self.pos + 7]
            n = len(chunk)
            self.pos = self.pos + n
            self.seq = self.seq + 1
            last = self.pos >= len(self.value)
            seg = bytearray(8)
            seg[0] = self.seq | (0x80 if last else 0)
            seg[1:1 + n] = chunk
            if last:
                self.finished = True
                self.last_len = n
            if last or self.seq >= self.blksize:
                self.phase = 3
            return bytes(seg)
        if self.phase == 4:
            crc = rt.crc_of(self.value) if self.use_crc else 0
            self.phase = 5
            return bytes([0xC1 | ((7 - self.last_len) << 2), crc & 0xFF, (crc >> 8) & 0xFF, 0, 0, 0, 0, 0])
        self.illegal("the client reads although the server has nothing to send")

    def abort(self, abort_code=0x08000000):
        rt.emit("abort", abort_code)


class BlockDownloadServer:
    """conformant block-download server behind a network that loses at most `losses_left` segments, each in a sub-block
    that does not contain the last segment (none by default), as the block-download stream sees it: announces a block size
    of its choosing (1..127) in the initiate response and in every acknowledgement, accepts the segments of a sub-block
    in sequence, acknowledges a complete sub-block (or the one ended by the last segment) with the number of the last
    segment; after a gap it discards the rest of the sub-block and acknowledges the last segment received in sequence;
    on the end frame it checks the count of unused bytes, the declared size and (when negotiated) the CRC
    before committing the value.  With any_loss set the network may lose ANY segment (also the last one, repeatedly)."""
    crc_cls = CrcXmodem
    RESPONSE_TIMEOUT = 0.3
    any_loss = False

    def __init__(self, index, subindex, buf, server_crc):
        self.index = index
        self.subindex = subindex
        self.buf = buf
        self.server_crc = server_crc
        self.use_crc = False
        self.declared = None
        self.seq = 0
        self.blksize = 0
        self.phase = 0            # 0 idle, 1 receiving segments, 2 acknowledgement due, 3 end frame expected, 4 done
        self.last_len = 0
        self.finished = False
        self.committed = None
        self.rx_cobid = 0x601
        self.sent = 0             # segments the client has put on the wire in the running sub-block
        self.losses_left = 0

    def illegal(self, why):
        rt.emit("illegal", why)
        raise SdoAbortedError(0x08000000)

    def request_response(self, request):
        if len(request) != 8:
            self.illegal("frame not 8 bytes")
        cmd = request[0]
        if self.phase == 0:
            if (cmd & 0xF9) != 0xC0 or (request[1] | (request[2] << 8)) != self.index or request[3] != self.subindex:
                self.illegal("initiate block download: wrong command or multiplexer")
            if cmd & 2:
                self.declared = request[4] | (request[5] << 8) | (request[6] << 16) | (request[7] << 24)
            elif request[4] != 0 or request[5] != 0 or request[6] != 0 or request[7] != 0:
                self.illegal("size bytes not zero although no size is indicated")
            self.use_crc = self.server_crc and (cmd & 4) != 0
            self.blksize = rt.choose_int("blksize", 1, 127)
            self.phase = 1
            self.seq = 0
            return bytes([0xA0 | (4 if self.server_crc else 0), request[1], request[2], request[3], self.blksize, 0, 0, 0])
        if self.phase == 3:
            if (cmd & 0xE3) != 0xC1:
                self.illegal("expected the end frame C1")
            n = (cmd >> 2) & 7
            valid = 7 - n
            k = valid
            while k < 7:
                if self.pending_last[k] != 0:
                    self.illegal("unused bytes of the last segment are not zero")
                k += 1
            self.buf.extend(self.pending_last[0:valid])
            if self.declared is not None and self.declared != len(self.buf):
                self.illegal("declared size differs from the bytes received")
            if self.use_crc:
                if (request[1] | (request[2] << 8)) != rt.crc_of(self.buf):
                    self.illegal("CRC rejected")
            if request[3] != 0 or request[4] != 0 or request[5] != 0 or request[6] != 0 or request[7] != 0:
                self.illegal("end frame padding not zero")
            self.committed = bytes(self.buf)
            self.phase = 4
            rt.emit("committed")
            return bytes([0xA1, 0, 0, 0, 0, 0, 0, 0])
        self.illegal("request in the wrong protocol step")

    def send_request(self, request):
        rt.emit("client-frame", rt.snapshot(request))
        if len(request) != 8 or self.phase != 1:
            self.illegal("segment in the wrong protocol step / not 8 bytes")
        cmd = request[0]
        seq = cmd & 0x7F
        last = (cmd & 0x80) != 0
        self.sent = self.sent + 1
        if seq != self.sent:
            self.illegal("sequence number is not the successor of the previous one")
        lost = False
        if self.seq != self.sent - 1:
            lost = True           # after a gap: out of sequence for the server, discarded
        elif (self.losses_left > 0 and not last and self.declared is not None
              and (len(self.buf) - 7 * self.seq) + 7 * self.blksize < self.declared):
            if rt.choose_bool("lose-this-segment"):
                self.losses_left = self.losses_left - 1
                lost = True
        elif self.any_loss:
            # a network that may lose ANY segment (also the last one, also repeatedly)
            if rt.choose_bool("lose-this-segment"):
                lost = True
        if lost:
            if last or self.sent >= self.blksize:
                self.phase = 2
            return
        self.seq = seq
        if last:
            # the client tells the number of valid bytes only in the end frame: keep all seven for now
            self.pending_last = bytes(request[1:8])
            self.finished = True
            self.phase = 2
        else:
            self.buf.extend(request[1:8])
            if self.seq >= self.blksize:
                self.phase = 2

    def read_response(self):
        if self.phase != 2:
            self.illegal("the client waits for an acknowledgement that is not due")
        ack = self.seq
        self.seq = 0
        self.sent = 0
        self.blksize = rt.choose_int("blksize", 1, 127)
        self.phase = 3 if self.finished else 1
        return bytes([0xA2, ack, self.blksize, 0, 0, 0, 0, 0])

    def abort(self, abort_code=0x08000000):
        rt.emit("abort", abort_code)


class LossyBlockUploadServer:
    """conformant block-upload server behind a network that may lose ANY of its segments (never the initiate response
    or the end frame), as the block-upload stream sees it.  The server puts a whole sub-block on the wire (block size
    as last told by the client, or up to the last segment) and then waits for the acknowledgement; an acknowledgement
    that arrives while segments of the sub-block are still on the wire is processed after them (they reach the client
    as stale frames, or are lost); the next sub-block starts with the segment after the acknowledged one, numbered
    from 1.  The network is lazy: at every read it decides how many of the segments still on the wire are lost before
    the one it delivers; with nothing on the wire and no acknowledgement pending the client's read times out."""
    crc_cls = CrcXmodem
    RESPONSE_TIMEOUT = 0.3

    def __init__(self, index, subindex, value, server_crc):
        self.index = index
        self.subindex = subindex
        self.value = value
        self.server_crc = server_crc
        self.use_crc = False
        self.base = 0                     # byte position of segment 1 of the running sub-block
        self.seq = 0                      # segments of the running sub-block that left the wire (delivered or lost)
        self.exhausted = False            # the rest of the running sub-block was lost
        self.blksize = 0
        self.pending = False              # an acknowledgement arrived while the sub-block was still on the wire
        self.pend_ack = 0
        self.pend_blk = 0
        self.phase = 0                    # 0 idle, 1 initiated, 2 sub-block on the wire / awaiting ack, 4 end frame due, 5 awaiting A1, 6 closed
        self.last_len = 0
        self.rx_cobid = 0x601

    def illegal(self, why):
        rt.emit("illegal", why)
        raise SdoAbortedError(0x08000000)

    def request_response(self, request):
        if len(request) != 8 or self.phase != 0:
            self.illegal("unexpected request")
        cmd = request[0]
        if (cmd & 0xFB) != 0xA0 or (request[1] | (request[2] << 8)) != self.index or request[3] != self.subindex:
            self.illegal("initiate block upload: wrong command or multiplexer")
        if request[4] < 1 or request[4] > 127 or request[6] != 0 or request[7] != 0:
            self.illegal("initiate block upload: block size / reserved bytes")
        self.blksize = request[4]
        self.use_crc = self.server_crc and (cmd & 4) != 0
        self.phase = 1
        n = len(self.value)
        return bytes([0xC2 | (4 if self.server_crc else 0), request[1], request[2], request[3],
                      n & 0xFF, (n >> 8) & 0xFF, (n >> 16) & 0xFF, (n >> 24) & 0xFF])

    def send_request(self, request):
        rt.emit("client-frame", rt.snapshot(request))
        if len(request) != 8:
            self.illegal("frame not 8 bytes")
        cmd = request[0]
        if self.phase == 1:
            if cmd != 0xA3 or request[1] != 0 or request[2] != 0 or request[3] != 0:
                self.illegal("expected the start frame A3 00..")
            self.phase = 2
            self.base = 0
            self.seq = 0
            self.exhausted = False
        elif self.phase == 2:
            if cmd != 0xA2:
                self.illegal("expected a sub-block acknowledgement A2")
            if self.pending:
                self.illegal("second acknowledgement for one sub-block")
            a = request[1]
            if a > self.blksize or (a > 0 and self.base + 7 * (a - 1) >= len(self.value)):
                self.illegal("acknowledged more segments than the sub-block has")
            if not self.exhausted and a > self.seq:
                self.illegal("acknowledged a segment that was not sent yet")
            if request[2] < 1 or request[2] > 127:
                self.illegal("block size out of range")
            self.pending = True
            self.pend_ack = a
            self.pend_blk = request[2]
            if self.exhausted or self.seq >= self.blksize or self.base + 7 * self.seq >= len(self.value):
                self.process_ack()        # nothing of the sub-block is on the wire any more
        elif self.phase == 5:
            if cmd != 0xA1:
                self.illegal("expected the end confirmation A1")
            self.phase = 6
        else:
            self.illegal("client frame in the wrong protocol step")

    def next_segment(self):
        """the next segment of the running sub-block that reaches the client, or None when the wire is empty"""
        n = len(self.value)
        if self.exhausted or self.seq >= self.blksize or self.base + 7 * self.seq >= n:
            return None
        k = 0
        if rt.choose_bool("segments-lost"):
            k = rt.choose_int("lost-run", 1, 127)
        if self.seq + k >= self.blksize or self.base + 7 * (self.seq + k) >= n:
            self.exhausted = True
            return None
        self.seq = self.seq + k + 1
        start = self.base + 7 * (self.seq - 1)
        last = start + 7 >= n
        return bytes([self.seq | (0x80 if last else 0)]) + rt.segment7(self.value, start)

    def process_ack(self):
        n = len(self.value)
        self.base = self.base + 7 * self.pend_ack
        self.blksize = self.pend_blk
        self.seq = 0
        self.exhausted = False
        self.pending = False
        if self.base >= n:
            # everything up to the last segment was acknowledged
            self.last_len = n - (self.base - 7)
            self.phase = 4

    def read_response(self):
        if self.phase == 2:
            r = self.next_segment()
            if r is None and self.pending:
                self.process_ack()
                if self.phase == 2:
                    r = self.next_segment()
            if r is not None:
                return r
            if self.phase == 2:
                rt.emit("timeout")
                raise SdoCommunicationError("No SDO response received")
        if self.phase == 4:
            crc = rt.crc_of(self.value) if self.use_crc else 0
            self.phase = 5
            return bytes([0xC1 | ((7 - self.last_len) << 2), crc & 0xFF, (crc >> 8) & 0xFF, 0, 0, 0, 0, 0])
        self.illegal("the client reads although the server has nothing to send")

    def abort(self, abort_code=0x08000000):
        rt.emit("abort", abort_code)

"""Assumed contract of a standard-conformant SDO *block* server as the block-upload stream sees it through the
SdoClient interface (request_response / send_request / read_response / abort), without loss: it announces the size,
sends the value in segments of 7 bytes with sequence numbers 1..blksize per sub-block (the last segment flagged),
expects exactly one acknowledgement [A2, last sequence number, blksize] per sub-block, then sends the end frame with the
count of unused bytes and (when negotiated) the CRC of the whole value, and expects the final A1.  Every client frame
is checked for legality (rt.emit("illegal", why))."""
from env import rt
from canopen.sdo.base import CrcXmodem
from canopen.sdo.exceptions import SdoAbortedError


class BlockUploadServer:
    crc_cls = CrcXmodem
    RESPONSE_TIMEOUT = 0.3

    def __init__(self, index, subindex, value, server_crc):
        self.index = index
        self.subindex = subindex
        self.value = value
        self.server_crc = server_crc      # the server supports CRC
        self.use_crc = False
        self.pos = 0                      # bytes handed out
        self.seq = 0                      # sequence number of the last segment of the running sub-block
        self.blksize = 0
        self.phase = 0                    # 0 idle, 1 initiated, 2 sending, 3 awaiting ack, 4 end frame due, 5 awaiting A1, 6 closed
        self.finished = False
        self.rx_cobid = 0x601

    def illegal(self, why):
        rt.emit("illegal", why)
        raise SdoAbortedError(0x08000000)

    def request_response(self, request):
        if len(request) != 8 or self.phase != 0:
            self.illegal("unexpected request")
        cmd = request[0]
        if (cmd & 0xFB) != 0xA0 or (request[1] | (request[2] << 8)) != self.index or request[3] != self.subindex:
            self.illegal("initiate block upload: wrong command or multiplexer")
        if request[4] < 1 or request[4] > 127 or request[6] != 0 or request[7] != 0:
            self.illegal("initiate block upload: block size / reserved bytes")
        self.blksize = request[4]
        self.use_crc = self.server_crc and (cmd & 4) != 0
        self.phase = 1
        n = len(self.value)
        return bytes([0xC2 | (4 if self.server_crc else 0), request[1], request[2], request[3],
                      n & 0xFF, (n >> 8) & 0xFF, (n >> 16) & 0xFF, (n >> 24) & 0xFF])

    def send_request(self, request):
        rt.emit("client-frame", rt.snapshot(request))
        if len(request) != 8:
            self.illegal("frame not 8 bytes")
        cmd = request[0]
        if self.phase == 1:
            if cmd != 0xA3 or request[1] != 0 or request[2] != 0 or request[3] != 0:
                self.illegal("expected the start frame A3 00..")
            self.phase = 2
            self.seq = 0
        elif self.phase == 3:
            if cmd != 0xA2:
                self.illegal("expected a sub-block acknowledgement A2")
            if request[1] != self.seq:
                self.illegal("acknowledged sequence number is not the last one sent")
            if request[2] < 1 or request[2] > 127:
                self.illegal("block size out of range")
            self.blksize = request[2]
            self.seq = 0
            self.phase = 4 if self.finished else 2
        elif self.phase == 5:
            if cmd != 0xA1:
                self.illegal("expected the end confirmation A1")
            self.phase = 6
        else:
            self.illegal("client frame in the wrong protocol step")

    def read_response(self):
        if self.phase == 2:
            chunk = self.value[self.pos:self.pos + 7]
            n = len(chunk)
            self.pos = self.pos + n
            self.seq = self.seq + 1
            last = self.pos >= len(self.value)
            seg = bytearray(8)
            seg[0] = self.seq | (0x80 if last else 0)
            seg[1:1 + n] = chunk
            if last:
                self.finished = True
                self.last_len = n
            if last or self.seq >= self.blksize:
                self.phase = 3
            return bytes(seg)
        if self.phase == 4:
            crc = rt.crc_of(self.value) if self.use_crc else 0
            self.phase = 5
            return bytes([0xC1 | ((7 - self.last_len) << 2), crc & 0xFF, (crc >> 8) & 0xFF, 0, 0, 0, 0, 0])
        self.illegal("the client reads although the server has nothing to send")

    def abort(self, abort_code=0x08000000):
        rt.emit("abort", abort_code)

"""Assumed contract of a standard-conformant CiA 402 drive as seen through objects 6040h/6041h/6060h/6061h/6502h.
State is a small integer index into STATES; the statusword reported for a state is any 16-bit value matching the
state's bit pattern (the drive may set every other bit)."""
from env import rt

STATES = ("NOT READY TO SWITCH ON", "SWITCH ON DISABLED", "READY TO SWITCH ON", "SWITCHED ON", "OPERATION ENABLED",
          "QUICK STOP ACTIVE", "FAULT REACTION ACTIVE", "FAULT")
PATTERN = ((0x4F, 0x00), (0x4F, 0x40), (0x6F, 0x21), (0x6F, 0x23), (0x6F, 0x27), (0x6F, 0x07), (0x4F, 0x0F), (0x4F, 0x08))


class Drive:
    def __init__(self, state, auto):
        self.state = state          # index into STATES
        self.auto = auto            # may perform its automatic transitions between accesses
        self.mode = 0
        self.supported = 0

    def _auto(self):
        if self.auto:
            if self.state == 0 and rt.choose_bool("auto0"):
                self.state = 1
                rt.emit("drive", "auto", 1)
            elif self.state == 6 and rt.choose_bool("auto6"):
                self.state = 7
                rt.emit("drive", "auto", 7)

    def statusword(self):
        self._auto()
        sw = rt.choose_int("sw", 0, 0xFFFF)
        rt.assume(sw & PATTERN[self.state][0] == PATTERN[self.state][1])
        return sw

    def controlword(self, cw):
        self._auto()
        rt.emit("cw", cw, self.state)
        s = self.state
        n = s
        if s == 1 and (cw & 0x87) == 0x06:
            n = 2                                   # 2 shutdown
        elif s == 2 and (cw & 0x8F) == 0x07:
            n = 3                                   # 3 switch on
        elif s == 2 and (cw & 0x8F) == 0x0F:
            n = 3                                   # 3 (+4 needs a second command on a strict drive)
        elif s == 3 and (cw & 0x8F) == 0x0F:
            n = 4                                   # 4 enable operation
        elif s == 4 and (cw & 0x8F) == 0x07:
            n = 3                                   # 5 disable operation
        elif s == 3 and (cw & 0x87) == 0x06:
            n = 2                                   # 6 shutdown
        elif s in (2, 3, 4, 5) and (cw & 0x82) == 0x00:
            n = 1                                   # 7, 10, 9, 12 disable voltage
        elif s in (2, 3) and (cw & 0x86) == 0x02:
            n = 1                                   # 7, 10 quick stop
        elif s == 4 and (cw & 0x87) == 0x06:
            n = 2                                   # 8 shutdown
        elif s == 4 and (cw & 0x86) == 0x02:
            n = 5                                   # 11 quick stop
        elif s == 5 and (cw & 0x8F) == 0x0F:
            n = 4                                   # 16 enable operation
        elif s == 7 and (cw & 0x80) == 0x80:
            n = 1                                   # 15 fault reset
        if n != s:
            self.state = n
            rt.emit("drive", "to", n)


class StatusVar:
    def __init__(self, drive):
        self.drive = drive

    @property
    def raw(self):
        return self.drive.statusword()


class ControlVar:
    def __init__(self, drive):
        self.drive = drive

    @property
    def raw(self):
        raise RuntimeError("write only")

    @raw.setter
    def raw(self, value):
        self.drive.controlword(value)


class ModeVar:
    """6060h (write) / 6061h (display): the conformant drive displays the mode it was given"""

    def __init__(self, drive):
        self.drive = drive

    @property
    def raw(self):
        return self.drive.mode

    @raw.setter
    def raw(self, value):
        rt.emit("mode", value)
        self.drive.mode = value


class SupportedVar:
    def __init__(self, drive):
        self.drive = drive

    @property
    def raw(self):
        return self.drive.supported


# ---- controlword / statusword carried by PDO ---------------------------------------------------------------------------
class PdoLink:
    """Assumed contract of the PDO transport between the node object and a conformant drive: the RPDO carrying 6040h
    reaches the drive when it is transmitted (event-driven) or with the next cycle (periodic: before the drive produces
    its next TPDO); the TPDO carrying 6041h reports the drive's statusword after every state change (event-driven) or
    every cycle (periodic), and every reception runs the node's callback as PdoMap.on_message does."""

    def __init__(self, drive, node, periodic):
        self.drive = drive
        self.node = node
        self.periodic = periodic
        self.cw = 0
        self.cw_pending = False
        self.sw = 0

    def deliver_controlword(self):
        if self.cw_pending:
            self.cw_pending = False
            before = self.drive.state
            self.drive.controlword(self.cw)
            if not self.periodic and self.drive.state != before:
                self.send_tpdo()

    def send_tpdo(self):
        self.sw = self.drive.statusword()
        rt.emit("tpdo", self.sw)
        self.node.on_TPDOs_update_callback(TpdoMap(self))


class RpdoVar:
    """6040h mapped into an RPDO"""
    index = 0x6040

    def __init__(self, link):
        self.link = link
        self.pdo_parent = RpdoMap(link)

    @property
    def raw(self):
        return self.link.cw

    @raw.setter
    def raw(self, value):
        self.link.cw = value
        self.link.cw_pending = True


class RpdoMap:
    def __init__(self, link):
        self.link = link

    @property
    def is_periodic(self):
        return self.link.periodic

    def transmit(self):
        rt.emit("rpdo", self.link.cw)
        self.link.deliver_controlword()


class TpdoVar:
    """6041h mapped into a TPDO"""
    index = 0x6041

    def __init__(self, link):
        self.link = link
        self.pdo_parent = TpdoMap(link)

    @property
    def raw(self):
        return self.link.sw


class TpdoMap:
    def __init__(self, link):
        self.link = link

    @property
    def is_periodic(self):
        return self.link.periodic

    def __iter__(self):
        return iter([MappedStatusword(self.link)])

    def wait_for_reception(self, timeout=10):
        # one cycle: the periodic RPDO (if any) is applied, then the drive produces its TPDO
        self.link.deliver_controlword()
        self.link.send_tpdo()
        return 1.0


class MappedStatusword:
    """the variable the node's reception callback finds in the received TPDO"""
    index = 0x6041

    def __init__(self, link):
        self.link = link

    @property
    def raw(self):
        return self.link.sw


# ---- operation mode carried by PDO ------------------------------------------------------------------------------------
class ModeLink:
    """Assumed contract of the PDO transport of 6060h (modes of operation, in an RPDO) and 6061h (modes of operation
    display, in a TPDO): the RPDO reaches the drive when it is transmitted (event-driven) or with the next cycle
    (periodic); the conformant drive then displays the mode it was given; the TPDO reports the display after every
    change (event-driven) or every cycle (periodic), and every reception runs the node's callback."""

    def __init__(self, drive, node, periodic):
        self.drive = drive
        self.node = node
        self.periodic = periodic
        self.code = 0
        self.pending = False
        self.display = 0

    def deliver_mode(self):
        if self.pending:
            self.pending = False
            before = self.drive.mode
            rt.emit("mode", self.code)
            self.drive.mode = self.code
            if not self.periodic and self.drive.mode != before:
                self.send_tpdo()

    def send_tpdo(self):
        self.display = self.drive.mode
        rt.emit("tpdo", self.display)
        self.node.on_TPDOs_update_callback(ModeTpdoMap(self))


class ModeRpdoVar:
    index = 0x6060

    def __init__(self, link):
        self.link = link
        self.pdo_parent = ModeRpdoMap(link)

    @property
    def raw(self):
        return self.link.code

    @raw.setter
    def raw(self, value):
        self.link.code = value
        self.link.pending = True


class ModeRpdoMap:
    def __init__(self, link):
        self.link = link

    @property
    def is_periodic(self):
        return self.link.periodic

    def transmit(self):
        rt.emit("rpdo", self.link.code)
        self.link.deliver_mode()


class ModeTpdoVar:
    index = 0x6061

    def __init__(self, link):
        self.link = link
        self.pdo_parent = ModeTpdoMap(link)

    @property
    def raw(self):
        return self.link.display


class ModeTpdoMap:
    def __init__(self, link):
        self.link = link

    @property
    def is_periodic(self):
        return self.link.periodic

    def __iter__(self):
        return iter([MappedMode(self.link)])

    def wait_for_reception(self, timeout=10):
        self.link.deliver_mode()
        self.link.send_tpdo()
        return 1.0


class MappedMode:
    index = 0x6061

    def __init__(self, link):
        self.link = link

    @property
    def raw(self):
        return self.link.display

"""Assumed contract of a standard-conformant SDO server for ONE object as a segmented/expedited transfer partner
(CiA 301 7.2.4.3).  It sits behind `request_response`: it checks every request frame for legality in the current
protocol step (8 bytes, command specifier, multiplexer, toggle alternating from 0, unused-byte count, padding zero,
declared size equal to the bytes sent), records a violation with rt.emit("illegal", why), and answers as CiA 301
prescribes.  `buf` accumulates a download; `committed` is the value stored when the transfer completes."""
from env import rt
from canopen.sdo.exceptions import SdoAbortedError


class ServerPeer:
    def __init__(self, index, subindex, buf, value, announce_size):
        self.index = index
        self.subindex = subindex
        self.buf = buf                  # bytearray being downloaded
        self.value = value              # value held (for uploads)
        self.announce_size = announce_size
        self.toggle = 0
        self.mode = 0                   # 0 idle, 1 download in progress, 2 upload in progress
        self.declared = None
        self.committed = None
        self.upos = 0
        self.rx_cobid = 0x601

    def illegal(self, why):
        rt.emit("illegal", why)
        raise SdoAbortedError(0x08000000)

    def request_response(self, request):
        if len(request) != 8:
            self.illegal("request is not 8 bytes")
        cmd = request[0]
        ccs = cmd >> 5
        if ccs == 1:
            return self.init_download(request, cmd)
        if ccs == 0:
            return self.download_segment(request, cmd)
        if ccs == 2:
            return self.init_upload(request, cmd)
        if ccs == 3:
            return self.upload_segment(request, cmd)
        self.illegal("unexpected command specifier")

    # ---------------------------------------------------------------- download
    def init_download(self, request, cmd):
        if (request[1] | (request[2] << 8)) != self.index or request[3] != self.subindex:
            self.illegal("wrong multiplexer")
        if cmd & 0x10 or cmd & 0x0C and not (cmd & 2):
            self.illegal("reserved bits set in initiate download")
        if cmd & 2:                                      # expedited
            if not (cmd & 1):
                self.illegal("expedited without size (not used by this client)")
            n = (cmd >> 2) & 3
            k = 0
            while k < 4:
                if k >= 4 - n and request[4 + k] != 0:
                    self.illegal("expedited padding not zero")
                k += 1
            self.committed = bytes(request[4:8 - n])
            rt.emit("committed")
            return bytes([0x60, request[1], request[2], request[3], 0, 0, 0, 0])
        if cmd & 1:
            self.declared = request[4] | (request[5] << 8) | (request[6] << 16) | (request[7] << 24)
        else:
            self.declared = None
            if request[4] != 0 or request[5] != 0 or request[6] != 0 or request[7] != 0:
                self.illegal("size bytes not zero although no size is indicated")
        self.mode = 1
        self.toggle = 0
        return bytes([0x60, request[1], request[2], request[3], 0, 0, 0, 0])

    def download_segment(self, request, cmd):
        if self.mode != 1:
            self.illegal("download segment without a download in progress")
        if (cmd & 0x10) != self.toggle:
            self.illegal("toggle bit does not alternate")
        n = (cmd >> 1) & 7
        k = 0
        while k < 7:
            if k >= 7 - n and request[1 + k] != 0:
                self.illegal("segment padding not zero")
            k += 1
        self.buf.extend(request[1:8 - n])
        reply = bytes([0x20 | self.toggle, 0, 0, 0, 0, 0, 0, 0])
        self.toggle = self.toggle ^ 0x10
        if cmd & 1:
            if self.declared is not None and self.declared != len(self.buf):
                self.illegal("declared size differs from the bytes sent")
            self.committed = bytes(self.buf)
            self.mode = 0
            rt.emit("committed")
        elif self.declared is not None and len(self.buf) >= self.declared:
            self.illegal("declared size reached without the last-segment flag")
        return reply

    # ---------------------------------------------------------------- upload
    def init_upload(self, request, cmd):
        if (request[1] | (request[2] << 8)) != self.index or request[3] != self.subindex:
            self.illegal("wrong multiplexer")
        if cmd != 0x40 or request[4] != 0 or request[5] != 0 or request[6] != 0 or request[7] != 0:
            self.illegal("initiate upload request not 40 mux 00 00 00 00")
        size = len(self.value)
        self.mode = 2
        self.toggle = 0
        self.upos = 0
        if self.announce_size:
            return bytes([0x41, request[1], request[2], request[3], size & 0xFF, (size >> 8) & 0xFF, (size >> 16) & 0xFF,
                          (size >> 24) & 0xFF])
        return bytes([0x40, request[1], request[2], request[3], 0, 0, 0, 0])

    def upload_segment(self, request, cmd):
        if self.mode != 2:
            self.illegal("upload segment without an upload in progress")
        if (cmd & 0x10) != self.toggle or (cmd & 0x0F) != 0:
            self.illegal("toggle bit does not alternate / reserved bits set")
        k = 1
        while k < 8:
            if request[k] != 0:
                self.illegal("upload segment request padding not zero")
            k += 1
        # a segment carries 1..7 bytes of the server's choosing (0 only when nothing is left): assumption
        # "non-final segments are not empty" — an empty one would end RawIOBase.readall() early
        chunk = self.value[self.upos:self.upos + rt.choose_int("seglen", 1, 7)]
        n = len(chunk)
        self.upos = self.upos + n
        last = self.upos >= len(self.value)
        reply = bytearray(8)
        reply[0] = self.toggle | ((7 - n) << 1) | (1 if last else 0)
        reply[1:1 + n] = chunk
        self.toggle = self.toggle ^ 0x10
        if last:
            self.mode = 0
        return bytes(reply)

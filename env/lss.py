"""Assumed contract of the LSS peer (CiA 305): a network that delivers each request to at most one slave and feeds
the slave's answer back through LssMaster.on_message_received (the real method, which queues it)."""
from env import rt


class AnyReplyNet:
    """answers a request with an arbitrary 8-byte frame, or not at all (oracle's choice)"""

    def __init__(self, master):
        self.master = master

    def send_message(self, can_id, data, remote=False):
        rt.emit("send", can_id, rt.snapshot(data), remote)
        if rt.choose_bool("answered"):
            self.master.on_message_received(0x7E4, rt.choose_bytes("reply", 8), 0.0)


class FastScanSlaveNet:
    """one unconfigured CiA 305 slave with identity sid[0..3] (or none when present is False).
    Fast scan (cs 0x51, id number LE32, bit checked, LSS sub, LSS next):
      bit checked == 128           -> answer, position := 0
      LSS sub == position and the bits of the id number above `bit checked` equal the identity's -> answer,
                                      position := LSS next; (bit checked == 0 and next < sub: enter configuration state)
      otherwise                    -> silence"""

    def __init__(self, master, present, sid):
        self.master = master
        self.present = present
        self.sid = sid
        self.pos = 0
        self.config_state = False

    def send_message(self, can_id, data, remote=False):
        rt.emit("send", can_id, rt.snapshot(data), remote)
        if not self.present or can_id != 0x7E5 or len(data) != 8 or data[0] != 0x51:
            return
        idnum = data[1] | (data[2] << 8) | (data[3] << 16) | (data[4] << 24)
        bit_check = data[5]
        sub = data[6]
        nxt = data[7]
        answer = False
        if bit_check == 128:
            self.pos = 0
            answer = True
        elif bit_check < 32 and sub < 4 and nxt < 4 and sub == self.pos:
            if ((idnum ^ self.sid[sub]) >> bit_check) == 0:
                answer = True
                if bit_check == 0 and nxt < sub:
                    self.config_state = True
                self.pos = nxt
        if answer:
            self.master.on_message_received(0x7E4, bytes([0x4F, 0, 0, 0, 0, 0, 0, 0]), 0.0)


class ScriptedNet:
    """answers every request that expects one with the same pre-chosen reply, or never (chosen in the pre-state)"""

    def __init__(self, master, answered, reply):
        self.master = master
        self.answered = answered
        self.reply = reply

    def send_message(self, can_id, data, remote=False):
        rt.emit("send", can_id, rt.snapshot(data), remote)
        if self.answered:
            self.master.on_message_received(0x7E4, self.reply, 0.0)

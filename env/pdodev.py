"""Assumed contract of a strict CiA 301 device holding one PDO's communication record and mapping array, as reached
through record[sub].raw reads/writes (each is one SDO transfer).  It stores accepted writes and refuses writes that
are out of order: mapping entries only while the PDO is invalid and the mapping count is 0, the count and the
communication parameters only while the PDO is invalid, and it never lets the COB-ID change while valid."""
from env import rt
from canopen.sdo.exceptions import SdoAbortedError
from canopen import objectdictionary

INVALID = 1 << 31


class Device:
    def __init__(self, cob, trans_type, inhibit, event, sync_start, count, entries, has3, has5, has6):
        self.cob = cob                    # 32-bit value of sub 1 (bit 31 invalid, bit 30 no RTR)
        self.trans_type = trans_type
        self.inhibit = inhibit
        self.event = event
        self.sync_start = sync_start
        self.count = count
        self.entries = entries            # list of 8 mapping values (sub 1..8)
        self.has3 = has3
        self.has5 = has5
        self.has6 = has6

    def valid(self):
        return (self.cob & INVALID) == 0

    def refuse(self, what):
        rt.emit("refused", what)
        raise SdoAbortedError(0x08000022)

    def com_write(self, sub, value):
        rt.emit("sdo_write", "com", sub, value)
        if sub == 1:
            if self.valid() and (value & INVALID) == 0 and (value & 0x7FFFFFFF) != (self.cob & 0x7FFFFFFF):
                self.refuse("COB-ID changed while the PDO is valid")
            if (value & INVALID) == 0 and (value & 0x3FFFFFFF) != (self.cob & 0x3FFFFFFF):
                self.refuse("COB-ID changed together with validation")
            self.cob = value
            return
        if self.valid():
            self.refuse("communication parameter written while the PDO is valid")
        if sub == 2:
            self.trans_type = value
        elif sub == 3:
            self.inhibit = value
        elif sub == 5:
            self.event = value
        elif sub == 6:
            self.sync_start = value

    def com_read(self, sub):
        rt.emit("sdo_read", "com", sub)
        if sub == 1:
            return self.cob
        if sub == 2:
            return self.trans_type
        if sub == 3:
            return self.inhibit
        if sub == 5:
            return self.event
        return self.sync_start

    def map_write(self, sub, value):
        rt.emit("sdo_write", "map", sub, value)
        if self.valid():
            self.refuse("mapping written while the PDO is valid")
        if sub == 0:
            self.count = value
            return
        if self.count != 0:
            self.refuse("mapping entry written while the count is not 0")
        self.entries[sub - 1] = value

    def map_read(self, sub):
        rt.emit("sdo_read", "map", sub)
        if sub == 0:
            return self.count
        return self.entries[sub - 1]


class Var:
    def __init__(self, dev, kind, sub):
        self.dev = dev
        self.kind = kind
        self.sub = sub

    @property
    def raw(self):
        if self.kind == "com":
            return self.dev.com_read(self.sub)
        return self.dev.map_read(self.sub)

    @raw.setter
    def raw(self, value):
        if self.kind == "com":
            self.dev.com_write(self.sub, value)
        else:
            self.dev.map_write(self.sub, value)


class Record:
    """SdoRecord / SdoArray of the PDO: sub-entries 3, 5, 6 of the communication record may be absent"""

    def __init__(self, dev, kind):
        self.dev = dev
        self.kind = kind

    def __getitem__(self, sub):
        if self.kind == "com":
            if (sub == 3 and not self.dev.has3) or (sub == 5 and not self.dev.has5) or (sub == 6 and not self.dev.has6):
                raise KeyError(sub)
            if sub not in (1, 2, 3, 5, 6):
                raise KeyError(sub)
        elif not (0 <= sub <= 8):
            raise KeyError(sub)
        return Var(self.dev, self.kind, sub)


class AnyOd:
    """object dictionary in which every index exists as an UNSIGNED8 variable"""

    def __getitem__(self, index):
        v = objectdictionary.ODVariable("obj", index, 0)
        v.data_type = 0x05
        return v


class NodeOfPdo:
    def __init__(self):
        self.object_dictionary = AnyOd()


class PdoNode:
    def __init__(self, network):
        self.network = network
        self.node = NodeOfPdo()


class OdEntry:
    def __init__(self, value, default):
        self.value = value
        self.default = default


class OdParam:
    """a PDO parameter as read(from_od=True) sees it: the dictionary's ParameterValue (DCF) and DefaultValue (EDS)"""

    def __init__(self, od):
        self.od = od

    @property
    def raw(self):
        rt.emit("sdo_read", "unexpected")
        return 0


class OdRecord:
    def __init__(self, params):
        self.params = params

    def __getitem__(self, sub):
        if sub not in self.params:
            raise KeyError(sub)
        return self.params[sub]


class SetOd:
    """object dictionary that contains exactly the given indexes (for PdoMaps construction)"""

    def __init__(self, present):
        self.present = present

    def __contains__(self, index):
        return index in self.present


class SdoOfNode:
    def __getitem__(self, index):
        return ("record", index)


class NodeWithOd:
    def __init__(self, node_id, present):
        self.id = node_id
        self.object_dictionary = SetOd(present)
        self.sdo = SdoOfNode()


class PdoNodeOf:
    def __init__(self, node):
        self.node = node
        self.network = None

"""Assumed contract of the bus between ONE real SdoClient and ONE real SdoServer: a frame sent on the server's
request COB-ID is delivered to SdoServer.on_request, a frame sent on its response COB-ID to SdoClient.on_response,
inline and in order (what Network.send_message -> bus -> notifier -> Network.notify does, minus threads: A4)."""
from env import rt


class PairNet:
    def __init__(self):
        self.client = None
        self.server = None

    def send_message(self, can_id, data, remote=False):
        rt.emit("send", can_id, rt.snapshot(data), remote)
        if can_id == self.server.rx_cobid:
            self.server.on_request(can_id, bytes(data), 0.0)
        elif can_id == self.server.tx_cobid:
            self.client.on_response(can_id, bytes(data), 0.0)

"""Assumed contract of the bus between ONE real SdoClient and ONE real SdoServer: a frame sent on the server's
request COB-ID is delivered to SdoServer.on_request, a frame sent on its response COB-ID to SdoClient.on_response,
inline and in order (what Network.send_message -> bus -> notifier -> Network.notify does, minus threads: A4)."""
from env import rt


class PairNet:
    def __init__(self):
        self.client = None
        self.server = None

    def send_message(self, can_id, data, remote=False):
        rt.emit("send", can_id, rt.snapshot(data), remote)
        if can_id == self.server.rx_cobid:
            self.server.on_request(can_id, bytes(data), 0.0)
        elif can_id == self.server.tx_cobid:
            self.client.on_response(can_id, bytes(data), 0.0)


class DisturbingPairNet(PairNet):
    """the same bus with at most `budget` disturbances of a server response (the kinds of the property 'a disturbed
    transfer fails loudly'): 1 lost, 2 replaced by an abort frame with any code, 3 toggle bit flipped, 4 another command
    specifier, 5 delivered twice, 6 (answers that echo the multiplexer) another multiplexer, 7 (segment steps) a stale
    segment response of an earlier transfer - same kind of frame, the other toggle bit, any further content - arrives
    before the genuine one"""

    def __init__(self):
        PairNet.__init__(self)
        self.budget = 1
        self.last_ccs = 0

    def send_message(self, can_id, data, remote=False):
        rt.emit("send", can_id, rt.snapshot(data), remote)
        if can_id == self.server.rx_cobid:
            self.last_ccs = data[0] >> 5
            self.server.on_request(can_id, bytes(data), 0.0)
            return
        if can_id != self.server.tx_cobid:
            return
        d = bytes(data)
        if self.budget > 0 and rt.choose_bool("disturb"):
            self.budget = self.budget - 1
            kind = rt.choose_int("kind", 1, 7)
            rt.emit("disturbed", kind)
            if kind == 1:
                return
            if kind == 2:
                d = bytes([0x80, d[1], d[2], d[3]]) + rt.choose_bytes("abort_code", 4)
            elif kind == 3:
                d = bytes([d[0] ^ 0x10]) + d[1:8]
            elif kind == 4:
                cs = rt.choose_int("cs", 0, 7)
                rt.assume(cs != (d[0] >> 5))
                d = bytes([(cs << 5) | (d[0] & 0x1F)]) + d[1:8]
            elif kind == 5:
                self.client.on_response(can_id, d, 0.0)
            elif kind == 7:
                rt.assume(self.last_ccs == 0 or self.last_ccs == 3)
                st = rt.choose_bytes("stale_segment", 8)
                rt.assume((st[0] >> 5) == (d[0] >> 5) and (st[0] & 0x10) != (d[0] & 0x10))
                self.client.on_response(can_id, st, 0.0)
            else:
                # only the answers to initiate requests carry a multiplexer (bytes 1..3 of a segment are data)
                rt.assume(self.last_ccs == 1 or self.last_ccs == 2)
                m = rt.choose_bytes("other_mux", 3)
                rt.assume(m[0] != d[1] or m[1] != d[2] or m[2] != d[3])
                d = bytes([d[0]]) + m + d[4:8]
        self.client.on_response(can_id, d, 0.0)

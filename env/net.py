"""Assumed contract of Network.send_message as seen by protocol objects: the frame (id, 8-byte or shorter
payload, remote flag) is handed to the bus in call order.  Whether it may raise is chosen per contract."""
from env import rt


class Net:
    def send_message(self, can_id, data, remote=False):
        rt.emit("send", can_id, rt.snapshot(data), remote)

    def subscribe(self, can_id, callback):
        rt.emit("subscribe", can_id, callback)

    def unsubscribe(self, can_id, callback=None):
        rt.emit("unsubscribe", can_id, callback)

    def send_periodic(self, can_id, data, period, remote=False):
        raise NotImplementedError

"""Assumed contract of the node behind an SdoServer (LocalNode.get_data / set_data are contracted separately):
get_data returns the entry's bytes or raises SdoAbortedError(code); set_data accepts or raises SdoAbortedError(code)."""
from env import rt
from canopen.sdo.exceptions import SdoAbortedError


class DataNode:
    def __init__(self, value, get_abort, get_code, set_abort, set_code):
        self.value = value
        self.get_abort = get_abort
        self.get_code = get_code
        self.set_abort = set_abort
        self.set_code = set_code
        self.object_dictionary = None

    def get_data(self, index, subindex, check_readable=False):
        rt.emit("get_data", index, subindex, check_readable)
        if self.get_abort:
            raise SdoAbortedError(self.get_code)
        return self.value

    def set_data(self, index, subindex, data, check_writable=False):
        rt.emit("set_data", index, subindex, rt.snapshot(data), check_writable)
        if self.set_abort:
            raise SdoAbortedError(self.set_code)

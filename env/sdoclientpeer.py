"""Assumed contract of a standard-conformant SDO client as a transfer partner of the real SdoServer: it sends the
CiA 301 request frames of an upload / download of one object, checks every response frame for legality in the
current protocol step (rt.emit("illegal", why) otherwise) and collects / delivers the data."""
from env import rt


class CaptureNet:
    """the bus: keeps the server's last response for the client to take"""

    def __init__(self):
        self.frames = []

    def send_message(self, can_id, data, remote=False):
        rt.emit("send", can_id, rt.snapshot(data), remote)
        self.frames.append((can_id, bytes(data)))

    def take(self, tx_cobid):
        if len(self.frames) != 1:
            rt.emit("illegal", "not exactly one response frame")
            raise RuntimeError("protocol")
        cid, d = self.frames.pop()
        if cid != tx_cobid or len(d) != 8:
            rt.emit("illegal", "response not 8 bytes on the server's COB-ID")
            raise RuntimeError("protocol")
        return d


def illegal(why):
    rt.emit("illegal", why)
    raise RuntimeError("protocol")


def upload(server, net, index, subindex):
    """conformant client uploading (index, subindex): returns (announced size or None, data)"""
    lo = index & 0xFF
    hi = index >> 8
    server.on_request(server.rx_cobid, bytes([0x40, lo, hi, subindex, 0, 0, 0, 0]), 0.0)
    r = net.take(server.tx_cobid)
    c = r[0]
    if c == 0x80:
        return ("aborted", r[4] | (r[5] << 8) | (r[6] << 16) | (r[7] << 24))
    if (c & 0xE0) != 0x40 or r[1] != lo or r[2] != hi or r[3] != subindex or (c & 0x10):
        illegal("initiate upload response: wrong scs / multiplexer / reserved bit")
    if c & 2:                                            # expedited
        if c & 1:
            n = (c >> 2) & 3
            k = 0
            while k < 4:
                if k >= 4 - n and r[4 + k] != 0:
                    illegal("expedited upload padding not zero")
                k += 1
            return (4 - n, bytes(r[4:8 - n]))
        return (None, bytes(r[4:8]))
    if c & 0x0C:
        illegal("n set in a segmented initiate upload response")
    size = None
    if c & 1:
        size = r[4] | (r[5] << 8) | (r[6] << 16) | (r[7] << 24)
    out = bytearray()
    toggle = 0
    while True:
        server.on_request(server.rx_cobid, bytes([0x60 | toggle, 0, 0, 0, 0, 0, 0, 0]), 0.0)
        r = net.take(server.tx_cobid)
        c = r[0]
        if (c & 0xE0) != 0x00 or (c & 0x10) != toggle:
            illegal("upload segment response: wrong scs or toggle")
        n = (c >> 1) & 7
        k = 0
        while k < 7:
            if k >= 7 - n and r[1 + k] != 0:
                illegal("upload segment padding not zero")
            k += 1
        out.extend(r[1:8 - n])
        toggle = toggle ^ 0x10
        if c & 1:
            break
        if n != 0:
            illegal("a segment that is not the last carries fewer than 7 bytes")
    if size is not None and size != len(out):
        illegal("announced size differs from the bytes delivered")
    return (size, out)


def download(server, net, index, subindex, data, declare_size):
    """conformant client downloading `data` to (index, subindex) in segments of 1..7 bytes each (its own choice per
    segment, as CiA 301 allows): returns "ok" or ("aborted", code)"""
    lo = index & 0xFF
    hi = index >> 8
    total = len(data)
    if declare_size:
        req = bytes([0x21, lo, hi, subindex, total & 0xFF, (total >> 8) & 0xFF, (total >> 16) & 0xFF, (total >> 24) & 0xFF])
    else:
        req = bytes([0x20, lo, hi, subindex, 0, 0, 0, 0])
    server.on_request(server.rx_cobid, req, 0.0)
    r = net.take(server.tx_cobid)
    if r[0] == 0x80:
        return ("aborted", r[4] | (r[5] << 8) | (r[6] << 16) | (r[7] << 24))
    if r[0] != 0x60 or r[1] != lo or r[2] != hi or r[3] != subindex or r[4] != 0 or r[5] != 0 or r[6] != 0 or r[7] != 0:
        illegal("initiate download response is not 60 mux 00 00 00 00")
    pos = 0
    toggle = 0
    while True:
        chunk = data[pos:pos + rt.choose_int("seglen", 1, 7)]
        n = len(chunk)
        last = pos + n >= total
        seg = bytearray(8)
        seg[0] = toggle | ((7 - n) << 1) | (1 if last else 0)
        seg[1:1 + n] = chunk
        server.on_request(server.rx_cobid, bytes(seg), 0.0)
        r = net.take(server.tx_cobid)
        if r[0] == 0x80:
            return ("aborted", r[4] | (r[5] << 8) | (r[6] << 16) | (r[7] << 24))
        if r[0] != (0x20 | toggle) or r[1] != 0 or r[2] != 0 or r[3] != 0 or r[4] != 0 or r[5] != 0 or r[6] != 0 or r[7] != 0:
            illegal("download segment response is not (20|t) 00 .. 00")
        pos = pos + n
        toggle = toggle ^ 0x10
        if last:
            break
    return "ok"

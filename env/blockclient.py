"""Assumed contract of the SdoClient as the block-transfer streams see it: request_response / read_response hand back an
arbitrary non-abort 8-byte frame, or raise SdoAbortedError / SdoCommunicationError; send_request and abort record the
frame.  crc_cls is the repo's own CrcXmodem (interpreted); binascii.crc_hqx is an uninterpreted byte-wise fold."""
from env import rt
from canopen.sdo.exceptions import SdoAbortedError, SdoCommunicationError
from canopen.sdo.base import CrcXmodem
from canopen.sdo.client import BlockDownloadStream, BlockUploadStream


class BlockClient:
    crc_cls = CrcXmodem
    RESPONSE_TIMEOUT = 0.3

    def __init__(self, rx_cobid):
        self.rx_cobid = rx_cobid

    def _answer(self, what):
        k = rt.choose_int("outcome", 0, 2)
        if k == 1:
            code = rt.choose_int("abort_code", 0, 0xFFFFFFFF)
            rt.emit("aborted", code)
            raise SdoAbortedError(code)
        if k == 2:
            rt.emit("silence")
            raise SdoCommunicationError("No SDO response received")
        r = rt.choose_bytes("response", 8)
        rt.assume(r[0] != 0x80)
        rt.emit("response", r)
        return r

    def request_response(self, request):
        rt.emit("request", rt.snapshot(request))
        return self._answer("rr")

    def read_response(self):
        rt.emit("read_response")
        return self._answer("rd")

    def send_request(self, request):
        rt.emit("send_request", rt.snapshot(request))

    def abort(self, abort_code=0x08000000):
        rt.emit("abort", abort_code)


class BdStream(BlockDownloadStream):
    """the real BlockDownloadStream with _retransmit replaced by a recorder (it is contracted on its own)"""

    def _retransmit(self, ackseq, blksize):
        rt.emit("retransmit", ackseq, blksize)


class BuStream(BlockUploadStream):
    """the real BlockUploadStream with _retransmit replaced by an environment choice (contracted on its own):
    it either hands back the next in-order segment or fails"""

    def _retransmit(self):
        rt.emit("retransmit", self._ackseq)
        if rt.choose_bool("retransmit_fails"):
            raise SdoCommunicationError("Some data were lost and could not be retransmitted")
        r = rt.choose_bytes("retransmitted", 8)
        rt.assume((r[0] & 0x7F) == 1)          # _retransmit's own contract: only segment 1 of the new sub-block
        rt.emit("retransmitted", r)
        self._ackseq = 1
        return r

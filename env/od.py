"""Abstract object dictionary as LocalNode sees it: an index is present or not; a present object is a variable or
a record/array in which a sub-index is present or not (all chosen in the pre-state)."""
from env import rt


class OdStub:
    def __init__(self, present, is_var, var, rec):
        self.present = present
        self.is_var = is_var
        self.var = var
        self.rec = rec

    def __contains__(self, index):
        return self.present

    def __getitem__(self, index):
        if not self.present:
            raise KeyError(index)
        return self.var if self.is_var else self.rec


class RecStub:
    def __init__(self, has_sub, var):
        self.has_sub = has_sub
        self.var = var

    def __contains__(self, subindex):
        return self.has_sub

    def __getitem__(self, subindex):
        if not self.has_sub:
            raise KeyError(subindex)
        return self.var


class ReadCb:
    """application read callback: answers with preset bytes or None (not responsible)"""

    def __init__(self, name, result):
        self.name = name
        self.result = result

    def __call__(self, index, subindex, od):
        rt.emit("read_cb", self.name, index, subindex, od)
        return self.result
